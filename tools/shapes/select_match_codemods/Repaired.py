# form of commit ad4acf6
TAGS = {"include_matcher": "FullGlob", "include_dedup": True, "exclude_matcher": "FullGlob"}


def _wildcard_pattern(name):
    """Compile a codemod id pattern where `*` is the only wildcard character."""
    return re.compile(".*".join(re.escape(part) for part in name.split("*")))


def match_codemods(self, codemod_include=None, codemod_exclude=None, sast_only=False):
    codemod_include = codemod_include or []
    codemod_exclude = codemod_exclude or DEFAULT_EXCLUDED_CODEMODS

    if codemod_exclude and not codemod_include:
        base_codemods = {}
        patterns = [
            _wildcard_pattern(exclude)
            for exclude in codemod_exclude
            if "*" in exclude
        ]
        names = set(name for name in codemod_exclude if "*" not in name)

        for codemod in self.codemods:
            if codemod.id in names or any(
                pat.fullmatch(codemod.id) for pat in patterns
            ):
                continue

            if bool(sast_only) != bool(codemod.origin == "pixee"):
                base_codemods[codemod.id] = codemod

        # Remove duplicates and preserve order
        return list(base_codemods.values())

    # Each codemod runs at most once: keep the first occurrence, in the order given
    matched_codemods = {}
    for name in codemod_include:
        if "*" in name:
            pat = _wildcard_pattern(name)
            pattern_matches = [
                code for code in self.codemods if pat.fullmatch(code.id)
            ]
            for code in pattern_matches:
                matched_codemods.setdefault(code.id, code)
            if not pattern_matches:
                logger.warning(
                    "Given codemod pattern '%s' does not match any codemods.", name
                )
            continue

        try:
            matched_codemods.setdefault(name, self._codemods_by_id[name])
        except KeyError:
            logger.warning(f"Requested codemod to include '{name}' does not exist.")
    return list(matched_codemods.values())
