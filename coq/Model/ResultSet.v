(** Model of codemodder.result.ResultSet: add_result, __or__, list_dict_or, |= . Definitions only. *)
From CM Require Export Base.Dict Base.TableTypes.

(** A tool result as far as merging is concerned: an identity, its rule id and the file of each location. *)
Record res := { rid : N; rrule : str; rfiles : list str }.

Definition fdict := dict str (list res).      (* file -> results *)
Definition rs := dict str fdict.              (* rule -> file -> results *)

Definition getl {V} (k : str) (d : dict str (list V)) : list V :=
  match dget str_eqb k d with Some l => l | None => [] end.
Definition getd (k : str) (R : rs) : fdict :=
  match dget str_eqb k R with Some d => d | None => [] end.

Definition lookup (R : rs) (k p : str) : list res := getl p (getd k R).

(** self.setdefault(rule, {}).setdefault(loc.file, []).append(result), for each location *)
Definition add_one (r : res) (R : rs) (f : str) : rs :=
  let inner := getd (rrule r) R in
  dset str_eqb (rrule r) (dset str_eqb f (getl f inner ++ [r]) inner) R.
Definition add_result (R : rs) (r : res) : rs := fold_left (add_one r) (rfiles r) R.
Definition of_results (l : list res) : rs := fold_left add_result l [].

(** list_dict_or(dictionary, other) *)
Definition ldo_total (dictionary other : fdict) : fdict :=
  dmapk (fun k => getl k dictionary ++ getl k other) (dupdate str_eqb other dictionary).
Definition ldo_asis (dictionary other : fdict) : out fdict :=
  let r := dupdate str_eqb other dictionary in
  if forallb (fun k => dhas str_eqb k dictionary && dhas str_eqb k other) (dkeys r)
  then Ok (dmapk (fun k => getl k dictionary ++ getl k other) r)
  else KeyErr.

(** ResultSet.__or__ *)
Definition or_total (A B : rs) : rs :=
  dmapk (fun k => ldo_total (getd k A) (getd k B)) (dupdate str_eqb A B).

Fixpoint or_asis_loop (A B : rs) (ks : list str) (acc : rs) : out rs :=
  match ks with
  | [] => Ok acc
  | k :: ks' =>
      match dget str_eqb k A, dget str_eqb k B with
      | Some a, Some b =>
          match ldo_asis a b with
          | Ok v => or_asis_loop A B ks' (dset str_eqb k v acc)
          | KeyErr => KeyErr
          end
      | _, _ => KeyErr
      end
  end.
Definition or_asis (A B : rs) : out rs :=
  let r := dupdate str_eqb A B in or_asis_loop A B (dkeys r) r.

Definition rs_or (v : rs_variant) (A B : rs) : out rs :=
  match v with AsIsNoIor => or_asis A B | TotalOrWithIor => Ok (or_total A B) end.

(** [A |= B] as executed: dict.__ior__ (update) when the class defines no __ior__,
    otherwise self.update(self | other). *)
Definition rs_ior (v : rs_variant) (A B : rs) : rs :=
  match v with
  | AsIsNoIor => dupdate str_eqb A B
  | TotalOrWithIor => dupdate str_eqb A (or_total A B)
  end.

(** process_*_findings: results = ResultSet(); for f in files: results |= from_file(f) *)
Definition combine_files (v : rs_variant) (Rs : list rs) : rs := fold_left (rs_ior v) Rs [].
