"""C01 — see harness/e2e_props.py (search) and coq/Properties/C01.v (lifting theorem + kernels)."""
from harness import c01_strlit, core, e2e_props

PROP = "C01"
META = {
    "rule": "seed programs (inputs of the repository's own codemod tests, harvested at build time) x structural variants "
            "(module level / def / class method / if / try / with / for, CRLF, tabs, no final newline, exploded brackets, trailing comments, "
            "swapped quotes, appended code) for every registered codemod, applied twice through codemod.apply + process_dependencies; "
            "non-trivial = the first run changed the file; distinct by (codemod, program text)",
    "trusted": ["CPython compile()/symtable as the meaning of 'parses' and of name binding", "corpus/seeds/seeds.json harvested from the repository's test inputs"],
    "assumptions": ["the local contract of each unmodelled transformer is sampled, not proved (theorems are _partial: lifting + modelled kernels)"],
}


def run(ctx):
    c01_strlit.run(ctx)
    e2e_props.run(ctx, PROP)
    e2e_props.run_sequences(ctx, PROP, 10 if ctx.quick() else 80)


def replay(ctx, body):
    return e2e_props.replay(ctx, body, PROP)
