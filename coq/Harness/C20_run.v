(** Checkers of the C20 correspondence: the harness realises a world as a real invocation of the console entry point
    and reports (world, exit status, traceback seen, report file exists). *)
From CM Require Import Harness.RunBase Model.Exit Spec.ExitSpec Proofs.ExitFacts Generated.Tables.

Definition tables : exit_tables :=
  mkT exit_chain write_report_status_used argparse_error_code exit_checked_groups max_workers_validated semgrep_targets_filtered.

(** world <-> 14 numbers: argparse (0 Args, 1 ParseErr, 2 EarlyExit0), bad_workers, bad_line, dir_exists,
    sarif (0 Ok, 1 Duplicate, 2 NotFound, 3 Malformed), miss_issues, miss_hotspots, miss_dd, miss_contrast, ai_consistent, output, write_ok, write_partial, unreadable_target *)
Definition nb (b : bool) : N := if b then 1%N else 0%N.
Definition bn (n : N) : bool := negb (N.eqb n 0).
Definition world_code (w : world) : list N :=
  [match w_argparse w with Args => 0 | ParseErr => 1 | EarlyExit0 => 2 end; nb (w_bad_workers w); nb (w_bad_line w); nb (w_dir_exists w);
   match w_sarif w with SarifOk => 0 | SarifDuplicate => 1 | SarifNotFound => 2 | SarifMalformed => 3 end;
   nb (w_miss_issues w); nb (w_miss_hotspots w); nb (w_miss_dd w); nb (w_miss_contrast w); nb (w_ai_consistent w);
   nb (w_output w); nb (w_write_ok w); nb (w_write_partial w); nb (w_unreadable_target w)]%N.
Definition world_of_code (l : list N) : world :=
  let g i := nth i l 0%N in
  {| w_argparse := match g 0%nat with 0 => Args | 1 => ParseErr | _ => EarlyExit0 end%N;
     w_bad_workers := bn (g 1%nat); w_bad_line := bn (g 2%nat); w_dir_exists := bn (g 3%nat);
     w_sarif := match g 4%nat with 0 => SarifOk | 1 => SarifDuplicate | 2 => SarifNotFound | _ => SarifMalformed end%N;
     w_miss_issues := bn (g 5%nat); w_miss_hotspots := bn (g 6%nat); w_miss_dd := bn (g 7%nat); w_miss_contrast := bn (g 8%nat);
     w_ai_consistent := bn (g 9%nat); w_output := bn (g 10%nat); w_write_ok := bn (g 11%nat); w_write_partial := bn (g 12%nat); w_unreadable_target := bn (g 13%nat) |}.

(** (world code, exit status, exception escaped, what is at the --output path: 0 nothing new / 1 a file that is not a
    complete JSON document / 2 a complete JSON document) *)
Definition exit_case := (list N * Z * bool * N)%type.
Definition rep_code (r : report_state) : N := match r with RNone => 0 | RPartial => 1 | RFull => 2 end%N.
Definition rep_of_code (n : N) : report_state := match n with 0 => RNone | 1 => RPartial | _ => RFull end%N.

Definition exit_model_ok (c : exit_case) : bool :=
  let '(wc, rc, tb, rep) := c in
  match run_exit tables (world_of_code wc) with
  | Exit z r => Z.eqb rc z && N.eqb rep (rep_code r) && negb tb
  | Crash => tb && Z.eqb rc 1 && N.eqb rep 0         (* uncaught exception: the interpreter prints a traceback and exits 1 *)
  end.

Definition reaches_malformed (w : world) : bool :=
  match w_argparse w, w_sarif w with
  | Args, SarifMalformed => negb (w_bad_workers w) && negb (w_bad_line w) && w_dir_exists w
  | _, _ => false
  end.

(** a traceback is never a documented outcome; where a status is documented it must be that one, with the report rule *)
Definition exit_spec_ok (c : exit_case) : bool :=
  let '(wc, rc, tb, rep) := c in
  let w := world_of_code wc in
  negb tb &&
  (if reaches_malformed w then true          (* no status is documented for an unreadable SARIF file *)
   else Z.eqb rc (documented w) && report_conforms w (rep_of_code rep)).

(** active branches of the table-indexed statements, as world codes (empty list = positive branch) *)
Definition active_exit_counterexamples : list (list N) := map world_code (exit_counterexamples tables).
Definition active_report_counterexamples : list (list N) := map world_code (report_counterexamples tables).
Definition active_crash_counterexamples : list (list N) := map world_code (crash_counterexamples tables).
Definition model_of_code (wc : list N) : (Z * N * bool) :=
  match run_exit tables (world_of_code wc) with Exit z r => (z, rep_code r, false) | Crash => (1%Z, 0%N, true) end.
Definition documented_of_code (wc : list N) : (Z * bool) :=
  let w := world_of_code wc in (documented w, report_due w).

(** attribution of a deviation to an argument value that argparse lets through (classes of findings/C20.json):
    the observation is what is documented for the same world WITHOUT that argument value, or the escape of the
    exception that value provokes (the harness checks the exception text) *)
Definition clear_line (w : world) : world :=
  {| w_argparse := w_argparse w; w_bad_workers := w_bad_workers w; w_bad_line := false; w_dir_exists := w_dir_exists w;
     w_sarif := w_sarif w; w_miss_issues := w_miss_issues w; w_miss_hotspots := w_miss_hotspots w; w_miss_dd := w_miss_dd w;
     w_miss_contrast := w_miss_contrast w; w_ai_consistent := w_ai_consistent w; w_output := w_output w;
     w_write_ok := w_write_ok w; w_write_partial := w_write_partial w; w_unreadable_target := w_unreadable_target w |}.
Definition clear_workers (w : world) : world :=
  {| w_argparse := w_argparse w; w_bad_workers := false; w_bad_line := w_bad_line w; w_dir_exists := w_dir_exists w;
     w_sarif := w_sarif w; w_miss_issues := w_miss_issues w; w_miss_hotspots := w_miss_hotspots w; w_miss_dd := w_miss_dd w;
     w_miss_contrast := w_miss_contrast w; w_ai_consistent := w_ai_consistent w; w_output := w_output w;
     w_write_ok := w_write_ok w; w_write_partial := w_write_partial w; w_unreadable_target := w_unreadable_target w |}.
Definition as_documented (w : world) (rc : Z) (rep : N) : bool :=
  negb (reaches_malformed w) && Z.eqb rc (documented w) && report_conforms w (rep_of_code rep).
Definition attrib_line_ok (c : exit_case) : bool :=
  let '(wc, rc, tb, rep) := c in let w := world_of_code wc in
  w_bad_line w && negb tb && as_documented (clear_line w) rc rep.
Definition attrib_workers_ok (c : exit_case) : bool :=
  let '(wc, rc, tb, rep) := c in let w := world_of_code wc in
  w_bad_workers w && negb tb && as_documented (clear_workers w) rc rep.
Definition clear_contrast (w : world) : world :=
  {| w_argparse := w_argparse w; w_bad_workers := w_bad_workers w; w_bad_line := w_bad_line w; w_dir_exists := w_dir_exists w;
     w_sarif := w_sarif w; w_miss_issues := w_miss_issues w; w_miss_hotspots := w_miss_hotspots w; w_miss_dd := w_miss_dd w;
     w_miss_contrast := false; w_ai_consistent := w_ai_consistent w; w_output := w_output w;
     w_write_ok := w_write_ok w; w_write_partial := w_write_partial w; w_unreadable_target := w_unreadable_target w |}.
Definition attrib_contrast_ok (c : exit_case) : bool :=
  let '(wc, rc, tb, rep) := c in let w := world_of_code wc in
  w_miss_contrast w && negb tb && as_documented (clear_contrast w) rc rep.
(** the status of a failed write is dropped: everything up to the write was fine (documented 2), status 0, no complete report *)
Definition attrib_write_dropped_ok (c : exit_case) : bool :=
  let '(wc, rc, tb, rep) := c in let w := world_of_code wc in
  negb tb && negb (reaches_malformed w) && Z.eqb (documented w) 2 && Z.eqb rc 0 && negb (N.eqb rep 2).
(** an escaped exception is attributable to the class only if the model reaches the statement that raises it *)
Definition crash_reached (c : exit_case) : bool :=
  let '(wc, rc, tb, rep) := c in
  match run_exit tables (world_of_code wc) with Crash => tb | _ => false end.
