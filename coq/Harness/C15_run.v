(** Boolean checkers evaluated by harness/c15.py with vm_compute. *)
From CM Require Import Harness.RunBase Model.Report Model.ReportTables Spec.ReportSpec Spec.ReportModelsTable Generated.Tables.

Fixpoint json_eqb (a b : json) : bool :=
  match a, b with
  | JNull, JNull => true
  | JBool x, JBool y => Bool.eqb x y
  | JNum x, JNum y => Z.eqb x y
  | JStr x, JStr y => str_eqb x y
  | JArr x, JArr y =>
      (fix go (l m : list json) : bool :=
         match l, m with
         | [], [] => true
         | p :: l', q :: m' => json_eqb p q && go l' m'
         | _, _ => false
         end) x y
  | JObj x, JObj y =>
      (fix go (l m : list (str * json)) : bool :=
         match l, m with
         | [], [] => true
         | (k, p) :: l', (k', q) :: m' => str_eqb k k' && json_eqb p q && go l' m'
         | _, _ => false
         end) x y
  | _, _ => false
  end.

(** 1. serialisation: a model value and the parsed output of model_dump_json(exclude_none=True) of the same pydantic object *)
Definition ser_case := (codetf * json)%type.
Definition ser_model_ok (c : ser_case) : bool := json_eqb (to_json (fst c)) (snd c).

(** 2. the schema transcription: a document and the verdict of python-jsonschema with vendor/codetf.schema.json *)
Definition schema_case := (json * bool)%type.
Definition schema_agree_ok (c : schema_case) : bool := Bool.eqb (schema_ok (fst c)) (snd c).
Definition schema_holds_ok (c : schema_case) : bool := schema_ok (fst c).

(** 3. validators: Change(lineNumber, description) accepted by pydantic? *)
Definition val_case := (Z * option str * bool)%type.
Definition accepted (o : option change) : bool := match o with Some _ => true | None => false end.
Definition val_model_ok (c : val_case) : bool :=
  let '(l, d, acc) := c in Bool.eqb (accepted (mk_change the_validators l d SideRight None None None)) acc.
Definition val_spec_ok (c : val_case) : bool :=
  let '(l, d, acc) := c in Bool.eqb acc ((1 <=? l)%Z && match d with Some [] => false | _ => true end).

(** 4. Reference back-fill: url, description given, description observed *)
Definition ref_case := (str * option str * option str)%type.
Definition ref_model_ok (c : ref_case) : bool :=
  let '(u, d, obs) := c in option_eqb str_eqb (rf_desc (mk_reference report_ref_backfill u d)) obs.

(** 5. whole runs: apply_codemods + compile_results + CodeTF.build on synthetic codemods; observed report *)
Definition run_case := (invocation * bool * list cm_run * json)%type.
Definition run_model_ok (c : run_case) : bool :=
  let '(iv, nf, runs, obs) := c in json_eqb (to_json (report the_rtables iv nf runs)) obs.
Definition run_schema_ok (c : run_case) : bool := let '(_, _, _, obs) := c in schema_ok obs.

(** 6. the translator's table of codetf.py against the records of the model *)
Definition default_eqb (a b : field_default) : bool :=
  match a, b with
  | NoDefault, NoDefault | DefaultNone, DefaultNone | DefaultEmptyList, DefaultEmptyList | DefaultOther, DefaultOther => true
  | DefaultEnum x, DefaultEnum y => str_eqb x y
  | _, _ => false
  end.
Definition field_row_eqb (a b : field_row) : bool :=
  let '(n, t, o, d) := a in let '(n', t', o', d') := b in str_eqb n n' && str_eqb t t' && Bool.eqb o o' && default_eqb d d'.
Definition model_row_eqb (a b : model_row) : bool :=
  let '(n, bs, fs) := a in let '(n', bs', fs') := b in str_eqb n n' && str_eqb bs bs' && list_eqb field_row_eqb fs fs'.
Definition models_table_ok : bool := list_eqb model_row_eqb report_codetf_models expected_models.
(** names of the classes whose row differs or is missing on either side *)
Definition models_diff : list str :=
  let name (r : model_row) := fst (fst r) in
  let differs (l : list model_row) (r : model_row) := negb (existsb (model_row_eqb r) l) in
  map name (List.filter (differs expected_models) report_codetf_models) ++
  map name (List.filter (differs report_codetf_models) expected_models).

(** 7. the regex pipeline on one file: class change_description, the file's run, did apply raise?, the returned ChangeSet *)
Definition regex_case := (str * file_run * bool * option json)%type.
Definition regex_model_ok (c : regex_case) : bool :=
  let '(cd, f, raised, obs) := c in
  if pipe_aborts the_tables (PRegex cd) f then raised
  else negb raised &&
       match fc_changesets (pipe_file the_tables (PRegex cd) f), obs with
       | [], None => true
       | [cs], Some j => json_eqb (changeset_json cs) j
       | _, _ => false
       end.
(** ... and the failure list / unfixed findings of the FileContext: failed?, unfixed findings as JSON *)
Definition regex_ctx_case := (str * file_run * bool * list json)%type.
Definition regex_ctx_model_ok (c : regex_ctx_case) : bool :=
  let '(cd, f, failed, unf) := c in
  let fc := pipe_file the_tables (PRegex cd) f in
  Bool.eqb (negb (is_nil (fc_failures fc))) failed &&
  json_eqb (JArr (map unfixed_json (fc_unfixed fc))) (JArr unf).
