(** C12 — no finding is lost or altered between the tool result files and the codemods.
    Full statement (merging half): for every finite family R1..Rm of result sets, in any order,
    merge(R1..Rm) is the multiset union, for both the `|` and the `|=` form.
    Statements are indexed by the table value extracted from /repo's result.py (Generated/Tables.v):
    the positive branch is the law; the negative branch is its refutation by a concrete witness. *)
From CM Require Import Base.Dict Model.ResultSet Spec.ResultSetSpec Proofs.ResultSetFacts Generated.Tables.
From Coq Require Import Permutation.

Definition C12_or_statement (v : rs_variant) : Prop :=
  match v with
  | TotalOrWithIor => forall A B, exists C, rs_or v A B = Ok C /\ forall k p, lookup C k p = union_spec A B k p
  | AsIsNoIor => exists A B, rs_or v A B = KeyErr
  end.
Lemma C12_or_all v : C12_or_statement v.
Proof.
  destruct v; simpl.
  - exists (of_results [w_r1]), (of_results [w_r3]). exact or_asis_disjoint_rules_keyerr.
  - intros A B. exists (or_total A B). split; [reflexivity|]. intros k p. apply lookup_or_total.
Qed.
Theorem C12_or_total_union : C12_or_statement resultset_variant.
Proof. exact (C12_or_all resultset_variant). Qed.
Print Assumptions C12_or_total_union.

Definition C12_ior_statement (v : rs_variant) : Prop :=
  match v with
  | TotalOrWithIor => forall A B k p, lookup (rs_ior v A B) k p = union_spec A B k p
  | AsIsNoIor => exists A B k p, lookup (rs_ior v A B) k p <> union_spec A B k p
  end.
Lemma C12_ior_all v : C12_ior_statement v.
Proof.
  destruct v; simpl.
  - exists (of_results [w_r1]), (of_results [w_r2]), [114; 49]%N, [97]%N. exact ior_asis_loses.
  - intros. apply lookup_ior_total.
Qed.
Theorem C12_ior_union : C12_ior_statement resultset_variant.
Proof. exact (C12_ior_all resultset_variant). Qed.
Print Assumptions C12_ior_union.

(** Any number of files, combined the way process_*_findings does, in any order: nothing lost, nothing duplicated. *)
Definition C12_family_statement (v : rs_variant) : Prop :=
  match v with
  | TotalOrWithIor =>
      (forall Rs k p, lookup (combine_files v Rs) k p = family_spec Rs k p) /\
      (forall Rs Rs' k p, Permutation Rs Rs' ->
         Permutation (lookup (combine_files v Rs) k p) (lookup (combine_files v Rs') k p))
  | AsIsNoIor => exists Rs k p, lookup (combine_files v Rs) k p <> family_spec Rs k p
  end.
Lemma C12_family_all v : C12_family_statement v.
Proof.
  destruct v; simpl.
  - exists [of_results [w_r1]; of_results [w_r2]], [114; 49]%N, [97]%N. vm_compute. discriminate.
  - split.
    + intros. apply lookup_combine_total.
    + intros Rs Rs' k p HP. rewrite !lookup_combine_total. now apply family_spec_perm.
Qed.
Theorem C12_family_union_any_order : C12_family_statement resultset_variant.
Proof. exact (C12_family_all resultset_variant). Qed.
Print Assumptions C12_family_union_any_order.

(** add_result files a result under its rule once per location, and touches nothing else. *)
Theorem C12_add_result : forall R r k p, lookup (add_result R r) k p = lookup R k p ++ occs r k p (rfiles r).
Proof. exact lookup_add_result. Qed.
Print Assumptions C12_add_result.

(** Non-vacuity: a non-trivial family on which the law is computed. *)
Example C12_family_example :
  family_spec [of_results [w_r1; w_r3]; of_results [w_r2; w_r1]] [114; 49]%N [97]%N = [w_r1; w_r1].
Proof. vm_compute. reflexivity. Qed.

(** Readers.  Full statement: for all generated Sonar/SARIF/DefectDojo documents, parsed findings == reference
    extraction (every open issue AND hotspot that carries a location; every location of every result of every run). *)
From CM Require Import Model.Readers Model.Sarif Spec.ReadersSpec Spec.SarifSpec Proofs.ReadersFacts Proofs.SarifFacts.

Definition C12_sonar_statement (v : sonar_select) : Prop :=
  match v with
  | IssuesPlusHotspotsPerEntry =>
      (* any document whose container has the right shape: exactly the individually readable open entries *)
      (forall doc, wf_container doc = true -> sonar_reader v doc = sonar_spec_robust doc) /\
      (forall doc, wf_sonar doc = true -> sonar_reader v doc = sonar_spec doc)
  | IssuesPlusHotspots =>
      (forall doc, wf_sonar doc = true -> sonar_reader v doc = sonar_spec doc) /\
      (* ... but one malformed entry discards the readable findings of the whole file *)
      (exists doc, wf_container doc = true /\ length (sonar_spec_robust doc) = 1 /\ sonar_reader v doc = [])
  | IssuesOrElse => exists doc, wf_sonar doc = true /\ sonar_reader v doc <> sonar_spec doc
  end.
Lemma C12_sonar_all v : C12_sonar_statement v.
Proof.
  destruct v; simpl.
  - exists w_doc; exact sonar_pinned_refuted.
  - split; [exact sonar_reader_spec | exists w_doc_mal; exact sonar_perfile_refuted].
  - split; [exact sonar_reader_robust | exact sonar_reader_spec_per_entry].
Qed.
Theorem C12_sonar_reader : C12_sonar_statement sonar_select_expr.
Proof. exact (C12_sonar_all sonar_select_expr). Qed.
Print Assumptions C12_sonar_reader.

Example C12_sonar_example :
  wf_sonar w_doc = true /\ length (sonar_spec w_doc) = 2 /\
  wf_container w_doc_mal = true /\ wf_sonar w_doc_mal = false /\ length (sonar_spec_robust w_doc_mal) = 1.
Proof. repeat split; vm_compute; reflexivity. Qed.

(** SARIF and DefectDojo readers, full statement: a reader either raises -- exactly when some run, result or location
    is individually unreadable ([readable_*], Spec/SarifSpec.v) -- or files exactly the reference extraction: every
    location of every result of every run (of that tool).  Nothing is ever skipped silently. *)
Theorem C12_semgrep_reader : forall doc,
  semgrep_reader doc = if readable_semgrep doc then Some (semgrep_spec doc) else None.
Proof. exact semgrep_reader_exact. Qed.
Print Assumptions C12_semgrep_reader.
Theorem C12_codeql_reader : forall scd doc,      (* scd: what a region without startColumn starts at (table codeql_start_column) *)
  codeql_reader scd doc = if readable_codeql scd doc then Some (codeql_spec scd doc) else None.
Proof. exact codeql_reader_exact. Qed.
Print Assumptions C12_codeql_reader.
Theorem C12_dd_reader : forall doc, dd_reader doc = if readable_dd doc then Some (dd_spec doc) else None.
Proof. exact dd_reader_exact. Qed.
Print Assumptions C12_dd_reader.
(** Non-vacuity: a readable two-location SARIF document, one with an unreadable location, and the DefectDojo analogue. *)
Example C12_sarif_example :
  readable_semgrep w_sarif = true /\ length (semgrep_spec w_sarif) = 2 /\
  readable_codeql codeql_start_column w_sarif = true /\ length (codeql_spec codeql_start_column w_sarif) = 2 /\
  readable_semgrep w_sarif_bad = false /\ semgrep_reader w_sarif_bad = None /\
  readable_dd w_dd = true /\ length (dd_spec w_dd) = 1.
Proof. vm_compute. repeat split; reflexivity. Qed.
(** foreign runs next to CodeQL runs do not disturb the CodeQL findings *)
Theorem C12_codeql_foreign_runs : forall scd runs1 runs2,
  codeql_spec scd (JObj [(s_runs, JArr (runs1 ++ runs2))]) =
  codeql_spec scd (JObj [(s_runs, JArr runs1)]) ++ codeql_spec scd (JObj [(s_runs, JArr runs2)]).
Proof. exact codeql_spec_app. Qed.
Print Assumptions C12_codeql_foreign_runs.

(** Which tool a SARIF file is attributed to (sarifs.detect_sarif_tools): exact, and undisturbed by runs a detector cannot
    inspect or by other tools' runs, wherever they stand in the file. *)
From CM Require Import Model.SarifTools Proofs.SarifToolsFacts.
Theorem C12_sarif_attribution_exact : forall ord files m,
  (forall t, In t ord) ->                     (* every detector is iterated, in whatever order the entry points come *)
  detect_tools_ord ord files = TOk m ->
  NoDup (map fst m) /\
  forall t f, In (t, f) m <-> exists runs, In (f, Some runs) files /\ exists run, In run runs /\ detect t run = DYes.
Proof. exact detect_tools_ord_exact. Qed.
Print Assumptions C12_sarif_attribution_exact.
(** Non-vacuity: two files, three runs (a foreign one first): detection succeeds and attributes both tools *)
Example C12_sarif_attribution_example :
  detect_tools w_tfiles = TOk [(TSemgrep, 0%N); (TCodeQL, 1%N)] /\
  detect_tools_ord [TSemgrep; TCodeQL] w_tfiles = TOk [(TSemgrep, 0%N); (TCodeQL, 1%N)].
Proof. split; vm_compute; reflexivity. Qed.
