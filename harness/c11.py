"""C11 — results do not depend on scheduling, worker count, hash seed or sibling files; at most --max-workers files
are processed at the same time.

Implementation side: the real console entry point (core.run_cli) on generated projects, perturbed from outside:
--max-workers, per-file delays (wrapper around BaseCodemod._process_file installed by `preload`), PYTHONHASHSEED,
file creation order, presence of sibling files.  Model/spec side: coq/Model/Sched.v, coq/Spec/SchedSpec.v evaluated by
vm_compute on the observed schedules (coq/Harness/C11_run.v)."""
from __future__ import annotations

import concurrent.futures
import hashlib
import json
import os
import re
from pathlib import Path

from harness import core
from harness.core import cN, cbool, clist, copt, cpair, cstr

META = {
    "rule": "a generated project (6-12 Python files with triggers for three libcst-only codemods, an unparsable file, "
            "non-Python siblings) run through the real CLI under --max-workers {1,2,4,16} x per-file delay schedules "
            "(increasing, reversed, random: completion order differs from input order) x PYTHONHASHSEED x file creation "
            "orders; normalised report + tree must be constant; in-flight counter <= w; run(D)|f = run({f})|f; SAST-mode "
            "selection order constant over hash seeds (with and without Sonar issues, the latter delayed, 4 workers); a second project with a "
            "semgrep-detected and a dependency-adding codemod under the same perturbations.  The observed schedules are run through the Coq "
            "model: the FINAL state of the model does not depend on the trace (that is the theorem), so the replay adds power only at the "
            "intermediate points - what each task's file held when the task started and returned must equal the model's file system at that "
            "point of the trace (sched_points_ok) - and for the pool (submit/spawn/take/done events must be an execution of the worker "
            "model).  Spec checks compare runs with each other (constancy); exact orders are model checks only. "
            "non-trivial = a run whose completion order differs from its input order, or a perturbed seed/creation order "
            "that yields a different enumeration, or a single-file project; distinct by (configuration, observed schedule)",
    "trusted": [
        "concurrent.futures.ThreadPoolExecutor honours max_workers (oracle; its in-flight maximum is measured every run)",
        "the instrumentation installed by preload (wrappers around BaseCodemod._process_file and _apply, logging subclass of "
        "ThreadPoolExecutor, wrappers of process_results/files_for_directory) does not change behaviour; the execution order is "
        "taken from the _apply wrapper, never from log text",
        "libcst pipelines of the three codemods are functions of the file text (measured on the single-file projects)",
    ],
    "assumptions": [
        "a per-file task touches only its own file and its own FileContext (translator: sched_task_local; tested by the "
        "constancy of the results over schedules)",
        "ThreadPoolExecutor(max_workers=b) behaves like the worker model of Model/Sched.v: at most b threads, one item per thread at "
        "a time (tested: the observed submit/spawn/take/done events are an execution of the model; in-flight maximum)",
        "a pipeline's answer is a function of (path, findings, text read) (tested: oracle table measured on single-file projects "
        "explains every run)",
        "dict iterates in insertion order and looks keys up through hash then ==; a set is iterated in slot order "
        "(model: buckets/slots for any hash h and table size m; CPython's probing is not modelled)",
        "worker count w >= 1",
    ],
}

IMPORTS = "From CM Require Import Harness.RunBase Harness.C11_run Model.Sched.\n"
CODEMODS = ["pixee:python/use-set-literal", "pixee:python/use-generator", "pixee:python/literal-or-new-object-identity"]
PD_CODEMODS = ["pixee:python/secure-random", "pixee:python/use-defusedxml"]
CORPUS = core.VERIF / "corpus" / "C11"

# ------------------------------------------------------------------------------------------------------------------
# Instrumentation executed in the child before main().  Nothing here changes what codemodder computes.
PRELOAD = r'''
import os as _os, json as _json, threading as _th, time as _time, hashlib as _hl
from codemodder.codemods import base_codemod as _bc
import codemodder.context as _cx
_LOG = _os.environ["C11_LOG"]
_lock = _th.Lock()
_state = {"inflight": 0}
_delays = _json.loads(_os.environ.get("C11_DELAYS", "{}"))
def _log(rec):
    with open(_LOG, "a") as f:
        f.write(_json.dumps(rec) + "\n")
def _sha(p):
    try:
        with open(p, "rb") as f:
            return _hl.sha1(f.read()).hexdigest()
    except OSError:
        return None
_orig_pf = _bc.BaseCodemod._process_file
def _wrapped_pf(self, filename, context, results, rules):
    rel = _os.path.relpath(str(filename), str(context.directory))
    with _lock:
        _state["inflight"] += 1
        _log({"ev": "start", "codemod": self.id, "file": rel, "inflight": _state["inflight"], "before": _sha(filename),
              "thread": _th.get_ident()})
    try:
        d = _delays.get(rel, 0)
        if d:
            _time.sleep(d)
        return _orig_pf(self, filename, context, results, rules)
    finally:
        with _lock:
            _state["inflight"] -= 1
            _log({"ev": "end", "codemod": self.id, "file": rel, "after": _sha(filename), "thread": _th.get_ident()})
_bc.BaseCodemod._process_file = _wrapped_pf
_orig_apply = _bc.BaseCodemod._apply
def _wrapped_apply(self, context, rules):
    with _lock:
        _log({"ev": "apply", "codemod": self.id})
    return _orig_apply(self, context, rules)
_bc.BaseCodemod._apply = _wrapped_apply
_Pool = _bc.ThreadPoolExecutor
class _LoggingPool(_Pool):
    def __init__(self, *a, **k):
        super().__init__(*a, **k)
        with _lock:
            _log({"ev": "pool", "bound": self._max_workers, "cpu": _os.cpu_count()})
    def submit(self, fn, *args, **kwargs):
        try:
            rel = _os.path.relpath(str(args[0]), str(fn.keywords["context"].directory))
            cid = fn.func.__self__.id
        except Exception:
            rel, cid = repr(args[:1]), None
        with _lock:
            _log({"ev": "submit", "codemod": cid, "file": rel})
        return super().submit(fn, *args, **kwargs)
_bc.ThreadPoolExecutor = _LoggingPool
_orig_pr = _cx.CodemodExecutionContext.process_results
def _pr(self, codemod_id, results):
    results = list(results)
    with _lock:
        _log({"ev": "merge", "codemod": codemod_id,
              "files": [_os.path.relpath(str(fc.file_path), str(self.directory)) for fc in results]})
    return _orig_pr(self, codemod_id, iter(results))
_cx.CodemodExecutionContext.process_results = _pr
# Directory enumeration order under the project root is an INPUT of the run (C11_ENUM): what os.scandir / os.listdir return
# there (hence os.walk, glob, Path.iterdir/glob/rglob) is the real content, sorted by name and then reversed / rotated /
# shuffled with a seed.  "natural" leaves the file system's own order.
_ENUM = _os.environ.get("C11_ENUM", "natural")
_ROOT = _os.environ.get("C11_ROOT")
if _ENUM != "natural" and _ROOT:
    import random as _rnd
    _real_scandir, _real_listdir = _os.scandir, _os.listdir
    def _where(path):
        try:
            q = _os.fspath(path)
            if isinstance(q, bytes):
                q = _os.fsdecode(q)
            ap = _os.path.abspath(q)
            if ap == _ROOT or ap.startswith(_ROOT + _os.sep):
                return _os.path.relpath(ap, _ROOT)
        except Exception:
            pass
        return None
    def _permute(items, key, where):
        items = sorted(items, key=key)
        if _ENUM == "reverse":
            return items[::-1]
        if _ENUM == "rotate":
            k = (len(items) // 2) or 1
            return items[k:] + items[:k]
        if _ENUM.startswith("shuffle"):
            _rnd.Random(_ENUM + "|" + where).shuffle(items)
        return items
    class _Scan:
        def __init__(self, path, where):
            with _real_scandir(path) as it:
                self._it = iter(_permute(list(it), lambda e: _os.fsdecode(e.name) if isinstance(e.name, bytes) else e.name, where))
        def __iter__(self):
            return self
        def __next__(self):
            return next(self._it)
        def __enter__(self):
            return self
        def __exit__(self, *a):
            self.close()
        def close(self):
            self._it = iter(())
    def _scandir(path="."):
        w = None if isinstance(path, int) else _where(path)
        return _real_scandir(path) if w is None else _Scan(path, w)
    def _listdir(path="."):
        w = None if isinstance(path, int) else _where(path)
        out = _real_listdir(path)
        return out if w is None else _permute(out, lambda n: _os.fsdecode(n) if isinstance(n, bytes) else n, w)
    _os.scandir = _scandir
    _os.listdir = _listdir
_orig_ffd = _cx.files_for_directory
def _ffd(parent):
    out = _orig_ffd(parent)
    with _lock:
        _log({"ev": "enum", "files": [_os.path.relpath(str(p), str(parent)) for p in out]})
    return out
_cx.files_for_directory = _ffd
'''

PRELOAD_SAST = r'''
import os as _os, json as _json
from importlib.metadata import entry_points as _eps
def _describe():
    out = []
    for ep in _eps().select(group="codemods"):
        col = ep.load()
        rows = []
        for cm in col.codemods:
            w = cm() if isinstance(cm, type) else cm
            rows.append([w.id, w.origin])
        out.append([ep.name + "=" + ep.value, rows])
    return out
with open(_os.environ["C11_LOG"], "a") as _f:
    _f.write(_json.dumps({"ev": "eps", "eps": _describe()}) + "\n")
'''

# ------------------------------------------------------------------------------------------------------------------
# Project generator
NAMES = ["a.py", "b.py", "m1.py", "zeta.py", "Alpha.py", "pkg/__init__.py", "pkg/util.py", "pkg/sub/deep.py", "lib/x.py",
         "lib/y.py", "app.py", "main.py", "_private.py", "k9.py", "src/mod.py", "src/core/eng.py", "B/c.py", "a/b.py"]
TRIGGERS = {
    "set": ["s{n} = set([1, 2, {k}])", "t{n} = set(['a', 'b{k}'])", "u{n} = len(set([{k}]))"],
    "gen": ["g{n} = any([v for v in range({k})])", "h{n} = sum([v * 2 for v in range({k})])", "j{n} = all([v > {k} for v in q])"],
    "ident": ["i{n} = q is [{k}]", "k{n} = q is not {{'a': {k}}}", "l{n} = q is [1, {k}]"],
}
NEUTRAL = ["import os", "q = [3, 4]", "def f{n}(x):\n    return x + {k}", "# comment {k}", "w{n} = {{1, {k}}}", "print(q)"]


def gen_file(rng, idx):
    kinds = rng.choice([[], ["set"], ["gen"], ["ident"], ["set", "gen"], ["set", "gen", "ident"], ["ident", "set"],
                        ["set", "set", "gen"], ["gen", "ident", "ident"]])
    lines = ["import os", "q = [3, 4]"]
    n = 0
    for k in kinds:
        n += 1
        if rng.random() < 0.5:
            lines.append(rng.choice(NEUTRAL[2:]).format(n=f"{idx}_{n}", k=rng.randint(0, 99)))
        lines.append(rng.choice(TRIGGERS[k]).format(n=f"{idx}_{n}", k=rng.randint(0, 99)))
    if rng.random() < 0.4:
        lines.append(rng.choice(NEUTRAL[2:]).format(n=f"{idx}_z", k=idx))
    return "\n".join(lines) + "\n", kinds


def gen_project(rng, n, broken=None):
    names = rng.sample(NAMES, n)
    files, kinds = {}, {}
    for i, name in enumerate(names):
        files[name], kinds[name] = gen_file(rng, i)
    if broken is None:
        broken = rng.random() < 0.5
    if broken:
        b = rng.choice(names)
        files[b] = "def broken(:\n    pass\nx = set([1])\n"
        kinds[b] = ["broken"]
    # make sure all three codemods have work somewhere
    have = {k for name in names for k in kinds[name]}
    for k, name in zip(("set", "gen", "ident"), [x for x in names if kinds[x] != ["broken"]]):
        if k not in have:
            files[name] += TRIGGERS[k][0].format(n="fix", k=7) + "\n"
            kinds[name] = kinds[name] + [k]
    siblings = {"README.md": "# project\nset([1, 2])\n", "data/cfg.json": "{\"a\": [1]}\n"}
    return {"py": files, "other": siblings, "kinds": kinds}


# ------------------------------------------------------------------------------------------------------------------
# One CLI run
def do_run(ctx, cfg):
    """cfg: name, files (rel -> text), order (creation order), w, delays (rel -> s), seed, sast (bool), extra_files"""
    root = ctx.scratch / ("run_" + cfg["name"])
    proj = root / "proj"
    proj.mkdir(parents=True)
    for rel in cfg["order"]:
        p = proj / rel
        p.parent.mkdir(parents=True, exist_ok=True)
        p.write_bytes(cfg["files"][rel].encode())
    log = root / "log.jsonl"
    out = root / "out.json"
    args = [str(proj), "--output", str(out)]
    preload = PRELOAD
    if cfg.get("sast"):
        issues = root / "issues.json"
        issues.write_text(json.dumps(cfg["issues"]))
        args += ["--sonar-issues-json", str(issues)]
        preload = PRELOAD + PRELOAD_SAST
    else:
        args += ["--codemod-include", ",".join(cfg.get("codemods") or CODEMODS)]
    if cfg.get("w") is not None:
        args += ["--max-workers", str(cfg["w"])]
    args += cfg.get("argv_extra") or []
    r = core.run_cli(args, env={"C11_LOG": str(log), "C11_DELAYS": json.dumps(cfg.get("delays") or {}),
                                "C11_ENUM": cfg.get("enum") or "natural", "C11_ROOT": os.path.abspath(str(proj))},
                     hashseed=str(cfg.get("seed", 0)), preload=preload, timeout=300)
    events = [json.loads(l) for l in log.read_text().splitlines()] if log.exists() else []
    rep = None
    if out.exists():
        try:
            rep = json.loads(out.read_text().replace(str(proj) + "/", "").replace(str(proj), "<ROOT>"))
        except Exception:
            rep = None
    tree = {k: hashlib.sha1(v).hexdigest() for k, v in core.read_tree(proj).items()}
    text = r["stdout"] + r["stderr"]
    # execution order: from the instrumentation (wrapper around BaseCodemod._apply); the log text is only cross-checked
    return {"cfg": cfg, "rc": r["rc"], "events": events, "report": rep, "tree": tree, "wall": r["wall"],
            "running": [e["codemod"] for e in events if e["ev"] == "apply"],
            "running_log": re.findall(r"running codemod (\S+)", text), "stderr_tail": r["stderr"][-600:]}


def norm_report(rep):
    if rep is None:
        return None
    return json.dumps(core.normalise_report(rep), sort_keys=True)


def per_codemod(res):
    """codemod id -> dict(submit=[...], pool=[('S'|'F', file)], bound, cpu, merge=[...], before={f:sha}, after={f:sha}, maxin)"""
    out, cur_pool = {}, None
    for e in res["events"]:
        if e["ev"] == "pool":
            cur_pool = e
            continue
        if e["ev"] in ("enum", "eps", "apply"):
            continue
        d = out.setdefault(e["codemod"], {"submit": [], "pool": [], "bound": None, "cpu": None, "merge": None,
                                          "before": {}, "after": {}, "maxin": 0, "pevents": [], "threads": {}})
        if e["ev"] == "submit":
            d["submit"].append(e["file"])
            d["pevents"].append(("submit", e["file"], None))
            if cur_pool is not None:
                d["bound"], d["cpu"] = cur_pool["bound"], cur_pool["cpu"]
        elif e["ev"] == "start":
            d["pool"].append(("S", e["file"]))
            if e.get("thread") not in d["threads"]:
                d["threads"][e.get("thread")] = len(d["threads"])
                d["pevents"].append(("spawn", None, None))
            d["pevents"].append(("take", e["file"], d["threads"][e.get("thread")]))
            d["before"][e["file"]] = e["before"]
            d["maxin"] = max(d["maxin"], e["inflight"])
        elif e["ev"] == "end":
            d["pool"].append(("F", e["file"]))
            d["pevents"].append(("done", e["file"], d["threads"].get(e.get("thread"), 0)))
            d["after"][e["file"]] = e["after"]
        elif e["ev"] == "merge":
            d["merge"] = e["files"]
    return out


def report_of(res, cid):
    for r in (res["report"] or {}).get("results", []):
        if r["codemod"] == cid:
            return r
    return None


def describe(cfg):
    return {k: cfg.get(k) for k in ("name", "w", "delay_kind", "seed", "order_kind", "enum", "argv_extra", "only", "sast")}


def replay_payload(cfg, **kw):
    return {"config": describe(cfg), "project": core.b64tree(cfg["files"]), "creation_order": cfg["order"],
            "argv": (["<dir>", "--output", "<out>", "--max-workers", str(cfg.get("w"))] +
                     (["--sonar-issues-json", "<issues>"] if cfg.get("sast") else
                      ["--codemod-include", ",".join(cfg.get("codemods") or CODEMODS)])),
            "codemods": cfg.get("codemods"),
            "argv_extra": cfg.get("argv_extra") or [],
            "env": {"PYTHONHASHSEED": str(cfg.get("seed", 0)), "C11_DELAYS": cfg.get("delays") or {},
                    "C11_ENUM": cfg.get("enum") or "natural"},
            "issues": cfg.get("issues"), **kw}


# ------------------------------------------------------------------------------------------------------------------
def delay_schedule(rng, kind, paths, step):
    s = sorted(paths)
    if kind == "none":
        return {}
    if kind == "increasing":
        return {p: round(step * (i + 1), 3) for i, p in enumerate(s)}
    if kind == "reversed":
        return {p: round(step * (len(s) - i), 3) for i, p in enumerate(s)}
    if kind == "uniform":
        return {p: step for p in s}
    perm = list(range(len(s)))
    rng.shuffle(perm)
    return {p: round(step * (perm[i] + 1), 3) for i, p in enumerate(s)}


def project_configs(ctx, tag, proj, quick):
    rng = ctx.rng
    files = dict(proj["py"])
    files.update(proj["other"])
    natural = list(files)
    py = list(proj["py"])
    step = 0.02 if len(py) > 8 else 0.03
    cfgs = []

    def add(name, w=1, delay_kind="none", seed=0, order_kind="natural", order=None, step=step, enum="natural"):
        cfgs.append({"name": f"{tag}_{name}", "project": tag, "files": files, "order": order or natural, "w": w,
                     "delay_kind": delay_kind, "delays": delay_schedule(rng, delay_kind, py, step), "seed": seed,
                     "order_kind": order_kind, "enum": enum, "role": "perturbed"})

    add("base")
    cfgs[-1]["role"] = "base"
    ws = [2, 4, 16] if quick else [2, 3, 4, 8, 16]
    kinds = ["increasing", "reversed", "random"] if quick else ["increasing", "reversed", "random", "random", "uniform"]
    for w in ws:
        for k_i, k in enumerate(kinds):
            add(f"w{w}_{k}{k_i}", w=w, delay_kind=k)
    seeds = [1, 2, 3] if quick else [1, 2, 3, 4, 5, 6, 7, 11]
    for s in seeds:
        add(f"seed{s}", seed=s)
        add(f"seed{s}_w4", seed=s, w=4, delay_kind="random")
    # directory enumeration order (controlled: the scratch file system's readdir order does not follow creation order)
    # "sorted" and "reverse" always differ from each other (the root has >= 2 entries), whatever the file system's own order is
    for e in (["reverse", "sorted", "shuffle1"] if quick else ["reverse", "sorted", "shuffle1", "shuffle2", "rotate"]):
        add(f"enum_{e}", enum=e)
    if not quick:
        add("enum_shuffle3_w4", enum="shuffle3", w=4, delay_kind="random", seed=2)
    orders = [("reversed", list(reversed(natural)))]
    if not quick:
        orders += [("sorted", sorted(natural)), ("shuffled", rng.sample(natural, len(natural))),
                   ("shuffled2", rng.sample(natural, len(natural))), ("rsorted", sorted(natural, reverse=True))]
    for i, (ok, order) in enumerate(orders):
        add(f"order_{ok}", order_kind=ok, order=order, w=(4 if i == 2 else 1), delay_kind=("random" if i == 2 else "none"),
            seed=(5 if i == 1 else 0))
    # single-file projects: sibling independence, and the measured oracle table of the model's transformer
    for i, f in enumerate(py):
        cfgs.append({"name": f"{tag}_only{i}", "project": tag, "files": {f: files[f]}, "order": [f], "w": 1, "delay_kind": "none",
                     "delays": {}, "seed": 0, "order_kind": "natural", "role": "only", "only": f})
    return cfgs


SAST_CODEMOD = "sonar:python/literal-or-new-object-identity"


def sast_issue_configs(ctx, proj, quick):
    """SAST-driven (Remediation) codemod with findings in every file, default selection, delayed.  Two families:
    `ps` without any path option, `pso` with one (context.filter_paths takes different branches)."""
    rng = ctx.rng
    files = {}
    for i, (rel, text) in enumerate(proj["py"].items()):
        if text.startswith("def broken("):
            continue
        if not re.search(r"(?<=q )is( not)?(?= [\[{])", text):
            text += f"z{i} = q is [{i}]\n"
        files[rel] = text
    issues, n = {"issues": []}, 0
    for rel, text in sorted(files.items(), reverse=True):          # the issues file has its own order, unrelated to any of the others
        for ln, line in enumerate(text.splitlines(), 1):
            m = re.search(r"(?<=q )is( not)?(?= [\[{])", line)   # Sonar reports the operator
            if m:
                n += 1
                issues["issues"].append({"key": f"K{n}", "rule": "python:S5796", "status": "OPEN", "component": f"proj:{rel}",
                                         "message": "identity", "textRange": {"startLine": ln, "endLine": ln,
                                                                                "startOffset": m.start(), "endOffset": m.end()}})
    out = []

    def add(tag, name, role="perturbed", w=1, delay_kind="none", seed=0, enum="natural", extra=None):
        out.append({"name": f"{tag}_{name}", "project": tag, "files": files, "order": list(files), "w": w, "delay_kind": delay_kind,
                    "delays": delay_schedule(rng, delay_kind, list(files), 0.03), "seed": seed, "order_kind": "natural", "enum": enum,
                    "role": role, "sast": True, "issues": issues, "with_issues": True, "argv_extra": extra or []})
    add("ps", "base", role="base")
    add("ps", "seed1_w4_random", w=4, delay_kind="random", seed=1)
    for sd in ((2, 3) if quick else (2, 3, 4, 5, 6)):     # e.g. the set-ordered default include patterns reach filter_paths only here
        add("ps", f"seed{sd}", seed=sd)
    add("ps", "enum_reverse", enum="reverse")
    add("ps", "enum_sorted", enum="sorted")
    opt = ["--path-exclude", "no_such_dir/**"]
    add("pso", "base", role="base", extra=opt)
    add("pso", "enum_reverse", enum="reverse", extra=opt)
    add("pso", "enum_sorted", enum="sorted", extra=opt)
    if not quick:
        add("ps", "enum_rotate_w4", enum="rotate", w=4, delay_kind="reversed")
        add("ps", "enum_shuffle1", enum="shuffle1")
        add("ps", "enum_shuffle2", enum="shuffle2")
        add("pso", "enum_shuffle1_w4", enum="shuffle1", w=4, delay_kind="random", extra=opt)
        add("pso", "seed3", seed=3, extra=opt)
    return files, out


def sast_configs(ctx, tag, proj, seeds, with_issues):
    files = dict(proj["py"])
    issues = {"issues": []}
    if with_issues:
        n = 0
        for rel, text in sorted(files.items()):
            for ln, line in enumerate(text.splitlines(), 1):
                m = re.search(r"(?<=q )is( not)?(?= [\[{])", line)   # Sonar reports the operator
                if m:
                    n += 1
                    issues["issues"].append({"key": f"K{n}", "rule": "python:S5796", "status": "OPEN", "component": f"proj:{rel}",
                                             "message": "identity", "textRange": {"startLine": ln, "endLine": ln,
                                                                                    "startOffset": m.start(), "endOffset": m.end()}})
    return [{"name": f"{tag}_sast{'i' if with_issues else 'e'}_seed{s}", "project": tag, "files": files, "order": list(files),
             "w": (4 if with_issues else 1), "delay_kind": ("random" if with_issues else "none"),
             "delays": (delay_schedule(ctx.rng, "random", list(files), 0.03) if with_issues else {}),
             "seed": s, "order_kind": "natural", "role": "sast",
             "sast": True, "issues": issues, "with_issues": with_issues} for s in seeds]


# ------------------------------------------------------------------------------------------------------------------
# Coq case terms
def c_ev_trace(pool, index):
    out = []
    for kind, f in pool:
        i = index[f]
        out += [f"Read {i}"] if kind == "S" else [f"Compute {i}", f"Write {i}"]
    return clist(out, "ev")


def c_pool_trace(pevents, index):
    out = []
    for kind, f, k in pevents:
        out.append({"submit": lambda: "Submit %d" % index[f], "spawn": lambda: "Spawn", "take": lambda: "Take %d %d" % (k, index[f]),
                    "done": lambda: "Done %d" % k}[kind]())
    return clist(out, "pev")


class Ids:
    def __init__(self):
        self.m = {}

    def __call__(self, sha):
        if sha not in self.m:
            self.m[sha] = len(self.m) + 1
        return "[%d]%%N" % self.m[sha]


def sha_text(t):
    return hashlib.sha1(t.encode()).hexdigest()


# ------------------------------------------------------------------------------------------------------------------
def run(ctx: core.Ctx):
    rng = ctx.rng
    quick = ctx.quick()
    deep = getattr(ctx, "deep", False)
    tables = ctx.tables or {}
    projects = {}
    cfgs = []

    # corpus first: witnesses of the refuted branches (12 files in flight with --max-workers 2; SAST order over hash seeds;
    # reversed completion order)
    corpus = [json.loads(f.read_text()) for f in sorted(CORPUS.glob("*.json"))] if CORPUS.is_dir() else []
    for c in corpus:
        ctx.count("corpus:" + c["kind"])
    wit = next((c for c in corpus if c["kind"] == "inflight"), {"n_files": 12, "w": 2, "delay": 0.1})
    sast_seeds = next((c for c in corpus if c["kind"] == "sast"), {"seeds": [0, 1, 2, 3, 4]})["seeds"]

    nproj = 1 if quick else 4
    if deep:
        nproj += 1
    for k in range(nproj):
        n = rng.randint(6, 12)
        tag = f"p{k}"
        projects[tag] = gen_project(rng, n)
        cfgs += project_configs(ctx, tag, projects[tag], quick)
    # exhaustive small scope (thorough): every completion order of three files, three workers
    if not quick:
        import itertools
        ex = gen_project(rng, 3, broken=False)
        projects["ex"] = ex
        exfiles = dict(ex["py"])
        exfiles.update(ex["other"])
        expy = sorted(ex["py"])
        cfgs.append({"name": "ex_base", "project": "ex", "files": exfiles, "order": list(exfiles), "w": 1, "delay_kind": "none", "delays": {},
                     "seed": 0, "order_kind": "natural", "role": "base"})
        for j, perm in enumerate(itertools.permutations(range(3))):
            cfgs.append({"name": f"ex_perm{j}", "project": "ex", "files": exfiles, "order": list(exfiles), "w": 3, "delay_kind": "exhaustive",
                         "delays": {expy[i]: 0.06 * (perm[i] + 1) for i in range(3)}, "seed": 0, "order_kind": "natural", "role": "perturbed"})
        for e in ("reverse", "sorted"):
            cfgs.append({"name": f"ex_enum_{e}", "project": "ex", "files": exfiles, "order": list(exfiles), "w": 1, "delay_kind": "none",
                         "delays": {}, "seed": 0, "order_kind": "natural", "enum": e, "role": "perturbed"})
        for i, f in enumerate(expy):
            cfgs.append({"name": f"ex_only{i}", "project": "ex", "files": {f: exfiles[f]}, "order": [f], "w": 1, "delay_kind": "none",
                         "delays": {}, "seed": 0, "order_kind": "natural", "role": "only", "only": f})
    # a semgrep-detected codemod (secure-random) and a dependency-adding one (use-defusedxml, writes requirements.txt after
    # the pool is drained) under delays, several workers, other seeds and creation orders
    pd_py = {}
    for i, name in enumerate(rng.sample(NAMES, 5 if quick else 8)):
        lines = ["import random", "q = [3, 4]"]
        if i % 3 != 2:
            lines.append(f"r{i} = random.randint(0, {rng.randint(1, 99)})")
        if i % 2 == 0:
            lines += ["from xml.etree.ElementTree import parse", f"t{i} = parse('f{i}.xml')"]
        if i % 3 == 2:
            lines.append(f"u{i} = random.random() + {i}")
        pd_py[name] = "\n".join(lines) + "\n"
    pd_files = dict(pd_py)
    pd_files["requirements.txt"] = "requests>=2.0\n"
    projects["pd"] = {"py": pd_py, "other": {"requirements.txt": pd_files["requirements.txt"]}, "kinds": {}}
    pd_natural = list(pd_files)
    for name, w, dk, seed, ok, order in [("base", 1, "none", 0, "natural", pd_natural), ("w4_reversed", 4, "reversed", 0, "natural", pd_natural),
                                         ("w2_random_seed2", 2, "random", 2, "natural", pd_natural),
                                         ("w16_increasing_seed3", 16, "increasing", 3, "natural", pd_natural),
                                         ("order_reversed", 1, "none", 0, "reversed", list(reversed(pd_natural))),
                                         ("enum_reverse", 1, "none", 0, "natural", pd_natural),
                                         ("enum_sorted", 1, "none", 0, "natural", pd_natural)] + \
            ([] if quick else [("w3_random_seed5_shuffled", 3, "random", 5, "shuffled", rng.sample(pd_natural, len(pd_natural))),
                               ("seed4", 1, "none", 4, "natural", pd_natural)]):
        cfgs.append({"name": f"pd_{name}", "project": "pd", "files": pd_files, "order": order, "w": w, "delay_kind": dk,
                     "delays": delay_schedule(rng, dk, list(pd_py), 0.04), "seed": seed, "order_kind": ok,
                     "role": "base" if name == "base" else "perturbed", "codemods": PD_CODEMODS,
                     "enum": name[len("enum_"):] if name.startswith("enum_") else "natural"})
    # in-flight witness project: many files, small bound, every task sleeps
    wproj = gen_project(rng, wit["n_files"], broken=False)
    projects["wit"] = wproj
    wfiles = dict(wproj["py"])
    for w in ([wit["w"]] if quick else [wit["w"], 1, 3]):
        cfgs.append({"name": f"wit_w{w}", "project": "wit", "files": wfiles, "order": list(wfiles), "w": w, "delay_kind": "uniform",
                     "delays": {p: wit["delay"] for p in wfiles}, "seed": 0, "order_kind": "natural",
                     "role": "base" if w == wit["w"] else "perturbed"})
    for e in ("reverse", "sorted"):
        cfgs.append({"name": f"wit_enum_{e}", "project": "wit", "files": wfiles, "order": list(wfiles), "w": wit["w"], "delay_kind": "uniform",
                     "delays": {p: wit["delay"] for p in wfiles}, "seed": 0, "order_kind": "natural", "enum": e, "role": "perturbed"})
    if not quick:
        cfgs.append({"name": "wit_default", "project": "wit", "files": wfiles, "order": list(wfiles), "w": None, "delay_kind": "uniform",
                     "delays": {p: wit["delay"] for p in wfiles}, "seed": 0, "order_kind": "natural", "role": "perturbed"})
    # SAST mode: default selection, no --codemod-include
    if not quick:
        sast_seeds = sorted(set(sast_seeds + [5, 6, 7, 8, 9]))
    cfgs += sast_configs(ctx, "p0", projects["p0"], sast_seeds, with_issues=False)
    sfiles, scfgs = sast_issue_configs(ctx, projects["p0"], quick)
    projects["ps"] = {"py": sfiles, "other": {}, "kinds": {}}
    projects["pso"] = {"py": sfiles, "other": {}, "kinds": {}}
    cfgs += scfgs

    with concurrent.futures.ThreadPoolExecutor(max_workers=min(12, core.NCPU)) as ex:
        results = list(ex.map(lambda c: do_run(ctx, c), cfgs))
    ctx.cli_runs += len(results)
    by_name = {r["cfg"]["name"]: r for r in results}

    for r in results:
        if r["rc"] != 0 or r["report"] is None:
            ctx.mismatch("real CLI run", f"run {r['cfg']['name']} exited {r['rc']} or wrote no report: {r['stderr_tail'][-300:]}",
                         replay_payload(r["cfg"], rc=r["rc"]))
    results = [r for r in results if r["rc"] == 0 and r["report"] is not None]

    observed_classes = set()

    def violation(cls, what, payload):
        observed_classes.add(cls)
        ctx.violation(cls, what, payload)

    # ---- 1. constancy over w, schedules, hash seeds, creation orders, enumeration orders ------------------------------------
    enum_orders = {}
    for tag in projects:
        base = next((r for r in results if r["cfg"]["project"] == tag and r["cfg"]["role"] == "base"), None)
        if base is None:
            continue
        ref = (norm_report(base["report"]), base["tree"])
        failing = []
        seen_enums = set()
        for r in results:
            c = r["cfg"]
            if c["project"] != tag or c["role"] not in ("perturbed", "base"):
                continue
            ctx.count(f"w:{c['w']}")
            ctx.count(f"delays:{c['delay_kind']}")
            ctx.count(f"seed:{c['seed']}")
            ctx.count(f"creation_order:{c['order_kind']}")
            ctx.count(f"enumeration_mode:{c.get('enum') or 'natural'}")
            en = next((tuple(e["files"]) for e in r["events"] if e["ev"] == "enum"), None)
            if en is not None:
                seen_enums.add(en)
            obs = (norm_report(r["report"]), r["tree"])
            if obs != ref:
                dims = [d for d, on in (("hashseed", c["seed"] != base["cfg"]["seed"]), ("creation_order", c["order_kind"] != "natural"),
                                        ("enumeration_order", (c.get("enum") or "natural") != (base["cfg"].get("enum") or "natural")),
                                        ("schedule", c["w"] != base["cfg"]["w"] or c["delay_kind"] != base["cfg"]["delay_kind"])) if on]
                failing.append((r, obs, dims))
        # the enumeration order must really have varied, or the independence from it was not exercised
        ctx.count(f"distinct_enumeration_orders:{tag}", len(seen_enums))
        enum_orders[tag] = len(seen_enums)
        if len(seen_enums) < 2:
            ctx.mismatch("enumeration not varied", f"project {tag}: the runs saw {len(seen_enums)} distinct directory enumeration order(s); "
                         "independence from the enumeration order was not exercised", replay_payload(base["cfg"]))
        pure = {d[0] for _, _, d in failing if len(d) == 1}
        for r, obs, dims in sorted(failing, key=lambda x: len(x[2])):
            c = r["cfg"]
            dim = dims[0] if len(dims) == 1 else next((d for d in dims if d in pure), "configuration")
            text = {"hashseed": f"PYTHONHASHSEED={c['seed']}", "creation_order": f"file creation order {c['order_kind']}",
                    "enumeration_order": f"directory enumeration order {c.get('enum')}",
                    "schedule": f"--max-workers {c['w']} with {c['delay_kind']} delays",
                    "configuration": f"--max-workers {c['w']}, {c['delay_kind']} delays, seed {c['seed']}, creation order {c['order_kind']}, "
                                     f"enumeration {c.get('enum')}"}[dim]
            what_differs = "report" if obs[0] != ref[0] else "files on disk"
            if obs[0] != ref[0] and obs[1] != ref[1]:
                what_differs = "report and files on disk"
            a = {x["codemod"]: [cs["path"] for cs in x["changeset"]] for x in base["report"]["results"] if x["changeset"]}
            b = {x["codemod"]: [cs["path"] for cs in x["changeset"]] for x in r["report"]["results"] if x["changeset"]}
            violation("kf_result_depends_on_" + dim,
                      f"{what_differs} differ between the base run (w={base['cfg']['w']}, seed {base['cfg']['seed']}, no delays) and "
                      f"{text} (run {c['name']}): changeset paths per codemod {a} vs {b}",
                      replay_payload(c, expected_report_sha=hashlib.sha1((ref[0] or '').encode()).hexdigest(),
                                     observed_report_sha=hashlib.sha1((obs[0] or '').encode()).hexdigest(),
                                     expected_tree=ref[1], observed_tree=obs[1], base_config=describe(base["cfg"])))

    pd_base = next((r for r in results if r["cfg"]["name"] == "pd_base"), None)
    if pd_base is not None:
        per = {x["codemod"]: x for x in pd_base["report"]["results"]}
        n_sem = len(per.get(PD_CODEMODS[0], {}).get("changeset", []))
        dep = [cs["path"] for cs in per.get(PD_CODEMODS[1], {}).get("changeset", [])]
        ctx.count("pd_semgrep_detected_changesets", n_sem)
        ctx.count("pd_dependency_manifest_written", int("requirements.txt" in dep))
        if n_sem == 0 or "requirements.txt" not in dep:
            ctx.mismatch("generator coverage", f"the semgrep-detected codemod changed {n_sem} files and the dependency-adding codemod wrote "
                         f"{dep}: the delayed runs no longer exercise a semgrep-detected and a dependency-adding codemod",
                         replay_payload(pd_base["cfg"]))
    elif any(c["project"] == "pd" for c in cfgs):
        ctx.mismatch("generator coverage", "the base run of the semgrep/dependency project failed", {})

    # ---- 2. in-flight bound -------------------------------------------------------------------------------------------
    pool_cases, pool_meta = [], []
    for r in sorted(results, key=lambda r: r["cfg"]["project"] != "wit"):   # the corpus witness first
        c = r["cfg"]
        if c["role"] == "only":
            continue
        w = c["w"] if c["w"] is not None else int(tables.get("max_workers_default", 1))
        for cid, d in per_codemod(r).items():
            if not d["pool"]:
                continue
            ctx.count("max_inflight:%d" % d["maxin"])
            index = {f: i for i, f in enumerate(d["submit"])}
            if d["maxin"] > w:
                violation("kf_inflight_exceeds_max_workers",
                          f"{d['maxin']} files were processed at the same time with --max-workers {w} "
                          f"({len(d['submit'])} files, codemod {cid}, executor bound {d['bound']})",
                          replay_payload(c, max_inflight=d["maxin"], max_workers=w, codemod=cid, expected="max in-flight <= %d" % w))
            if any(f not in index for _, f in d["pool"]) or d["bound"] is None:
                ctx.mismatch("pool instrumentation", f"run {c['name']}: a processed file was never submitted to the pool", replay_payload(c))
                continue
            pool_cases.append(cpair(cN(w), cN(d["cpu"] or 1), cN(d["bound"]), c_pool_trace(d["pevents"], index)))
            pool_meta.append((r, cid, d))
    if pool_cases:
        bad = core.eval_bad_indices(ctx, "c11_pool", IMPORTS, "pool_case", pool_cases, ["pool_model_ok", "pool_spec_ok"])
        for i in bad["pool_model_ok"]:
            r, cid, d = pool_meta[i]
            ctx.mismatch("ThreadPoolExecutor(...) in _apply vs Model.Sched.pool_bound/pool_run",
                         f"run {r['cfg']['name']} codemod {cid}: executor bound {d['bound']} (cpu {d['cpu']}, {len(d['threads'])} threads) or its "
                         f"submit/spawn/take/done trace is not an execution of the worker model for pool_size_arg={tables.get('pool_size_arg')}",
                         replay_payload(r["cfg"], bound=d["bound"], trace=d["pool"]))
        for i in bad["pool_spec_ok"]:
            r, cid, d = pool_meta[i]
            if d["maxin"] <= (r["cfg"]["w"] or 1):
                ctx.mismatch("in-flight counter vs Model.Sched.peak", f"run {r['cfg']['name']}: the logged counter and the trace disagree",
                             replay_payload(r["cfg"], trace=d["pool"]))

    # ---- 3. every observed schedule replayed in the model --------------------------------------------------------------
    sched_cases, sched_meta, order_cases, order_meta = [], [], [], []
    for tag, proj in projects.items():
        onlys = {r["cfg"]["only"]: r for r in results if r["cfg"]["project"] == tag and r["cfg"]["role"] == "only"}
        if not onlys:
            continue
        ids = Ids()
        # oracle table per codemod, measured on {f}
        oracle = {cid: [] for cid in CODEMODS}
        for f, r in onlys.items():
            pc = per_codemod(r)
            for cid in CODEMODS:
                d = pc.get(cid)
                if not d or f not in d["before"]:
                    continue
                rep = report_of(r, cid) or {"changeset": [], "failedFiles": []}
                changed = any(cs["path"] == f for cs in rep["changeset"])
                failed = any(x.endswith(f) for x in rep["failedFiles"])
                before, after = d["before"][f], d["after"].get(f)
                oracle[cid].append(cpair(cpair(cstr(f), ids(before)), cpair(copt(ids(after) if after != before else None, "str"),
                                                                          cpair(cbool(changed), cbool(failed)))))
        for r in results:
            c = r["cfg"]
            if c["project"] != tag or c["role"] not in ("base", "perturbed"):
                continue
            pc = per_codemod(r)
            fs = {p: sha_text(t) for p, t in c["files"].items()}
            enum = next((e["files"] for e in r["events"] if e["ev"] == "enum"), None)
            for k, cid in enumerate(CODEMODS):
                d = pc.get(cid)
                if not d or not d["submit"]:
                    continue
                index = {f: i for i, f in enumerate(d["submit"])}
                fs1 = dict(fs)
                fs1.update({f: s for f, s in d["after"].items() if s is not None})
                rep = report_of(r, cid) or {"changeset": [], "failedFiles": []}
                case = ("{| sc_files := %s; sc_fs0 := %s; sc_oracle := %s; sc_trace := %s; sc_fs1 := %s; sc_changed := %s; sc_failed := %s; "
                        "sc_reads := %s; sc_afters := %s |}"
                        % (clist([cstr(f) for f in d["submit"]], "str"),
                           clist([cpair(cstr(p), ids(s)) for p, s in sorted(fs.items())], "str * str"),
                           clist(oracle[cid], "(str * str) * (option str * (bool * bool))"),
                           c_ev_trace(d["pool"], index),
                           clist([cpair(cstr(p), ids(s)) for p, s in sorted(fs1.items())], "str * str"),
                           clist([cstr(cs["path"]) for cs in rep["changeset"]], "str"),
                           clist([cstr(x.replace("<ROOT>/", "")) for x in rep["failedFiles"]], "str"),
                           clist([cpair(str(index[f]), copt(ids(sha) if sha else None, "str")) for f, sha in d["before"].items()],
                                 "nat * option str"),
                           clist([cpair(str(index[f]), copt(ids(sha) if sha else None, "str")) for f, sha in d["after"].items()],
                                 "nat * option str")))
                sched_cases.append(case)
                sched_meta.append((r, cid, d))
                finish_order = [f for kk, f in d["pool"] if kk == "F"]
                out_of_order = finish_order != d["submit"]
                ctx.count("completion_order:" + ("differs_from_input" if out_of_order else "same_as_input"))
                ctx.case({"run": c["name"], "codemod": cid, "input_order": d["submit"], "completion_order": finish_order},
                         nontrivial_key=(tag, cid, tuple(d["pool"]), c["seed"], c["order_kind"]) if (
                             out_of_order or c["seed"] != 0 or c["order_kind"] != "natural") else None,
                         sample=out_of_order)
                if k == 0 and enum is not None:
                    matched = [f for f in enum if f in set(d["submit"])]
                    order_cases.append(cpair(clist([cstr(f) for f in matched], "str"), clist([cstr(f) for f in d["submit"]], "str")))
                    order_meta.append((r, matched, d["submit"]))
                    ctx.count("enumeration:" + ("sorted" if matched == sorted(matched) else "unsorted"))
                fs = fs1
            if r["tree"] != fs:
                ctx.mismatch("instrumentation log vs tree", f"run {c['name']}: contents logged by the wrapper do not add up to the final tree",
                             replay_payload(c))
    if sched_cases:
        bad = core.eval_bad_indices(ctx, "c11_sched", IMPORTS, "sched_case", sched_cases,
                                    ["sched_trace_ok", "sched_model_ok", "sched_points_ok", "sched_spec_ok"], chunk=60)
        for i in bad["sched_points_ok"]:
            r, cid, d = sched_meta[i]
            ctx.mismatch("task locality: contents seen by the tasks vs Model.Sched.exec_states on the observed schedule",
                         f"run {r['cfg']['name']} codemod {cid}: when a task started or returned, its file did not hold what the model's file "
                         f"system holds at that point of the observed schedule (another task touched it, or it was rewritten before being read)",
                         replay_payload(r["cfg"], trace=d["pool"], submitted=d["submit"], before=d["before"], after=d["after"]))
        for i in bad["sched_trace_ok"]:
            r, cid, d = sched_meta[i]
            ctx.mismatch("observed schedule vs Model.Sched.interleaving", f"run {r['cfg']['name']} codemod {cid}: the logged events are not an "
                         "interleaving of per-file tasks over distinct files (a file processed twice or not at all)",
                         replay_payload(r["cfg"], trace=d["pool"], submitted=d["submit"]))
        for i in bad["sched_model_ok"]:
            r, cid, d = sched_meta[i]
            ctx.mismatch("BaseCodemod._apply/_process_file/process_results vs Model.Sched.exec/merged",
                         f"run {r['cfg']['name']} codemod {cid}: model on the observed schedule differs from the observed files/report order",
                         replay_payload(r["cfg"], trace=d["pool"], submitted=d["submit"], merge=d["merge"]))
        for i in bad["sched_spec_ok"]:
            r, cid, d = sched_meta[i]
            rep = report_of(r, cid) or {"changeset": []}
            violation("kf_result_depends_on_schedule",
                      f"codemod {cid} under --max-workers {r['cfg']['w']} ({r['cfg']['delay_kind']} delays, seed {r['cfg']['seed']}): files or report "
                      f"order are not the per-file outcomes in input order; input {d['submit']}, reported {[cs['path'] for cs in rep['changeset']]}",
                      replay_payload(r["cfg"], trace=d["pool"], submitted=d["submit"], expected="per-file outcomes merged in input order"))
    for r in results:
        c = r["cfg"]
        if c["project"] not in ("ps", "pso"):
            continue
        d = per_codemod(r).get(SAST_CODEMOD)
        enum = next((e["files"] for e in r["events"] if e["ev"] == "enum"), None)
        if not d or not d["submit"] or enum is None:
            ctx.mismatch("generator coverage", f"run {c['name']}: the SAST-driven codemod {SAST_CODEMOD} processed no file", replay_payload(c))
            continue
        ctx.count("sast_driven_files:%d" % len(d["submit"]))
        matched = [f for f in enum if f in set(d["submit"])]
        order_cases.append(cpair(clist([cstr(f) for f in matched], "str"), clist([cstr(f) for f in d["submit"]], "str")))
        order_meta.append((r, matched, d["submit"]))
        ctx.case({"run": c["name"], "sast_task_order": d["submit"], "enumeration": matched},
                 nontrivial_key=("sast-order", c["project"], tuple(matched)), sample=(c.get("enum") == "reverse"))
    if order_cases:
        bad = core.eval_bad_indices(ctx, "c11_order", IMPORTS, "order_case", order_cases, ["order_model_ok"])
        for i in bad["order_model_ok"]:
            r, matched, sub = order_meta[i]
            ctx.mismatch("code_directory.match_files vs Model.Sched.match_order",
                         f"run {r['cfg']['name']}: enumeration {matched} gave task order {sub}", replay_payload(r["cfg"]))
    # SPEC for the task order: the same in every run of the project (whatever that order is)
    by_proj = {}
    for r, matched, sub in order_meta:
        by_proj.setdefault(r["cfg"]["project"], []).append((r, matched, sub))
    const_cases, const_meta = [], []
    for tag, lst in by_proj.items():
        const_cases.append(clist([clist([cstr(f) for f in sub], "str") for _, _, sub in lst], "list str"))
        const_meta.append(lst)
    if const_cases:
        bad = core.eval_bad_indices(ctx, "c11_order_const", IMPORTS, "const_case", const_cases, ["const_spec_ok"], chunk=10)
        for i in bad["const_spec_ok"]:
            lst = const_meta[i]
            r0, m0, s0 = lst[0]
            r1, m1, s1 = next(x for x in lst if x[2] != s0)
            violation("kf_task_order_depends_on_enumeration",
                      f"the order in which the files are processed differs between two runs of the same project: {s0} (run {r0['cfg']['name']}, "
                      f"seed {r0['cfg']['seed']}, creation order {r0['cfg']['order_kind']}, enumeration {m0}) vs {s1} (run {r1['cfg']['name']}, "
                      f"seed {r1['cfg']['seed']}, creation order {r1['cfg']['order_kind']}, enumeration {m1})",
                      replay_payload(r1["cfg"], expected=s0, observed=s1, base_config=describe(r0["cfg"])))

    # ---- 4. sibling independence ---------------------------------------------------------------------------------------
    for tag in projects:
        base = next((r for r in results if r["cfg"]["project"] == tag and r["cfg"]["role"] == "base"), None)
        for r in results:
            c = r["cfg"]
            if c["project"] != tag or c["role"] != "only" or base is None:
                continue
            f = c["only"]
            ctx.count("sibling_runs")

            def restrict(res):
                out = []
                for x in res["report"]["results"]:
                    out.append((x["codemod"], [cs for cs in x["changeset"] if cs["path"] == f],
                                [y for y in x["failedFiles"] if y.endswith(f)]))
                return json.dumps(out, sort_keys=True)
            a, b = (restrict(base), base["tree"].get(f)), (restrict(r), r["tree"].get(f))
            ctx.case({"sibling": f, "project": tag}, nontrivial_key=("only", tag, f, a[1]))
            if a != b:
                violation("kf_sibling_dependence", f"outcome on {f} in the project ({len(base['cfg']['files'])} files) differs from the "
                          f"outcome in the project that contains only {f}", replay_payload(base["cfg"], only=f, in_project=a, alone=b))

    # ---- 5. SAST mode: default selection order over hash seeds ---------------------------------------------------------
    reg_cases, reg_meta = [], []
    noted = set()
    from codemodder.registry import DEFAULT_EXCLUDED_CODEMODS
    for with_issues in (False, True):
        runs = [r for r in results if r["cfg"].get("sast") and r["cfg"].get("with_issues") == with_issues
                and (r["cfg"]["role"] == "sast" or r["cfg"]["project"] == "ps")]
        if not runs:
            continue
        ref = runs[0]
        for r in runs:
            ctx.count("sast_seed:%s" % r["cfg"]["seed"])
            reported = [x["codemod"] for x in r["report"]["results"]]
            if reported and not r["running"]:
                ctx.mismatch("execution order instrumentation", f"run {r['cfg']['name']}: the report has {len(reported)} results but the "
                             "wrapper around BaseCodemod._apply saw no codemod run", replay_payload(r["cfg"]))
                continue
            if r["running_log"] != r["running"]:
                # log wording is not behaviour: never a verdict
                ctx.count("log_text_differs_from_instrumented_order")
                if "log_text" not in noted:
                    noted.add("log_text")
                    ctx.notes.append(f"`running codemod` log lines ({len(r['running_log'])}) do not list the instrumented execution order "
                                     f"({len(r['running'])} codemods); the instrumented order is used")
            if r["running"] != reported:
                violation("kf_report_order_differs_from_run_order", f"seed {r['cfg']['seed']}: codemods ran as {r['running'][:4]}... but "
                          f"are reported as {reported[:4]}...", replay_payload(r["cfg"], ran=r["running"], reported=reported))
            if r["running"] != ref["running"]:
                first = next(i for i, (x, y) in enumerate(zip(r["running"] + [None], ref["running"] + [None])) if x != y)
                violation("kf_registry_order_depends_on_hashseed",
                          f"SAST-mode selection order differs between PYTHONHASHSEED={ref['cfg']['seed']} and {r['cfg']['seed']}: "
                          f"position {first}: {ref['running'][first:first + 1]} vs {r['running'][first:first + 1]}",
                          replay_payload(r["cfg"], expected_order=ref["running"], observed_order=r["running"], base_seed=ref["cfg"]["seed"]))
            elif not with_issues and (norm_report(r["report"]) != norm_report(ref["report"]) or r["tree"] != ref["tree"]):
                violation("kf_result_depends_on_hashseed", f"SAST-mode report or files differ between PYTHONHASHSEED={ref['cfg']['seed']} "
                          f"and {r['cfg']['seed']}", replay_payload(r["cfg"], base_seed=ref["cfg"]["seed"]))
            eps = next((e["eps"] for e in r["events"] if e["ev"] == "eps"), None)
            if eps is None:
                continue
            names = {}
            term = clist([cpair(cN(names.setdefault(n, len(names))),
                                clist([cpair(cstr(i), cbool(o == "pixee")) for i, o in rows], "str * bool")) for n, rows in eps],
                         "entry_point")
            reg_cases.append(cpair(term, clist([cstr(x) for x in DEFAULT_EXCLUDED_CODEMODS], "str"), "true",
                                   clist([cstr(x) for x in r["running"]], "str")))
            reg_meta.append(r)
            changed = sum(len(x["changeset"]) for x in r["report"]["results"])
            ctx.count("sast_changesets:%s" % ("some" if changed else "none"))
            ctx.case({"sast_seed": r["cfg"]["seed"], "selection_head": r["running"][:3], "n": len(r["running"])},
                     nontrivial_key=("sast", with_issues, r["cfg"]["seed"]), sample=(r["cfg"]["seed"] == 1))
    if reg_cases:
        bad = core.eval_bad_indices(ctx, "c11_reg", IMPORTS, "reg_case", reg_cases, ["reg_model_ok"], chunk=8)
        for i in bad["reg_model_ok"]:
            r = reg_meta[i]
            ctx.mismatch("registry.load_registered_codemods/match_codemods vs Model.Sched.run_order",
                         f"seed {r['cfg']['seed']}: observed selection order is not the model's for entry_point_iteration="
                         f"{tables.get('entry_point_iteration')}", replay_payload(r["cfg"], observed_order=r["running"]))

    # ---- 6. active branches of the table-indexed theorems -------------------------------------------------------------------
    negative = {
        "pool_size_arg": ("None", "kf_inflight_exceeds_max_workers", "C11_inflight"),
        "entry_point_iteration": ("OverSet", "kf_registry_order_depends_on_hashseed", "C11_registry_order"),
        "sched_collect": ("CompletionOrder", "kf_result_depends_on_schedule", "C11_merge_in_input_order"),
        "sched_paths_order": ("SetOrder", "kf_task_order_depends_on_enumeration", "C11_enumeration_free"),
    }
    for tbl, (neg, cls, thm) in negative.items():
        if str(tables.get(tbl)) == neg:
            ctx.notes.append(f"{thm}: active branch is the REFUTED one ({tbl} = {neg})")
            if cls not in observed_classes and not (cls == "kf_task_order_depends_on_enumeration" and
                                                    observed_classes & {"kf_result_depends_on_hashseed", "kf_result_depends_on_creation_order"}):
                ctx.tie_broken.append(f"proof: {thm} holds only in its refuted form ({tbl} = {neg}) but no run of this check reproduced the witness")
    ctx.notes.append("distinct directory enumeration orders observed per project: " +
                     ", ".join(f"{k}={v}" for k, v in sorted(enum_orders.items())))
    ctx.notes.append("wall of the CLI runs: max %.1fs, sum %.1fs" % (max(r["wall"] for r in results), sum(r["wall"] for r in results)))


# ------------------------------------------------------------------------------------------------------------------
def replay(ctx, body):
    """Re-run the recorded configuration and the base configuration of the same project; print both observables."""
    files = {k: v.decode() for k, v in core.unb64tree(body["project"]).items()}
    conf = body["config"]
    delays = body["env"]["C11_DELAYS"]
    w = conf.get("w")
    cfg = {"name": "replay", "files": files, "order": body["creation_order"], "w": w, "delays": delays, "seed": int(body["env"]["PYTHONHASHSEED"]),
           "sast": conf.get("sast"), "issues": body.get("issues"), "codemods": body.get("codemods"),
           "enum": body["env"].get("C11_ENUM", "natural"), "argv_extra": body.get("argv_extra") or []}
    base = dict(cfg, name="replay_base", order=list(files), w=1, delays={}, seed=int(body.get("base_seed", 0)), enum="natural")
    a, b = do_run(ctx, cfg), do_run(ctx, base)
    for tag, r in (("recorded configuration", a), ("base configuration", b)):
        pcs = per_codemod(r)
        print(f"{tag}: rc={r['rc']} max in-flight={max([d['maxin'] for d in pcs.values()] or [0])} (--max-workers {r['cfg']['w']}) "
              f"selection={r['running'][:3]}... report sha={hashlib.sha1((norm_report(r['report']) or '').encode()).hexdigest()[:12]} "
              f"tree sha={hashlib.sha1(json.dumps(r['tree'], sort_keys=True).encode()).hexdigest()[:12]}")
    same = norm_report(a["report"]) == norm_report(b["report"]) and a["tree"] == b["tree"] and a["running"] == b["running"]
    inflight_ok = all(d["maxin"] <= (w or 1) for d in per_codemod(a).values())
    print("same observable:", same, "| in-flight <= max-workers:", inflight_ok)
    print("recorded:", body.get("what"))
    return 0 if (same and inflight_ok) else 1
