#!/usr/bin/env python3
"""Run the repository's pinned baseline (guard OFF) and compare with /root/.vp/BASELINE.json.

Exit 0 iff every test listed in stable_pass passes.  Usage: baseline.py [repo_dir]
"""
import json, os, subprocess, sys, tempfile
import xml.etree.ElementTree as ET

def main():
    repo = sys.argv[1] if len(sys.argv) > 1 else "/repo"
    base = json.load(open("/root/.vp/BASELINE.json"))
    want = set(base["stable_pass"])
    fd, junit = tempfile.mkstemp(prefix="verif-baseline-", suffix=".xml", dir="/var/tmp")
    os.close(fd)
    env = dict(os.environ)
    for k in list(env):
        if k.startswith("CODEMODDER_VERIF"):
            del env[k]
    # the venv has an editable install pointing at /repo/src: make sure the tree under test is the one imported
    env["PYTHONPATH"] = os.path.join(os.path.abspath(repo), "src")
    # worktrees lack the setuptools_scm-generated (gitignored) _version.py that tests/test_version.py needs
    vfile = os.path.join(os.path.abspath(repo), "src", "codemodder", "_version.py")
    if not os.path.exists(vfile) and os.path.exists("/repo/src/codemodder/_version.py"):
        import shutil
        shutil.copy("/repo/src/codemodder/_version.py", vfile)
    cmd = ["/venv/bin/python", "-m", "pytest", "-ra", "-q", "-p", "no:cacheprovider", "--timeout=900",
           "--continue-on-collection-errors", f"--junitxml={junit}"]
    p = subprocess.run(cmd, cwd=repo, env=env, stdout=subprocess.PIPE, stderr=subprocess.STDOUT, text=True)
    passed = set()
    try:
        for tc in ET.parse(junit).getroot().iter("testcase"):
            bad = any(ch.tag in ("failure", "error", "skipped") for ch in tc)
            if not bad:
                passed.add(f"{tc.get('classname')}::{tc.get('name')}")
    finally:
        os.unlink(junit)
    missing = sorted(want - passed)
    print(f"baseline: {len(want & passed)}/{len(want)} stable tests pass; {len(passed)} passed in total")
    for m in missing[:40]:
        print("  NOT PASSING:", m)
    if missing:
        print(p.stdout[-3000:])
    return 1 if missing else 0

if __name__ == "__main__":
    sys.exit(main())
