(** JSON documents as the result-file readers see them (after json.load). *)
From CM Require Export Base.Str Base.Dict.

Inductive json :=
| JNull | JBool (b : bool) | JNum (z : Z) | JStr (s : str)
| JArr (l : list json) | JObj (l : list (str * json)).

(** dict lookup; json.load keeps the LAST binding of a duplicated key *)
Definition jget (k : str) (j : json) : option json :=
  match j with JObj l => dget str_eqb k (rev l) | _ => None end.

(** Python truthiness of a loaded JSON value *)
Definition jtruthy (j : json) : bool :=
  match j with
  | JNull => false | JBool b => b | JNum z => negb (Z.eqb z 0)
  | JStr s => match s with [] => false | _ => true end
  | JArr l => match l with [] => false | _ => true end
  | JObj l => match l with [] => false | _ => true end
  end.

Definition jstr (j : json) : option str := match j with JStr s => Some s | _ => None end.
Definition jnum (j : json) : option Z := match j with JNum z => Some z | _ => None end.
Definition jarr (j : json) : option (list json) := match j with JArr l => Some l | _ => None end.

(** str.lower on ASCII; str.split(sep)[-1] and [1] for a one-character separator *)
Definition lower_ascii (s : str) : str :=
  map (fun c => if (N.leb 65 c && N.leb c 90)%bool then (c + 32)%N else c) s.

Fixpoint split_on (sep : N) (s : str) (cur : str) : list str :=
  match s with
  | [] => [rev cur]
  | c :: r => if N.eqb c sep then rev cur :: split_on sep r [] else split_on sep r (c :: cur)
  end.
Definition split_sep (sep : N) (s : str) : list str := split_on sep s [].
Definition last_part (sep : N) (s : str) : str := last (split_sep sep s) [].

Definition is_some {A} (o : option A) : bool := match o with Some _ => true | None => false end.

Fixpoint mapM {A B} (f : A -> option B) (l : list A) : option (list B) :=
  match l with
  | [] => Some []
  | x :: r => match f x with
              | Some y => match mapM f r with Some ys => Some (y :: ys) | None => None end
              | None => None
              end
  end.
