(** The model reads a [run_tables] value only through [has_guard g (guards_of tb k)] and [writer_guarded tb k]:
    two table values that agree on those give the same run.  Used to close table-generic witnesses by enumerating the
    (finitely many) guard combinations with vm_compute. *)
From CM Require Import Base.Dict Model.Run.

Definition tables_agree (a b : run_tables) : Prop :=
  (forall g k, has_guard g (guards_of a k) = has_guard g (guards_of b k)) /\
  (forall k, writer_guarded a k = writer_guarded b k) /\
  t_diff a = t_diff b.

Section Agree.
  Variables a b : run_tables.
  Hypothesis Hab : tables_agree a b.
  Variable tree : Type.
  Variable parse : pipe_kind -> bytes -> option tree.
  Variable code : pipe_kind -> tree -> bytes.
  Variable T : codemod -> tree -> option (list finding) -> outcome tree.
  Variable S : codemod -> path -> bytes -> list finding.
  Variable R : codemod -> list (path * list finding).
  Variable diff : bytes -> bytes -> str.
  Variable W : skind -> option bytes -> list dep -> option (bytes * str * list change).
  Variable fsel : codemod -> path -> bool.
  Variable cfg : config.

  Lemma papply_agree K p c fi :
    pipeline_apply a tree parse code T diff cfg K p c fi = pipeline_apply b tree parse code T diff cfg K p c fi.
  Proof. destruct Hab as [H [_ Hd]]. unfold pipeline_apply, diff_base. cbv zeta. now rewrite !H, Hd. Qed.
  Lemma fstep_agree K res p c :
    file_step a tree parse code T diff cfg K res p c = file_step b tree parse code T diff cfg K res p c.
  Proof. unfold file_step. now rewrite papply_agree. Qed.
  Lemma mfiles_agree K res files : forall fs,
    map_files a tree parse code T diff cfg K res fs files = map_files b tree parse code T diff cfg K res fs files.
  Proof.
    induction files as [|p rest IH]; intros fs; simpl; [reflexivity|].
    unfold process_file. rewrite fstep_agree. now rewrite IH.
  Qed.
  Lemma acodemod_agree pre K s :
    apply_codemod a tree parse code T S R diff fsel cfg pre K s = apply_codemod b tree parse code T S R diff fsel cfg pre K s.
  Proof.
    unfold apply_codemod. destruct (negb (cavail K)); [reflexivity|]. destruct (_ && _ && _); [reflexivity|].
    destruct (detect S R cfg K pre (s_fs s)) as [[|x r]|]; [reflexivity| |];
      (destruct (files_to_analyze fsel cfg K _); [reflexivity|]; cbv zeta; now rewrite mfiles_agree).
  Qed.
  Lemma tstores_agree ds stores : forall fs, try_stores a W cfg ds fs stores = try_stores b W cfg ds fs stores.
  Proof.
    destruct Hab as [_ [H _]]. induction stores as [|st rest IH]; intros fs; simpl; [reflexivity|]. now rewrite IH, H.
  Qed.
  Lemma pdeps_agree id s : process_dependencies a W cfg id s = process_dependencies b W cfg id s.
  Proof.
    unfold process_dependencies. destruct (dgetl id (s_deps s)); [reflexivity|].
    destruct (s_stores s); [reflexivity|]. now rewrite tstores_agree.
  Qed.
  Lemma acodemods_agree pre Ks : forall s,
    apply_codemods a tree parse code T S R diff W fsel cfg pre Ks s = apply_codemods b tree parse code T S R diff W fsel cfg pre Ks s.
  Proof.
    induction Ks as [|K rest IH]; intros s; simpl; [reflexivity|]. rewrite acodemod_agree.
    destruct (apply_codemod b tree parse code T S R diff fsel cfg pre K s); [|reflexivity]. now rewrite pdeps_agree, IH.
  Qed.
  Lemma run_agree Ks fs stores :
    run a tree parse code T S R diff W fsel cfg Ks fs stores = run b tree parse code T S R diff W fsel cfg Ks fs stores.
  Proof. unfold run. now rewrite acodemods_agree. Qed.
End Agree.

(** canonical table with the same libcst guards as [tb] (the other components kept) *)
Definition all_guards : list guard := [TryParse; TryTransform; IfNoChanges; IfNoDiff; IfNotDryWrite].
Definition canon_libcst (tb : run_tables) : run_tables :=
  {| t_libcst := List.filter (fun g => has_guard g (t_libcst tb)) all_guards;
     t_regex := t_regex tb; t_xml := t_xml tb; t_writers := t_writers tb; t_diff := t_diff tb |}.
Lemma canon_libcst_agree tb : tables_agree tb (canon_libcst tb).
Proof.
  split; [|split; reflexivity]. intros g k. destruct k; try reflexivity. simpl.
  destruct g; simpl;
    destruct (has_guard TryParse (t_libcst tb)), (has_guard TryTransform (t_libcst tb)), (has_guard IfNoChanges (t_libcst tb)),
             (has_guard IfNoDiff (t_libcst tb)), (has_guard IfNotDryWrite (t_libcst tb)); reflexivity.
Qed.
