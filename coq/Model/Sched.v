(** Model of the per-file scheduling of one codemod (base_codemod._apply / _process_file, context.process_results),
    of the bounded thread pool, of the order in which codemod collections are registered
    (registry.load_registered_codemods / match_codemods, default branch) and of the order of the matched paths
    (code_directory.match_files).  Definitions only. *)
From CM Require Export Base.Dict Base.Types_Sched.

(* ------------------------------------------------------------------------------------------------ *)
(** * File system, per-file results *)
Definition path := str.
Definition content := str.
Definition fsys := dict path content.
Definition lookup (fs : fsys) (p : path) : option content := dget str_eqb p fs.
Definition write (fs : fsys) (p : path) (c : content) : fsys := dset str_eqb p c fs.

(** What a FileContext carries back to the run context (timing erased). *)
Record fres := { r_changesets : list str; r_failures : list str; r_deps : list str; r_unfixed : list str }.
Definition fres_empty : fres := {| r_changesets := []; r_failures := []; r_deps := []; r_unfixed := [] |}.

(** set.update on an insertion-ordered representation *)
Definition set_union (a b : list str) : list str :=
  fold_left (fun acc d => if mem_str d acc then acc else acc ++ [d]) b a.

(** context.process_results, one FileContext: add_changesets / add_failures / add_dependencies / add_unfixed_findings *)
Definition fres_add (a r : fres) : fres :=
  {| r_changesets := r_changesets a ++ r_changesets r;
     r_failures := r_failures a ++ r_failures r;
     r_deps := set_union (r_deps a) (r_deps r);
     r_unfixed := r_unfixed a ++ r_unfixed r |}.

(** Oracles.  The detector runs ONCE, on the project as it is before the pool starts (self.detector.apply);
    the transformer pipeline of a file sees the file's path, its findings and the text READ from the file
    ([None]: the file cannot be read/decoded/parsed).  Its answer: the new text if it rewrites, and the FileContext. *)
Definition findings := list N.
Definition outcome := (option content * fres)%type.
Definition detector := fsys -> path -> findings.
Definition transformer := path -> findings -> option content -> outcome.

(* ------------------------------------------------------------------------------------------------ *)
(** * Tasks, events, schedules *)
Inductive ev := Read (i : nat) | Compute (i : nat) | Write (i : nat).
Definition ev_task (e : ev) : nat := match e with Read i | Compute i | Write i => i end.
Definition ev_eqb (a b : ev) : bool :=
  match a, b with
  | Read i, Read j | Compute i, Compute j | Write i, Write j => Nat.eqb i j
  | _, _ => false
  end.

(** _process_file of the i-th file: read it, run the pipeline on what was read, write it back (a no-op
    unless the pipeline produced a new text). *)
Definition task_evs (i : nat) : list ev := [Read i; Compute i; Write i].
Definition tasks (n : nat) : list (list ev) := map task_evs (seq 0 n).

Fixpoint upd {A} (l : list A) (i : nat) (x : A) : list A :=
  match l, i with
  | [], _ => []
  | _ :: r, O => x :: r
  | y :: r, S j => y :: upd r j x
  end.

(** [interleaving ls tr]: [tr] is obtained by repeatedly taking the head of one of the lists, until all are empty.
    Every execution of the tasks by any number of threads, under any scheduler, is such a trace. *)
Inductive interleaving {A} : list (list A) -> list A -> Prop :=
| il_nil : forall ls, (forall l, In l ls -> l = []) -> interleaving ls []
| il_pick : forall ls i x l tr,
    nth_error ls i = Some (x :: l) -> interleaving (upd ls i l) tr -> interleaving ls (x :: tr).

(** Decidable form for traces whose events name their task (used on observed schedules). *)
Fixpoint check_il (ls : list (list ev)) (tr : list ev) : bool :=
  match tr with
  | [] => forallb (fun l => match l with [] => true | _ => false end) ls
  | e :: r =>
      match nth_error ls (ev_task e) with
      | Some (x :: l) => ev_eqb x e && check_il (upd ls (ev_task e) l) r
      | _ => false
      end
  end.

(** State: the shared file system and, per task, what it has read and what it has computed
    (thread-local: the FileContext and the trees of _process_file). *)
Record state := { st_fs : fsys; st_rd : dict nat (option content); st_out : dict nat outcome }.
Definition init (fs0 : fsys) : state := {| st_fs := fs0; st_rd := []; st_out := [] |}.

(** Where a task keeps what it has read.  [TaskLocal]: in its own slot (the locals of _process_file, its own
    FileContext and trees) -- what the translator reads off the source.  [SharedScratch]: every task uses the same
    slot (an object stored on the codemod / pipeline / run context and reused across files). *)
Definition rd_slot (loc : locality_form) (i : nat) : nat :=
  match loc with TaskLocal => i | SharedScratch => 0 end.

Definition step (loc : locality_form) (files : list path) (T : transformer) (fnd : path -> findings) (st : state) (e : ev) : state :=
  match e with
  | Read i =>
      match nth_error files i with
      | Some p => {| st_fs := st_fs st; st_rd := dset Nat.eqb (rd_slot loc i) (lookup (st_fs st) p) (st_rd st); st_out := st_out st |}
      | None => st
      end
  | Compute i =>
      match nth_error files i, dget Nat.eqb (rd_slot loc i) (st_rd st) with
      | Some p, Some c => {| st_fs := st_fs st; st_rd := st_rd st; st_out := dset Nat.eqb i (T p (fnd p) c) (st_out st) |}
      | _, _ => st
      end
  | Write i =>
      match nth_error files i, dget Nat.eqb i (st_out st) with
      | Some p, Some (Some c', _) => {| st_fs := write (st_fs st) p c'; st_rd := st_rd st; st_out := st_out st |}
      | _, _ => st
      end
  end.

Definition exec (loc : locality_form) (files : list path) (T : transformer) (fnd : path -> findings) (fs0 : fsys) (tr : list ev) : state :=
  fold_left (step loc files T fnd) tr (init fs0).

(** The states after each event of the trace (used to compare what a task read / left behind with what was observed). *)
Fixpoint exec_states (loc : locality_form) (files : list path) (T : transformer) (fnd : path -> findings) (st : state) (tr : list ev)
  : list (ev * state) :=
  match tr with
  | [] => []
  | e :: r => let st' := step loc files T fnd st e in (e, st') :: exec_states loc files T fnd st' r
  end.

(** One codemod over its file list: detector first, on the untouched project; then the pool. *)
Definition run_codemod (loc : locality_form) (files : list path) (T : transformer) (D : detector) (fs0 : fsys) (tr : list ev) : state :=
  exec loc files T (D fs0) fs0 tr.

(** The sequential schedule (what --max-workers 1 does). *)
Definition sequential (n : nat) : list ev := concat (tasks n).

(* ------------------------------------------------------------------------------------------------ *)
(** * Merging the per-file results after the pool is drained *)
Definition res_of (st : state) (i : nat) : fres :=
  match dget Nat.eqb i (st_out st) with Some (_, r) => r | None => fres_empty end.
Definition completion_order (tr : list ev) : list nat :=
  flat_map (fun e => match e with Write i => [i] | _ => [] end) tr.
(** executor.map yields the results in the order of its input whatever the completion order. *)
Definition collect_order (v : collect_form) (n : nat) (tr : list ev) : list nat :=
  match v with MapInputOrder => seq 0 n | CompletionOrder => completion_order tr end.
Definition merged (v : collect_form) (n : nat) (tr : list ev) (st : state) : fres :=
  fold_left fres_add (map (res_of st) (collect_order v n tr)) fres_empty.

(* ------------------------------------------------------------------------------------------------ *)
(** * The bounded pool
    Model of concurrent.futures.ThreadPoolExecutor as far as the number of files in flight is concerned:
    submit() puts the work item on the queue and (_adjust_thread_count) may start a new worker thread only while
    fewer than max_workers threads exist; a worker thread takes one queued item at a time and runs it to the end.
    The bound on the files in flight is DERIVED from this (a file is in flight iff a worker is running it). *)
Inductive pev :=
| Submit (i : nat)        (* executor.map submits the items in input order *)
| Spawn                   (* a new worker thread *)
| Take (k i : nat)        (* worker k takes item i off the queue: _process_file starts *)
| Done (k : nat).         (* worker k has finished its item *)

Definition default_workers (cpu : N) : N := N.min 32 (cpu + 4).
(** the bound the executor is created with, given --max-workers [w] *)
Definition pool_bound (a : option pool_arg) (w cpu : N) : N :=
  match a with Some MaxWorkersArg => w | None => default_workers cpu end.

Definition mem_nat (i : nat) (l : list nat) : bool := existsb (Nat.eqb i) l.
Fixpoint remove_nat (i : nat) (l : list nat) : list nat :=
  match l with [] => [] | j :: r => if Nat.eqb i j then r else j :: remove_nat i r end.

Record pool := { p_queue : list nat; p_workers : list (option nat) }.
Definition pool_init : pool := {| p_queue := []; p_workers := [] |}.

Definition pool_step (b : N) (p : pool) (e : pev) : option pool :=
  match e with
  | Submit i => Some {| p_queue := p_queue p ++ [i]; p_workers := p_workers p |}
  | Spawn =>
      if (N.of_nat (length (p_workers p)) <? b)%N
      then Some {| p_queue := p_queue p; p_workers := p_workers p ++ [None] |} else None
  | Take k i =>
      match nth_error (p_workers p) k with
      | Some None =>
          if mem_nat i (p_queue p)
          then Some {| p_queue := remove_nat i (p_queue p); p_workers := upd (p_workers p) k (Some i) |} else None
      | _ => None
      end
  | Done k =>
      match nth_error (p_workers p) k with
      | Some (Some _) => Some {| p_queue := p_queue p; p_workers := upd (p_workers p) k None |}
      | _ => None
      end
  end.
(** [None]: the event list is not an execution of a pool with bound [b] *)
Fixpoint pool_run (b : N) (p : pool) (tr : list pev) : option pool :=
  match tr with
  | [] => Some p
  | e :: r => match pool_step b p e with Some p' => pool_run b p' r | None => None end
  end.

(** files in flight = workers running an item *)
Fixpoint busy_of (ws : list (option nat)) : nat :=
  match ws with [] => 0 | Some _ :: r => S (busy_of r) | None :: r => busy_of r end.
Definition busy (p : pool) : nat := busy_of (p_workers p).

(** the in-flight counter read off the events alone (what the harness measures) *)
Fixpoint peak_from (cur : nat) (tr : list pev) : nat :=
  match tr with
  | [] => cur
  | Take _ _ :: r => Nat.max cur (peak_from (S cur) r)
  | Done _ :: r => Nat.max cur (peak_from (pred cur) r)
  | _ :: r => peak_from cur r
  end.
Definition peak (tr : list pev) : nat := peak_from 0 tr.

(* ------------------------------------------------------------------------------------------------ *)
(** * Registry order and the default / SAST selection *)
Definition cm_row := (str * bool)%type.            (* codemod id, origin == "pixee" *)
Definition entry_point := (N * list cm_row)%type.  (* identity of the entry point, the collection it loads *)

(** ** Hash containers (the order-relevant facts of CPython's dict and set; open addressing is abstracted to buckets).
    [h] is the seeded hash.  A lookup inspects only the bucket of the key: entries with the same hash, compared with ==. *)
Definition mem_hashed {A} (eqb : A -> A -> bool) (h : A -> N) (k : A) (entries : list A) : bool :=
  existsb (fun e => N.eqb (h e) (h k) && eqb e k) entries.

(** dict.fromkeys(seq): a key that is found (through its hash) is skipped, a new key is appended to the entries;
    iteration over a dict follows the entries, i.e. insertion order. *)
Fixpoint fromkeys_from {A} (eqb : A -> A -> bool) (h : A -> N) (entries seq : list A) : list A :=
  match seq with
  | [] => entries
  | k :: r => if mem_hashed eqb h k entries then fromkeys_from eqb h entries r else fromkeys_from eqb h (entries ++ [k]) r
  end.
Definition dict_fromkeys {A} (eqb : A -> A -> bool) (h : A -> N) (seq : list A) : list A := fromkeys_from eqb h [] seq.

(** iteration over a set with [m] slots walks the table: slot 0, 1, ..., m-1; an element sits in slot (hash mod m) *)
Definition slots (m : N) : list N := map N.of_nat (seq 0 (N.to_nat m)).
Definition slot_iter {A} (h : A -> N) (m : N) (l : list A) : list A :=
  flat_map (fun i => List.filter (fun e => N.eqb (h e mod m) i) l) (slots m).
(** set(seq): same insertion discipline as a dict, iteration in slot order *)
Definition set_iter {A} (eqb : A -> A -> bool) (h : A -> N) (m : N) (seq : list A) : list A :=
  slot_iter h m (dict_fromkeys eqb h seq).

(** the hash-free reference: first occurrences, in sequence order *)
Fixpoint dedup_from {A} (eqb : A -> A -> bool) (acc seq : list A) : list A :=
  match seq with
  | [] => acc
  | k :: r => if existsb (fun e => eqb e k) acc then dedup_from eqb acc r else dedup_from eqb (acc ++ [k]) r
  end.

Definition ep_eqb (a b : entry_point) : bool := N.eqb (fst a) (fst b).
Definition ep_hash (h : N -> N) (e : entry_point) : N := h (fst e).
Definition dedup_eps (eps : list entry_point) : list entry_point := dedup_from ep_eqb [] eps.

(** load_registered_codemods: the order in which the collections are added; [h] = seeded hash of an entry point,
    [m] = size of the set's table *)
Definition iter_order (v : iter_form) (h : N -> N) (m : N) (eps : list entry_point) : list entry_point :=
  match v with
  | Deterministic => dict_fromkeys ep_eqb (ep_hash h) eps
  | OverSet => set_iter ep_eqb (ep_hash h) m eps
  end.
(** add_codemod_collection appends the codemods of each collection (ids are distinct) *)
Definition registry_of (v : iter_form) (h : N -> N) (m : N) (eps : list entry_point) : list cm_row :=
  flat_map snd (iter_order v h m eps).

(** match_codemods, no --codemod-include: registry order, minus the excluded names, pixee xor sast_only *)
Definition match_default (excluded : list str) (sast_only : bool) (reg : list cm_row) : list str :=
  map fst (List.filter (fun r => negb (mem_str (fst r) excluded) && xorb sast_only (snd r)) reg).
(** the order in which codemods run, which is also the order of [results] in the report (compile_results) *)
Definition run_order (v : iter_form) (h : N -> N) (m : N) (eps : list entry_point) (excluded : list str) (sast_only : bool) : list str :=
  match_default excluded sast_only (registry_of v h m eps).

(* ------------------------------------------------------------------------------------------------ *)
(** * Order of the matched files *)
Fixpoint str_leb (a b : str) : bool :=
  match a, b with
  | [], _ => true
  | _ :: _, [] => false
  | x :: a', y :: b' => if (x <? y)%N then true else if (y <? x)%N then false else str_leb a' b'
  end.
Fixpoint insert_sorted (x : str) (l : list str) : list str :=
  match l with
  | [] => [x]
  | y :: r => if str_leb x y then x :: l else y :: insert_sorted x r
  end.
Definition sort_paths (l : list str) : list str := fold_right insert_sorted [] l.
(** match_files: the matched relative paths (each once, in enumeration order) are put in a set of str
    ([h] = seeded hash of str, [m] = table size); the set is returned sorted, or as iterated *)
Definition match_order (v : order_form) (h : str -> N) (m : N) (enumerated : list str) : list str :=
  match v with
  | SortedPaths => sort_paths (slot_iter h m enumerated)
  | SetOrder => slot_iter h m enumerated
  end.
