"""C10 — an unprocessable file is left intact, reported, and does not stop the run.

ENUMERATED fault points: projects of n files, every position i, fault kind in {invalid UTF-8, NUL byte, syntax error,
empty file, transformer raising on the i-th file, file deleted between listing and processing}.  The faulty run (two
codemods, real CLI) is compared with the run on the project WITHOUT the bad file (reference of `C10_run_isolation`):
other files byte-identical, per-codemod change sets / failedFiles (minus the bad file) / descriptions equal, the bad
file byte-identical and listed as failed by every codemod that selected it, report valid JSON, exit status 0.
Faults in the transformer / a vanishing file are injected from the harness (core.run_cli(preload=...)): wrappers around
LibcstResultTransformer.transform and BaseCodemod._process_file installed in the child before main(); no repository hook.
Model: coq/Model/Run.v evaluated with the oracle values observed in the REFERENCE run and asked to predict the FAULTY run.
The regex pipeline (no try/except: `C10_isolation_regex`) is exercised in-process through the real classes."""
from __future__ import annotations

import base64
import json
import sys
from pathlib import Path

from harness import core
from harness import run_common as rc

META = {
    "rule": "enumerated fault points: project (n = 3..5 python files + requirements.txt) x position i x fault kind "
            "{invalid UTF-8, NUL byte, syntax error, empty file, declared non-UTF-8 encoding (latin-1 / cp1252 coding cookie, UTF-16 with BOM), "
            "transformer raises on file i, file i deleted after listing} "
            "x codemod pairs (detector-less + detector-less, detector-less + semgrep-detected, dependency-adding); each fault "
            "point = one faulty CLI run compared with the cached run on the project without file i; non-trivial = the "
            "reference run changes at least one other file; distinct by (project text, pair, kind, i)",
    "trusted": ["the wrappers installed through core.run_cli(preload=...) raise/delete exactly at the named file"],
    "assumptions": [
        "oracle: semgrep reports no finding in a file it cannot parse/decode (Hnosem of C10_run_isolation; observed: such a file is never listed by a semgrep-detected codemod)",
        "oracle: cst.parse_module(bytes.decode('utf-8')) decides which crafted contents are unprocessable (NUL, syntax error, invalid UTF-8: fail; empty file: parses)",
        "not covered by this check: SAST-driven detectors (result files) and a transformer raising at the j-th visited node after partial side effects",
    ],
}

KF_VANISHED = "kf_vanished_file_aborts_semgrep_scan"
KINDS = ["invalid_utf8", "nul_byte", "syntax_error", "empty_file", "transform_raises", "deleted_after_listing"]
CONTENT = {"invalid_utf8": b"\xff\xfe x = 1\n", "nul_byte": b"x = 1\x00\n", "syntax_error": b"def (:\n    pass\n", "empty_file": b""}
# declared non-UTF-8 source encodings (PEP 263 cookie / BOM): the file keeps its own code (so a codemod that wrongly accepts it
# has something to change) plus a non-ASCII literal, encoded as declared; none of them decodes as UTF-8, which is what the
# pipeline reads files as, so each is an unprocessable file for C10
DECLARED_ENCODINGS = {
    "cookie_latin1": (b"# -*- coding: latin-1 -*-\n", "latin-1", "LABEL = 'caf\u00e9 cr\u00e8me'\n"),
    "cookie_cp1252": (b"# coding: cp1252\n", "cp1252", "PRICE = '10 \u20ac \u2013 net'\n"),
    "utf16_bom": (b"", "utf-16", "NOTE = 'na\u00efve'\n"),
}
KINDS = KINDS + sorted(DECLARED_ENCODINGS)
UNPROCESSABLE = {"invalid_utf8", "nul_byte", "syntax_error", "transform_raises", "deleted_after_listing"} | set(DECLARED_ENCODINGS)
CONTENT_FAULTS = set(CONTENT) | set(DECLARED_ENCODINGS)          # kinds that replace the file's bytes
UNDECODABLE = {"invalid_utf8", "nul_byte", "syntax_error"} | set(DECLARED_ENCODINGS)


def fault_content(kind, files, bad):
    """bytes of the bad file under a content fault"""
    if kind in CONTENT:
        return CONTENT[kind]
    cookie, codec, literal = DECLARED_ENCODINGS[kind]
    data = cookie + (literal + files[bad]).encode(codec)
    try:
        data.decode("utf-8")
    except UnicodeDecodeError:
        return data
    raise AssertionError(f"{kind}: the crafted content decodes as UTF-8")

PRELOAD_RAISE = '''
import os as _os
from codemodder.codemods import libcst_transformer as _lt
_orig_transform = _lt.LibcstResultTransformer.transform.__func__
def _faulty_transform(cls, *args, **kwargs):
    # the FileContext is found by type, not by position or keyword name
    from codemodder.file_context import FileContext as _FC
    fc = next((a for a in list(args) + list(kwargs.values()) if isinstance(a, _FC)), None)
    if fc is not None and str(fc.file_path).endswith(_os.environ["VERIF_BAD_FILE"]):
        raise RuntimeError("injected transformer fault")
    return _orig_transform(cls, *args, **kwargs)
_lt.LibcstResultTransformer.transform = classmethod(_faulty_transform)
'''
PRELOAD_DELETE = '''
import os as _os
from codemodder.codemods import base_codemod as _bc
_orig_process_file = _bc.BaseCodemod._process_file
def _vanishing_process_file(self, *args, **kwargs):
    # the file is the first path-like argument, whatever the parameters are called
    from pathlib import Path as _P
    filename = next((a for a in list(args) + list(kwargs.values()) if isinstance(a, _P)), None)
    if filename is not None and str(filename).endswith(_os.environ["VERIF_BAD_FILE"]) and _os.path.exists(filename):
        _os.unlink(filename)
        with open(_os.environ["VERIF_STRUCK_MARK"], "w") as _m:       # outside the target: the fault point was reached
            _m.write("deleted")
    return _orig_process_file(self, *args, **kwargs)
_bc.BaseCodemod._process_file = _vanishing_process_file
'''

PAIRS_QUICK = [(rc.P + "use-set-literal", rc.P + "harden-pickle-load"), (rc.P + "remove-unnecessary-f-str", rc.P + "secure-random")]
PAIRS_MORE = [(rc.P + "use-generator", rc.P + "fix-assert-tuple"), (rc.P + "use-defusedxml", rc.P + "add-requests-timeouts"),
              (rc.P + "fix-mutable-params", rc.P + "url-sandbox"), (rc.P + "secure-tempfile", rc.P + "use-set-literal")]


def make_project(rng, pair, n):
    files = rc.gen_project(rng, list(pair), n, ["requirements.txt"])
    return files


def run_cli_with_fault(R, root, pair, kind, bad):
    env_preload = None
    if kind == "transform_raises":
        env_preload = f"import os\nos.environ['VERIF_BAD_FILE'] = {bad!r}\n" + PRELOAD_RAISE
    elif kind == "deleted_after_listing":
        mark = root.parent / (root.name + ".struck")
        env_preload = f"import os\nos.environ['VERIF_BAD_FILE'] = {bad!r}\nos.environ['VERIF_STRUCK_MARK'] = {str(mark)!r}\n" + PRELOAD_DELETE
        r = R.run(root, list(pair), sonar_args(root, pair), preload=env_preload)
        # the file vanishes when the first codemod that SELECTED it starts processing it; a file no codemod of the run selects
        # (a SAST-driven pair and a file without findings) is never reached: then there is no fault in this run
        r["struck"] = mark.exists()
        return r
    return R.run(root, list(pair), sonar_args(root, pair), preload=env_preload)


SONAR_PAIR = ("sonar:python/fix-assert-tuple", "sonar:python/numpy-nan-equality")
_ISSUES = {}


def is_sonar(pair):
    return any(k.startswith("sonar:") for k in pair)


def sonar_project():
    t = rc.SONAR[SONAR_PAIR[0]][1]
    n = rc.SONAR[SONAR_PAIR[1]][1]
    return {"t.py": t, "u.py": t + "y = 2\n", "n.py": n, "plain.py": "VALUE = 1\n", "requirements.txt": "requests\n"}


def sonar_args(root, pair, files=None):
    """--sonar-issues-json <file next to the target>; the issues were computed from the ORIGINAL project (the scan predates the fault)"""
    if not is_sonar(pair):
        return []
    f = root.parent / (root.name + ".issues.json")
    f.write_text(json.dumps(_ISSUES[root]))
    return ["--sonar-issues-json", str(f)]


def fault_points(ctx):
    rng = ctx.rng
    pts = []  # (project files, pair, kind, position)
    if ctx.quick():
        # one project fully enumerated over positions for the cheap pair, the other pair sampled
        p1 = make_project(rng, PAIRS_QUICK[0], 3)
        names = rc.py_files(p1)
        for i in range(len(names)):
            for k in KINDS:
                pts.append((p1, PAIRS_QUICK[0], k, names[i]))
        p2 = make_project(rng, PAIRS_QUICK[1], rng.choice([3, 4]))
        names2 = rc.py_files(p2)
        for i in range(len(names2)):
            for k in KINDS:
                if len(names2) == 3 or rng.random() < 0.6:
                    pts.append((p2, PAIRS_QUICK[1], k, names2[i]))
        # SAST-driven (Sonar) pair: the bad file carries a reported finding
        sp = sonar_project()
        for nm in ["t.py", "n.py", "u.py"]:
            for k in (["invalid_utf8", "syntax_error", "transform_raises", "deleted_after_listing"] if nm != "u.py" else ["cookie_latin1", "empty_file"]):
                pts.append((sp, SONAR_PAIR, k, nm))
        if getattr(ctx, "deep", False):
            for pair in PAIRS_MORE[:2]:
                p = make_project(rng, pair, 3)
                for nm in rc.py_files(p):
                    for k in KINDS:
                        pts.append((p, pair, k, nm))
    else:
        for n in (3, 4, 5):
            for pair in PAIRS_QUICK + PAIRS_MORE:
                p = make_project(rng, pair, n)
                for nm in rc.py_files(p):
                    for k in KINDS:
                        pts.append((p, pair, k, nm))
        sp = sonar_project()
        for nm in rc.py_files(sp):
            for k in KINDS:
                pts.append((sp, SONAR_PAIR, k, nm))
    return pts


def corpus_points():
    out = []
    d = core.VERIF / "corpus" / "C10"
    for f in sorted(d.glob("*.json")) if d.is_dir() else []:
        body = json.loads(f.read_text())
        if "project" not in body:
            continue
        files = {k: base64.b64decode(v).decode() for k, v in body["project"].items()}
        out.append((files, tuple(body["pair"]), body["fault_kind"], body["bad_file"]))
    return out


def compare(ctx, pt, faulty, ref, root_f, root_r, tree_f, tree_r):
    files, pair, kind, bad = pt
    name = f"{kind}@{bad}"
    replay = {"project": core.b64tree(files), "pair": list(pair), "fault_kind": kind, "bad_file": bad}
    ok = True

    def viol(cls, what, extra=None):
        nonlocal ok
        ok = False
        ctx.violation(cls, f"{name} {list(pair)}: {what}", {**replay, **(extra or {})})

    if (faulty["rc"] != 0 and kind == "deleted_after_listing" and "CalledProcessError" in faulty["stderr"]
            and "'semgrep', 'scan'" in faulty["stderr"] and bad in faulty["stderr"]):
        # narrow class: the vanished file had been flagged by the prefilter for a semgrep-detected codemod of the run; that
        # codemod's detector hands the missing path to `semgrep scan`, which exits 2 -> CalledProcessError -> no report
        viol(KF_VANISHED, f"exit status {faulty['rc']}, no report: `semgrep scan {bad}` on the vanished file raised CalledProcessError "
                          f"in SemgrepRuleDetector.apply; the run is aborted")
        return ok, None, None
    if faulty["rc"] != 0:
        viol("kf_c10_exit_status", f"exit status {faulty['rc']} (expected 0): {faulty['stderr'][-400:]}")
    if not isinstance(faulty["report"], dict):
        viol("kf_c10_no_valid_report", f"report missing or not valid JSON ({faulty['report']!r})")
        return ok, None, None
    if not isinstance(ref["report"], dict) or ref["rc"] != 0:
        raise RuntimeError(f"reference run failed: rc={ref['rc']} {ref['stderr'][-300:]}")
    rows_f, rows_r = rc.rows_of_report(faulty["report"], root_f), rc.rows_of_report(ref["report"], root_r)
    original_bad = files[bad].encode() if kind not in CONTENT_FAULTS else fault_content(kind, files, bad)
    # the bad file itself
    struck = kind != "deleted_after_listing" or faulty.get("struck", True)
    if kind == "deleted_after_listing" and not struck:
        ctx.count("fault_not_reached:deleted_after_listing")
        if tree_f.get(bad) != files[bad].encode():
            viol("kf_c10_bad_file_touched", f"no codemod selected the file, yet its bytes changed: {tree_f.get(bad)!r}")
    elif kind == "deleted_after_listing":
        if bad in tree_f:
            viol("kf_c10_bad_file_recreated", "the vanished file exists again after the run")
    elif tree_f.get(bad) != original_bad:
        viol("kf_c10_bad_file_touched", f"the bad file's bytes changed: {tree_f.get(bad)!r}")
    # every other file
    for p in sorted(set(tree_r) | (set(tree_f) - {bad})):
        if tree_f.get(p) != tree_r.get(p):
            viol("kf_c10_other_file_differs", f"{p} differs from the run without the bad file", {"path": p})
            break
    if [r["codemod"] for r in rows_f] != [r["codemod"] for r in rows_r]:
        viol("kf_c10_results_differ", "the list of results differs")
    for rf, rr in zip(rows_f, rows_r):
        if (rf["changed"], rf["diffs"], rf["changes"]) != (rr["changed"], rr["diffs"], rr["changes"]):
            viol("kf_c10_other_outcome_differs", f"{rf['codemod']}: change sets differ from the run without the bad file: "
                 f"{rf['changed']} vs {rr['changed']}")
        if rf["description"] != rr["description"]:
            viol("kf_c10_other_outcome_differs", f"{rf['codemod']}: description differs")
        if [x for x in rf["failed"] if x != bad] != rr["failed"]:
            viol("kf_c10_failed_files_differ", f"{rf['codemod']}: failedFiles {rf['failed']} vs {rr['failed']} (+ the bad file)")
        det = rc.det_of(rf["codemod"])
        n_findings = rc.sonar_findings(files, rf["codemod"]).get(bad, 0) if det == "DSast" else 0
        # detector-less codemods select every *.py file; a SAST-driven one selects the files its rule has findings in
        selected = det == "DNone" or n_findings > 0
        # "its findings reported as unfixed": every other file's unfixed findings as in the run without the bad file ...
        uf_other = [u for u in rf["unfixed"] if u.get("path") != bad]
        if uf_other != rr["unfixed"]:
            viol("kf_c10_unfixed_differ", f"{rf['codemod']}: unfixedFindings of the other files differ from the run without the bad file: "
                 f"{uf_other} vs {rr['unfixed']}")
        # ... and the bad file's own findings all unfixed, with line 0
        uf_bad = [u for u in rf["unfixed"] if u.get("path") == bad]
        if kind in UNPROCESSABLE and det == "DSast" and n_findings and (len(uf_bad) != n_findings or any(u.get("lineNumber") != 0 for u in uf_bad)):
            viol("kf_c10_findings_not_unfixed", f"{rf['codemod']}: the bad file has {n_findings} finding(s) but unfixedFindings lists {uf_bad}")
        if kind not in UNPROCESSABLE and uf_bad and det != "DSast":
            viol("kf_c10_spurious_failure", f"{rf['codemod']} reports unfixed findings for a processable file: {uf_bad}")
        if not struck:
            selected = False          # the fault point was never reached: nothing to list
        if kind in UNPROCESSABLE and selected and bad not in rf["failed"]:
            viol("kf_c10_failure_not_listed", f"{rf['codemod']} selected the bad file but does not list it in failedFiles")
        if (kind not in UNPROCESSABLE or not struck) and bad in rf["failed"]:
            viol("kf_c10_spurious_failure", f"{rf['codemod']} lists a processable file ({kind}) as failed")
        if bad in rf["changed"]:
            viol("kf_c10_bad_file_changed", f"{rf['codemod']} reports a change set for the bad file")
    return ok, rows_f, rows_r


def model_term(pt, rows_f, rows_r, tree_f, tree_r, rc_status, struck=True):
    files, pair, kind, bad = pt
    A = rc.Abstr()
    names = rc.py_files(files)

    def badc(b):
        # the fault is tied to the FILE (its name), so its content gets an identity of its own even when a sibling has the same text
        return A.content(b"\0bad-file\0" + (b.encode() if isinstance(b, str) else b))
    changed_by = {}
    for r in rows_r:
        for p in r["changed"]:
            if p.endswith(".py"):
                changed_by.setdefault(p, []).append(r["codemod"])
    if any(len(v) > 1 for v in changed_by.values()):
        return None                      # intermediate content not observable: skip the model on this point
    man_before, man_after = files["requirements.txt"].encode(), tree_r.get("requirements.txt")
    cms = []
    W = []
    cur_manifest = man_before
    for r in rows_r:
        k = r["codemod"]
        dep = rc.DEPS.get(k)
        adds = "requirements.txt" in r["changed"]
        depid = [A.content("dep:" + dep)] if (dep and adds) else []
        T = [(A.content(files[p]), A.content(tree_r[p]), depid) for p in names if p != bad and changed_by.get(p) == [k]]
        bad_content = fault_content(kind, files, bad) if kind in CONTENT_FAULTS else files[bad].encode()
        raise_on = [badc(bad_content)] if kind == "transform_raises" else []
        flag = [x for x, _, _ in T]
        # oracle value S(K, bad file): semgrep's verdict on the bad file is observed (the codemod lists it iff its rule matched there)
        rf = next((x for x in rows_f if x["codemod"] == k), None)
        if rc.det_of(k) == "DSemgrep" and rf is not None and bad in rf["failed"]:
            flag.append(badc(bad_content))
        if rc.det_of(k) == "DSast":
            Rk = [(A.path(p), [A.content(f"finding:{k}:{p}:{i}") for i in range(n)]) for p, n in sorted(rc.sonar_findings(files, k).items())]
            cms.append(rc.c_hcodemod(A, k, "DSast", T, raise_on, [], base="Remediation", R=Rk))
        else:
            cms.append(rc.c_hcodemod(A, k, rc.det_of(k), T, raise_on, flag))
        if adds:
            # with two dependency-adding codemods the intermediate manifest text is not observable; only one adds here
            W.append((A.content(cur_manifest), depid, A.content(man_after)))
            cur_manifest = man_after
    bad_content = fault_content(kind, files, bad) if kind in CONTENT_FAULTS else files[bad].encode()
    hx_fs = []
    for p, c in files.items():
        if p == bad:
            if kind == "deleted_after_listing" and struck:
                continue            # (when the fault point was never reached the file is simply there, unselected)
            hx_fs.append((A.path(p), badc(bad_content)))
        else:
            hx_fs.append((A.path(p), A.content(c)))
    hx_bad = [badc(bad_content)] if kind in UNDECODABLE else []
    ob_fs = [(A.path(p), badc(c) if p == bad else A.content(c)) for p, c in tree_f.items() if p in files]
    ob_rows = [(A.codemod(r["codemod"]), [A.path(p) for p in r["changed"]], [A.path(p) for p in r["failed"]], [A.path(p) for p in rc.unfixed_paths(r)]) for r in rows_f]
    stores = [("SReqTxt", A.path("requirements.txt"), [])]
    return rc.c_hcase(False, [A.path(p) for p in names], hx_fs, hx_bad, cms, stores, W, rc_status, ob_fs, ob_rows)


def regex_pipeline_probe(ctx):
    """The real RegexTransformerPipeline / XMLTransformerPipeline on an undecodable file, through BaseCodemod._apply and
    context.process_results (in-process, real classes, a scratch directory)."""
    code = r'''
import json, sys, tempfile
from pathlib import Path
from codemodder.codemods.api import Metadata, ReviewGuidance
from codemodder.codemods.base_codemod import FindAndFixCodemod
from codemodder.codemods.regex_transformer import RegexTransformerPipeline
from codemodder.context import CodemodExecutionContext
from codemodder.project_analysis.python_repo_manager import PythonRepoManager
from codemodder.registry import load_registered_codemods
from codemodder.providers import load_providers

class RegexCodemod(FindAndFixCodemod):
    @property
    def origin(self): return "verif"
    @property
    def docs_module_path(self): return "core_codemods.docs"

root = Path(sys.argv[1])
(root / "a.txt").write_bytes(b"hello world\n")
(root / "b.txt").write_bytes(b"\xff\xfe hello\n")
(root / "c.txt").write_bytes(b"hello again\n")
cm = RegexCodemod(metadata=Metadata(name="regex-probe", summary="s", review_guidance=ReviewGuidance.MERGE_WITHOUT_REVIEW, description="d"),
                  transformer=RegexTransformerPipeline(pattern="hello", replacement="goodbye", change_description="x"),
                  default_extensions=[".txt"])
ctx = CodemodExecutionContext(root, False, False, load_registered_codemods(), load_providers(), PythonRepoManager(root), ["*.txt"], [], {}, 2)
out = {}
try:
    cm.apply(ctx)
    out["raised"] = None
except Exception as e:
    out["raised"] = type(e).__name__
out["failed"] = [str(Path(p).relative_to(root)) for p in ctx.get_failures(cm.id)]
out["changed"] = [c.path for c in ctx.get_changesets(cm.id)]
out["files"] = {p.name: p.read_bytes().decode("latin-1") for p in sorted(root.glob("*.txt"))}
print(json.dumps(out))
'''
    import subprocess
    d = ctx.scratch / "regex_probe"
    d.mkdir()
    p = subprocess.run([core.PY, "-c", code, str(d)], env=core.cli_env(), stdout=subprocess.PIPE, stderr=subprocess.PIPE, timeout=300)
    line = [l for l in p.stdout.decode().splitlines() if l.startswith("{")]
    if not line:
        raise RuntimeError("regex probe failed: " + p.stderr.decode()[-800:])
    return json.loads(line[-1])


def xml_pipeline_probe(ctx):
    """The real XMLTransformerPipeline on (a) a malformed XML file, (b) a well-formed XML file whose declared encoding is not
    UTF-8: SAX parses (b) inside the try block, then the pipeline re-reads the file with .decode("utf-8") OUTSIDE of it."""
    code = r"""
import json, sys
from pathlib import Path
from codemodder.codemods.xml_transformer import XMLTransformerPipeline, ElementAttributeXMLTransformer
from codemodder.file_context import FileContext
class T(ElementAttributeXMLTransformer):
    change_description = "x"
    def __init__(self, out, file_context, results=None, **kw):
        super().__init__(out, file_context, name_attributes_map={"a": {"x": "1"}}, results=results)
root = Path(sys.argv[1]).resolve()
files = {"good.xml": b'<?xml version="1.0" encoding="utf-8"?>\n<a>ok</a>\n',
         "broken.xml": b"<a><b></a>\n",
         "latin.xml": b'<?xml version="1.0" encoding="ISO-8859-1"?>\n<a>caf\xe9</a>\n'}
class Ctx:
    dry_run = False
    directory = root
out = {}
for name, content in files.items():
    (root / name).write_bytes(content)
    fc = FileContext(root, root / name, [], [], None)
    try:
        cs = XMLTransformerPipeline(T).apply(Ctx, fc, None)
        out[name] = {"raised": None, "changeset": cs is not None, "failed": [p.name for p in fc.failures]}
    except Exception as e:
        out[name] = {"raised": type(e).__name__, "changeset": False, "failed": [p.name for p in fc.failures]}
    out[name]["untouched"] = (root / name).read_bytes() == content
print(json.dumps(out))
"""
    import subprocess
    d = ctx.scratch / "xml_probe"
    d.mkdir()
    p = subprocess.run([core.PY, "-c", code, str(d)], env=core.cli_env(), stdout=subprocess.PIPE, stderr=subprocess.PIPE, timeout=300)
    line = [l for l in p.stdout.decode().splitlines() if l.startswith("{")]
    if not line:
        raise RuntimeError("xml probe failed: " + p.stderr.decode()[-800:])
    return json.loads(line[-1])


def run(ctx: core.Ctx):
    R = rc.Runner(ctx)
    pts = corpus_points() + fault_points(ctx)
    # reference runs (project without file i), cached per (project, pair, i)
    refs, jobs, order = {}, [], []
    for pt in pts:
        files, pair, kind, bad = pt
        key = (json.dumps(files, sort_keys=True), pair, bad)
        if key not in refs:
            root = R.fresh_dir("ref")
            core.write_tree(root, {p: c for p, c in files.items() if p != bad})
            refs[key] = {"root": root}
            _ISSUES[root] = rc.sonar_issues(files)
            jobs.append(lambda root=root, pair=pair: R.run(root, list(pair), sonar_args(root, pair)))
            order.append(("ref", key))
        root = R.fresh_dir(kind)
        proj = dict(files)
        if kind in CONTENT_FAULTS:
            proj[bad] = fault_content(kind, files, bad)
        core.write_tree(root, proj)
        _ISSUES[root] = rc.sonar_issues(files)
        jobs.append(lambda root=root, pair=pair, kind=kind, bad=bad: run_cli_with_fault(R, root, pair, kind, bad))
        order.append(("fault", (pt, root, key)))
    res = rc.parallel(jobs)
    faulty_runs = []
    for (tag, info), r in zip(order, res):
        if tag == "ref":
            refs[info]["run"] = r
            refs[info]["tree"] = core.read_tree(refs[info]["root"])
        else:
            faulty_runs.append((info, r))
    terms, meta = [], []
    for (pt, root, key), r in faulty_runs:
        files, pair, kind, bad = pt
        ref = refs[key]
        tree_f = core.read_tree(root)
        ctx.count("fault_kind:" + kind)
        ctx.count("position:" + str(rc.py_files(files).index(bad)))
        ctx.count("n_files:" + str(len(rc.py_files(files))))
        ctx.count("pair:" + "+".join(x.split("/")[-1] for x in pair))
        ok, rows_f, rows_r = compare(ctx, pt, r, ref["run"], root, ref["root"], tree_f, ref["tree"])
        nontrivial = None
        if rows_r is not None and any(x["changed"] for x in rows_r):
            nontrivial = (key[0], pair, kind, bad)
        ctx.case({"fault": kind, "bad_file": bad, "pair": list(pair), "files": sorted(files),
                  "failed": [x["failed"] for x in rows_f] if rows_f else None}, nontrivial_key=nontrivial, sample=(kind == "transform_raises"))
        if rows_f is not None:
            t = model_term(pt, rows_f, rows_r, tree_f, ref["tree"], r["rc"], struck=r.get("struck", True))
            if t is None:
                ctx.count("model_skipped_same_file_two_codemods")
            else:
                terms.append(t)
                meta.append(pt)
    if terms:
        bad_idx = core.eval_bad_indices(ctx, "c10_run", rc.IMPORTS, "hcase", terms, ["run_model_ok"], chunk=60)
        for i in bad_idx["run_model_ok"]:
            files, pair, kind, bad = meta[i]
            ctx.mismatch("faulty CLI run vs Model.Run.run (oracle values from the run without the bad file)",
                         f"{kind}@{bad} {list(pair)}: the model does not predict the faulty run",
                         {"project": core.b64tree(files), "pair": list(pair), "fault_kind": kind, "bad_file": bad, "case_term": terms[i]})

    # the regex pipeline: active branch of C10_isolation_regex vs the real class
    tv = ctx.tables or {}
    rg = tv.get("regex_apply_guards") or []
    probe = regex_pipeline_probe(ctx)
    ctx.count("regex_probe")
    ctx.notes.append(f"regex pipeline probe (real classes, undecodable b.txt between two good files): {probe}")
    has_tries = "TryParse" in rg and "TryTransform" in rg
    # MODEL vs implementation on the regex branch: b.txt cannot be decoded; the model (with the current guard table) predicts either
    # the aborted run or the isolated failure
    rb = {"a.txt": "hello world\n", "b.txt": "\xff\xfe hello\n", "c.txt": "hello again\n"}
    ra = {"a.txt": "goodbye world\n", "b.txt": "\xff\xfe hello\n", "c.txt": "goodbye again\n"}
    term = rc.probe_hcase("PRegex", rb, ra, ["b.txt"], {"changed": probe["changed"], "failed": probe["failed"], "raised": probe["raised"],
                                                        "tree": probe["files"]}, False)
    if core.eval_bad_indices(ctx, "c10_regex_probe", rc.IMPORTS, "hcase", [term], ["run_model_ok"])["run_model_ok"]:
        ctx.mismatch("regex pipeline probe vs Model.Run.run at PRegex", f"the model does not predict the probe: {probe}", {"probe": probe, "case_term": term})
    if probe["raised"]:
        if has_tries:
            ctx.mismatch("RegexTransformerPipeline.apply vs regex_apply_guards", f"tables say both try blocks are present but {probe['raised']} escaped", {"probe": probe})
        ctx.violation("kf_regex_no_isolation",
                      f"RegexTransformerPipeline: {probe['raised']} on an undecodable file escapes _process_file and aborts the codemod/run; "
                      f"failedFiles={probe['failed']}, change sets merged={probe['changed']} although the other files were rewritten",
                      {"probe": probe, "theorem": "C10_isolation_regex", "witness": "corpus/C10/regex_undecodable.json"})
    else:
        if not has_tries:
            ctx.mismatch("RegexTransformerPipeline.apply vs regex_apply_guards", "tables say a try block is missing but nothing escaped", {"probe": probe})
        if probe["failed"] != ["b.txt"] or probe["files"]["b.txt"] != "\xff\xfe hello\n":
            ctx.violation("kf_c10_regex_isolation", f"regex pipeline: bad file not isolated: {probe}", {"probe": probe})
    # the XML pipeline: C10_isolation_xml (the re-read of the file after the try block is not guarded)
    xg = tv.get("xml_apply_guards") or []
    xp = xml_pipeline_probe(ctx)
    ctx.count("xml_probe")
    ctx.notes.append(f"xml pipeline probe (real classes): {xp}")
    xml_tries = "TryParse" in xg and "TryTransform" in xg
    escaped = [n for n, r in xp.items() if r["raised"]]
    if escaped:
        if xml_tries:
            ctx.mismatch("XMLTransformerPipeline.apply vs xml_apply_guards", f"tables say every read/parse is guarded but {escaped} raised", {"xml_probe": xp})
        ctx.violation("kf_xml_reread_no_isolation",
                      f"XMLTransformerPipeline: {xp[escaped[0]]['raised']} on {escaped} escapes apply (the file is re-read with "
                      f".decode('utf-8') outside the try block after SAX parsed it); a malformed file is handled: {xp.get('broken.xml')}",
                      {"xml_probe": xp, "theorem": "C10_isolation_xml", "witness": "corpus/C10/xml_latin1.json"})
    else:
        if not xml_tries:
            ctx.mismatch("XMLTransformerPipeline.apply vs xml_apply_guards", "tables say a read is unguarded but nothing escaped", {"xml_probe": xp})
        for n in ("broken.xml", "latin.xml"):
            if xp[n]["changeset"] or not xp[n]["untouched"]:
                ctx.violation("kf_c10_xml_isolation", f"xml pipeline: {n} not isolated: {xp[n]}", {"xml_probe": xp})
    lg = tv.get("libcst_apply_guards") or []
    if not ("TryParse" in lg and "TryTransform" in lg):
        ctx.notes.append(f"C10_isolation is on its NEGATIVE branch for the current source: libcst_apply_guards = {lg}")
        if not ctx.violations:
            ctx.tie_broken.append("theorem C10_isolation: negative branch active (a try block is missing) and no fault point exercised it")


def replay(ctx, body):
    if "xml_probe" in body:
        print("xml pipeline probe now:", xml_pipeline_probe(ctx))
        print("recorded:", body["xml_probe"])
        return 0
    if "probe" in body:
        print("regex pipeline probe now:", regex_pipeline_probe(ctx))
        print("recorded:", body["probe"])
        return 0
    R = rc.Runner(ctx)
    files = {k: base64.b64decode(v).decode() for k, v in body["project"].items()}
    pt = (files, tuple(body["pair"]), body["fault_kind"], body["bad_file"])
    _, pair, kind, bad = pt
    ref_root = R.fresh_dir("ref")
    core.write_tree(ref_root, {p: c for p, c in files.items() if p != bad})
    root = R.fresh_dir("fault")
    proj = dict(files)
    if kind in CONTENT_FAULTS:
        proj[bad] = fault_content(kind, files, bad)
    core.write_tree(root, proj)
    _ISSUES[ref_root] = _ISSUES[root] = rc.sonar_issues(files)
    ref = R.run(ref_root, list(pair), sonar_args(ref_root, pair))
    r = run_cli_with_fault(R, root, pair, kind, bad)
    ok, rows_f, rows_r = compare(ctx, pt, r, ref, root, ref_root, core.read_tree(root), core.read_tree(ref_root))
    print("exit status:", r["rc"], "| isolation holds:", ok)
    for v in ctx.violations:
        print(" -", v["class"], v["what"])
    if r["rc"] != 0:
        print(r["stderr"][-1200:])
    return 0 if ok else 1
