class SetupPyWriter:
    def add_to_file(
        self, dependencies: list[Dependency], dry_run: bool = False
    ) -> Optional[ChangeSet]:
        input_tree = self._parse_file()
        wrapper = cst.MetadataWrapper(input_tree)
        file_context = FileContext(self.parent_directory, self.path, [], [], [])

        codemod = SetupPyAddDependencies(
            CodemodContext(wrapper=wrapper),
            file_context,
            dependencies=[dep.requirement for dep in dependencies],
            _transformer=True,
        )

        output_tree = codemod.transform_module(input_tree)
        if codemod.line_num_changed is None:
            return None

        diff = create_diff_from_tree(input_tree, output_tree)

        with open(self.path, "w", encoding="utf-8") as f:
            f.write(output_tree.code)

        changes = self.build_changes(
            dependencies, fixed_line_number_strategy, codemod.line_num_changed
        )
        return ChangeSet(
            path=str(self.path.relative_to(self.parent_directory)),
            diff=diff,
            changes=changes,
        )
    def _parse_file(self):
        with open(self.path, encoding="utf-8") as f:
            return cst.parse_module(f.read())
