(** Args.v — the argument-list algebra shared by the hardening codemods (C16, and the Args kernels of C07).

    Mirrors, as written (bugs included):
      codemodder/codemods/libcst_transformer.py : NewArg, replace_args, _match_with_existing_arg, make_new_arg,
                                                   add_arg_to_call, update_call_target, update_arg_target,
                                                   _new_or_updated_node (on_result_found(original_node, updated_node))
      codemodder/codemods/imported_call_modifier.py / import_modifier_codemod.py : callee swap on updated_node
      core_codemods/*.py : the on_result_found / leave_Call bodies of the hardening codemods (type [hkind]).

    Definitions only.  What is NOT modelled: name resolution (find_base_name, aliases: the resolved module prefix is a
    parameter of the kind), the detector (which calls are selected is the [mark] carried by each call), imports and
    dependencies, jwt-decode-verify's rewriting of the `options` dict, layout other than the two opaque tags below. *)
From CM Require Export Base.Str Base.Types_Args.
From Coq Require Strings.String.
Import String.StringSyntax.

Definition args_of (e : expr) : list arg := match e with ECall _ _ a => a | _ => [] end.
Definition func_of (e : expr) : expr := match e with ECall _ f _ => f | _ => e end.
(** node.with_changes(args=…) / with_changes(func=…) *)
Definition with_args (e : expr) (a : list arg) : expr := match e with ECall m f _ => ECall m f a | _ => e end.
Definition with_func (e : expr) (f : expr) : expr := match e with ECall m _ a => ECall m f a | _ => e end.
Definition set_value (a : arg) (v : expr) : arg := mkArg (kw a) (star a) (sp a) (lay a) v.
Definition set_kw (a : arg) (k : str) : arg := mkArg (Some k) (star a) (sp a) (lay a) (value a).

(** matchers.matches(arg.keyword, matchers.Name(arg_name)): false when the keyword is None (positional, *a, **k). *)
Definition kw_is (name : str) (a : arg) : bool :=
  match kw a with Some k => str_eqb k name | None => false end.

(** _match_with_existing_arg: index and entry of the FIRST NewArg whose name is the argument's keyword. *)
Fixpoint match_with_existing_arg (a : arg) (info : list newarg) : option (nat * newarg) :=
  match info with
  | [] => None
  | n :: r => if kw_is (na_name n) a then Some (O, n)
              else match match_with_existing_arg a r with Some (i, x) => Some (S i, x) | None => None end
  end.

(** del args_info[idx] *)
Fixpoint del_nth {A} (i : nat) (l : list A) : list A :=
  match l, i with
  | [], _ => []
  | _ :: r, O => r
  | x :: r, S j => x :: del_nth j r
  end.

(** make_new_arg(value, name=None, existing_arg=None): a positional argument when name is None; otherwise a keyword
    argument that takes the `=` token of the existing argument, and default star / comma / whitespace. *)
Definition make_new_arg (v : expr) (name : option str) (existing : option arg) : arg :=
  match name with
  | None => mkArg None 0 0 0 v
  | Some k => mkArg (Some k) 0 (match existing with Some a => sp a | None => 0 end) 0 v
  end.

(** The first loop of replace_args; returns the rebuilt arguments and what is left of args_info. *)
Fixpoint replace_loop (args : list arg) (info : list newarg) : list arg * list newarg :=
  match args with
  | [] => ([], info)
  | a :: r =>
      match match_with_existing_arg a info with
      | Some (i, n) =>
          let '(o, rest) := replace_loop r (del_nth i info) in
          (make_new_arg (na_value n) (Some (na_name n)) (Some a) :: o, rest)
      | None => let '(o, rest) := replace_loop r info in (a :: o, rest)
      end
  end.

Definition appended (rest : list newarg) : list arg :=
  List.map (fun n => make_new_arg (na_value n) (Some (na_name n)) None) (List.filter na_add rest).

(** replace_args(original_node, args_info) *)
Definition replace_args (args : list arg) (info : list newarg) : list arg :=
  let '(o, rest) := replace_loop args info in o ++ appended rest.

(** add_arg_to_call(node, name, value): list(node.args) + [Arg(keyword=name, value=parse(str(value)), equal="=")] *)
Definition add_arg (args : list arg) (name : str) (v : expr) : list arg :=
  args ++ [mkArg (Some name) 0 0 0 v].
Definition add_arg_to_call (node : expr) (name : str) (v : expr) : expr :=
  with_args node (add_arg (args_of node) name v).

(** utils.get_call_name: the attribute name or the simple name; other callee shapes make the implementation raise. *)
Definition call_name (e : expr) : option str :=
  match func_of e with EAttr _ a => Some a | EName s => Some s | _ => None end.

(** update_call_target(node, new_target, new_func=None, replacement_args=None):
    cst.Call(func=Attribute(parse(new_target), Name(new_func or get_call_name(node))),
             args=replacement_args if replacement_args else node.args)  — a fresh Call (mark false); an empty
    replacement list is falsy and falls back to node.args. *)
Definition update_call_target (node : expr) (target : expr) (new_func : option str) (repl : list arg) : expr :=
  let name := match new_func with
              | Some f => f
              | None => match call_name node with Some n => n | None => [] end
              end in
  ECall false (EAttr target name) (match repl with [] => args_of node | _ => repl end).

(** update_arg_target(updated_node, new_args) *)
Definition update_arg_target (u : expr) (new_args : list arg) : expr := with_args u new_args.

(** SecureCookieMixin._choose_new_args(original_node) *)
Definition is_samesite_strict (a : arg) : bool :=
  kw_is (S_ "samesite") a &&
  match value a with EConst s => str_eqb s (S_ "'Strict'") | _ => false end.
Definition choose_new_args (orig_args : list arg) : list newarg :=
  [mkNew (S_ "secure") (EName (S_ "True")) true; mkNew (S_ "httponly") (EName (S_ "True")) true]
  ++ (if existsb is_samesite_strict orig_args then []
      else [mkNew (S_ "samesite") (EConst (S_ "'Lax'")) true]).

(** "set parameter [name] (the parameter at position [pos]) to [v]": the argument that binds it gets the
    value, every other argument is kept; when nothing binds it, [name=v] is appended. *)
Definition is_plain_positional (a : arg) : bool :=
  match kw a with None => N.eqb (star a) 0 | Some _ => false end.
Fixpoint set_first_kw (name : str) (v : expr) (args : list arg) : option (list arg) :=
  match args with
  | [] => None
  | a :: r => if kw_is name a then Some (set_value a v :: r)
              else match set_first_kw name v r with Some r' => Some (a :: r') | None => None end
  end.
Definition set_param (name : str) (pos : nat) (v : expr) (args : list arg) : list arg :=
  match set_first_kw name v args with
  | Some r => r
  | None =>
      match nth_error args pos with
      | Some a => if is_plain_positional a && forallb is_plain_positional (firstn pos args)
                  then firstn pos args ++ set_value a v :: skipn (S pos) args
                  else args ++ [mkArg (Some name) 0 0 0 v]
      | None => args ++ [mkArg (Some name) 0 0 0 v]
      end
  end.

(** HardenPyyamlCallMixin.update_call on updated_node.args.
    PyyamlByIndex (pinned tree): [*args[:1], args[1].with_changes(value=SafeLoader) if len(args) > 1 else Arg(Loader=SafeLoader)].
    PyyamlByParameter (repaired): the Loader= keyword argument wherever it is, else the second argument when the first two
    are plain positionals, gets the value; otherwise Loader=SafeLoader is appended; every other argument is kept. *)
Definition pyyaml_args (v : pyyaml_variant) (args : list arg) (safe : expr) : list arg :=
  match v with
  | PyyamlByIndex =>
      firstn 1 args ++
      [match args with
       | _ :: a1 :: _ => set_value a1 safe
       | _ => mkArg (Some (S_ "Loader")) 0 0 0 safe
       end]
  | PyyamlByParameter => set_param (S_ "Loader") 1 safe args
  end.

(** HTTPSConnectionModifier.count_positional_args / updated_args *)
Fixpoint count_positional (l : list arg) : nat :=
  match l with
  | [] => O
  | a :: r => match kw a with Some _ => O | None => S (count_positional r) end
  end.
Fixpoint set_nth_kw (i : nat) (k : str) (l : list arg) : list arg :=
  match l, i with
  | [], _ => []
  | a :: r, O => set_kw a k :: r
  | a :: r, S j => a :: set_nth_kw j k r
  end.
Definition https_updated_args (args : list arg) : list arg :=
  if Nat.eqb (count_positional args) 10 then set_nth_kw 9 (S_ "_proxy_config") args else args.

(** utils.positional_to_keyword(args, pos_to_keyword): the i-th argument, when it has no keyword and the map names position i,
    gets that keyword.  None = an exception (IndexError past the end of the map; libcst's "Cannot specify a star and a keyword
    together" on `*a` / `**k`): the transformer raises and the file is left untouched.
    P2kCarriesOver: nothing is named from the first starred argument on, and positions past the map are left alone. *)
Fixpoint positional_to_keyword (v : p2k_variant) (seen_star : bool) (args : list arg) (m : list (option str)) : option (list arg) :=
  match args with
  | [] => Some []
  | a :: r =>
      let star_here := negb (N.eqb (star a) 0) in
      let seen := seen_star || star_here in
      let rest := positional_to_keyword v seen r (List.tl m) in
      let keep := match rest with Some r' => Some (a :: r') | None => None end in
      match kw a with
      | Some _ => keep
      | None =>
          match v with
          | P2kRaisesOnStar =>
              match m with
              | [] => None                                   (* pos_to_keyword[i]: IndexError *)
              | None :: _ => keep
              | Some k :: _ => if star_here then None        (* CSTValidationError *)
                               else match rest with Some r' => Some (set_kw a k :: r') | None => None end
              end
          | P2kCarriesOver =>
              match m with
              | Some k :: _ => if seen then keep else match rest with Some r' => Some (set_kw a k :: r') | None => None end
              | _ => keep
              end
          end
      end
  end.

(** The transformers.  Each constructor is one `on_result_found(original_node, updated_node)` / `leave_Call` body. *)
Inductive hkind :=
| HReplace (info : list newarg)   (* update_arg_target(updated_node, replace_args(original_node, info)):
                                     requests-verify, harden-ruamel, enable-jinja2-autoescape, safe-lxml-parser-defaults,
                                     safe-lxml-parsing, subprocess-shell-false, fix-math-isclose, jwt-decode-verify (verify=) *)
| HCookie                         (* secure-flask-cookie: info = _choose_new_args(original_node) *)
| HAddArg (name : str) (v : expr) (* add_arg_to_call(updated_node, …): add-requests-timeouts, django-json-response-type *)
| HSslTls (safe : expr)           (* upgrade-sslcontext-tls *)
| HPyyaml (v : pyyaml_variant) (safe : expr)  (* harden-pyyaml, call branch; safe = <module or alias>.SafeLoader *)
| HLimitReadline (lim : expr)     (* limit-readline: update_arg_target(updated_node, [Integer]) *)
| HSandbox                        (* sandbox-process-creation *)
| HTarget (target : expr)         (* secure-random: update_call_target(updated_node, target) *)
| HSwapCallee (target : expr) (name : str)  (* MappingImportedCallModifier: url-sandbox, use-defusedxml, harden-pickle-load *)
| HHttpsAttr                      (* https-connection, callee written a.HTTPConnectionPool *)
| HHttpsName                      (* https-connection, callee written HTTPConnectionPool *)
| HTzNow (module tz : expr)       (* timezone-aware-datetime, utcnow branch *)
| HTzFromTs (module tz : expr)    (* timezone-aware-datetime, utcfromtimestamp branch *)
| HSendFile (v : p2k_variant) (p0 p1 : expr) (m : list (option str)).
    (* replace-flask-send-file: flask.send_from_directory(p0, p1, *positional_to_keyword(original_node.args[1:], m));
       p0, p1 = the two arguments parameterize_path builds from the first one (not modelled: type inference, fresh name) *)

Definition ssl_protocol (safe : expr) : list newarg := [mkNew (S_ "protocol") safe true].
Definition tz_info (tz : expr) : list newarg := [mkNew (S_ "tz") tz true].

Definition on_result_found (k : hkind) (o u : expr) : expr :=
  match k with
  | HReplace info => update_arg_target u (replace_args (args_of o) info)
  | HCookie => update_arg_target u (replace_args (args_of o) (choose_new_args (args_of o)))
  | HAddArg name v => add_arg_to_call u name v
  | HSslTls safe =>
      match args_of o with
      | [a] => match kw a with
               | None => update_arg_target u [make_new_arg safe None None]
               | Some _ => update_arg_target u (replace_args (args_of o) (ssl_protocol safe))
               end
      | _ => update_arg_target u (replace_args (args_of o) (ssl_protocol safe))
      end
  | HPyyaml v safe => update_arg_target u (pyyaml_args v (args_of u) safe)
  | HLimitReadline lim => update_arg_target u [mkArg None 0 0 0 lim]
  | HSandbox =>
      update_call_target u (EName (S_ "safe_command")) (Some (S_ "run"))
                         (mkArg None 0 0 0 (func_of o) :: args_of o)
  | HTarget target => update_call_target u target None []
  | HSwapCallee target name => with_func (with_args u (args_of u)) (EAttr target name)
  | HHttpsAttr =>
      with_func (with_args u (https_updated_args (args_of u)))
                (match func_of u with EAttr v _ => EAttr v (S_ "HTTPSConnectionPool") | f => f end)
  | HHttpsName =>
      with_func (with_args u (https_updated_args (args_of u)))
                (EAttr (EName (S_ "urllib3")) (S_ "HTTPSConnectionPool"))
  | HTzNow module tz =>
      update_call_target u module (Some (S_ "now")) (replace_args (args_of o) (tz_info tz))
  | HTzFromTs module tz =>
      let new_args :=
        if negb (Nat.eqb (List.length (args_of o)) 2) && negb (existsb (kw_is (S_ "tz")) (args_of o))
        then replace_args (args_of o) (tz_info tz) else args_of o in
      update_call_target u module (Some (S_ "fromtimestamp")) new_args
  | HSendFile v p0 p1 m =>
      match positional_to_keyword v false (List.tl (args_of o)) m with
      | Some r => with_func (with_args u (mkArg None 0 0 0 p0 :: mkArg None 0 0 0 p1 :: r))
                            (EAttr (EName (S_ "flask")) (S_ "send_from_directory"))
      | None => u      (* the implementation raises here: see [raises] — the whole file is left untouched *)
      end
  end.

(** does the transformer raise on this selected call? (only replace-flask-send-file's positional_to_keyword can) *)
Definition call_raises (k : hkind) (o : expr) : bool :=
  match k with
  | HSendFile v _ _ m => match positional_to_keyword v false (List.tl (args_of o)) m with Some _ => false | None => true end
  | _ => false
  end.

(** What the code would do if it rebuilt from updated_node everywhere (the reading the property demands). *)
Definition on_result_found_upd (k : hkind) (u : expr) : expr := on_result_found k u u.

(** libcst's bottom-up traversal: children first (giving updated_node), then leave_Call(original_node, updated_node)
    = _new_or_updated_node: on_result_found(original_node, updated_node) when the ORIGINAL node is selected. *)
Fixpoint rw (k : hkind) (e : expr) : expr :=
  match e with
  | ECall m f args =>
      let u := ECall m (rw k f) (List.map (fun a => set_value a (rw k (value a))) args) in
      if m then on_result_found k e u else u
  | EAttr v a => EAttr (rw k v) a
  | _ => e
  end.
Fixpoint rw_upd (k : hkind) (e : expr) : expr :=
  match e with
  | ECall m f args =>
      let u := ECall m (rw_upd k f) (List.map (fun a => set_value a (rw_upd k (value a))) args) in
      if m then on_result_found_upd k u else u
  | EAttr v a => EAttr (rw_upd k v) a
  | _ => e
  end.

(** some selected call makes the transformer raise: the file is reported as failed and left untouched *)
Fixpoint raises (k : hkind) (e : expr) : bool :=
  match e with
  | ECall m f args => (m && call_raises k e) || raises k f || existsb (fun a => raises k (value a)) args
  | EAttr v _ => raises k v
  | _ => false
  end.

(** selected calls, and "no selected call below a selected call" *)
Fixpoint has_marked (e : expr) : bool :=
  match e with
  | ECall m f args => m || has_marked f || existsb (fun a => has_marked (value a)) args
  | EAttr v _ => has_marked v
  | _ => false
  end.
Fixpoint nonnested (e : expr) : bool :=
  match e with
  | ECall m f args =>
      (if m then negb (has_marked f || existsb (fun a => has_marked (value a)) args) else true)
      && nonnested f && forallb (fun a => nonnested (value a)) args
  | EAttr v _ => nonnested v
  | _ => true
  end.
Fixpoint nmarked (e : expr) : nat :=
  match e with
  | ECall m f args => (if m then 1 else 0) + nmarked f + list_sum (List.map (fun a => nmarked (value a)) args)
  | EAttr v _ => nmarked v
  | _ => O
  end.

(** Tokens: identifiers, attribute names, keywords, constants (what `ast.walk` sees). *)
Inductive tok := TId (s : str) | TAttr (s : str) | TKw (s : str) | TConst (s : str).
Fixpoint toks (e : expr) : list tok :=
  match e with
  | EName s => [TId s]
  | EAttr v a => toks v ++ [TAttr a]
  | EConst s => [TConst s]
  | ECall _ f args =>
      toks f ++ flat_map (fun a => match kw a with Some k => [TKw k] | None => [] end ++ toks (value a)) args
  end.
Definition toks_arg (a : arg) : list tok :=
  match kw a with Some k => [TKw k] | None => [] end ++ toks (value a).
Definition toks_args (l : list arg) : list tok := flat_map toks_arg l.

(** The documented delta of a NewArg list: its keywords and the tokens of its values. *)
Definition delta_info (info : list newarg) : list tok :=
  flat_map (fun n => TKw (na_name n) :: toks (na_value n)) info.

(** erase what `ast` cannot see (marks and the two layout tags) *)
Fixpoint erase (e : expr) : expr :=
  match e with
  | ECall _ f args => ECall false (erase f) (List.map (fun a => mkArg (kw a) (star a) 0 0 (erase (value a))) args)
  | EAttr v a => EAttr (erase v) a
  | _ => e
  end.

(** A detector used by the witnesses of the nested-call defect (requests-verify): calls that carry verify=False. *)
Fixpoint redetect_verify (e : expr) : expr :=
  match e with
  | ECall _ f args =>
      ECall (existsb (fun a => kw_is (S_ "verify") a &&
                               match value a with EName s => str_eqb s (S_ "False") | _ => false end) args)
            (redetect_verify f) (map (fun a => set_value a (redetect_verify (value a))) args)
  | EAttr v a => EAttr (redetect_verify v) a
  | _ => e
  end.
