from typing import Union

import libcst as cst

from codemodder.codemods.libcst_transformer import (
    LibcstResultTransformer,
    LibcstTransformerPipeline,
)
from codemodder.codemods.utils_mixin import NameResolutionMixin
from core_codemods.api import Metadata, Reference, ReviewGuidance
from core_codemods.api.core_codemod import CoreCodemod


class DjangoModelWithoutDunderStrTransformer(
    LibcstResultTransformer, NameResolutionMixin
):
    change_description = "Add `__str__` definition to `django` Model class."

    def leave_ClassDef(
        self, original_node: cst.ClassDef, updated_node: cst.ClassDef
    ) -> Union[
        cst.BaseStatement, cst.FlattenSentinel[cst.BaseStatement], cst.RemovalSentinel
    ]:

        # TODO: add filter by include or exclude that works for nodes
        # that that have different start/end numbers.
        if not any(
            self.find_base_name(base.value) == "django.db.models.Model"
            for base in original_node.bases
        ):
            return updated_node

        if self.implements_dunder_str(original_node):
            return updated_node

        self.report_change(original_node)

        new_body = updated_node.body.with_changes(
            body=[*updated_node.body.body, dunder_str_method()]
        )
        return updated_node.with_changes(body=new_body)

    def implements_dunder_str(self, original_node: cst.ClassDef) -> bool:
        """Check if a ClassDef or its bases implement `__str__`"""
        if self.class_has_method(original_node, "__str__"):
            return True

        for base in original_node.bases:
            if maybe_assignment := self.find_single_assignment(base.value):
                classdef = maybe_assignment.node
                if self.class_has_method(classdef, "__str__"):
                    return True
        return False


def dunder_str_method() -> cst.FunctionDef:
    self_body = cst.IndentedBlock(
        body=[
            cst.parse_statement("model_name = self.__class__.__name__"),
            cst.parse_statement(
                'fields_str = ", ".join((f"{field.name}={getattr(self, field.name)}" for field in self._meta.fields))'
            ),
            cst.parse_statement('return f"{model_name}({fields_str})"'),
        ]
    )
    return cst.FunctionDef(
        leading_lines=[cst.EmptyLine(indent=False)],
        name=cst.Name("__str__"),
        params=cst.Parameters(params=[cst.Param(name=cst.Name("self"))]),
        body=self_body,
    )


DjangoModelWithoutDunderStr = CoreCodemod(
    metadata=Metadata(
        name="django-model-without-dunder-str",
        summary="Ensure Django Model Classes Implement a `__str__` Method",
        review_guidance=ReviewGuidance.MERGE_AFTER_REVIEW,
        references=[
            Reference(
                url="https://docs.djangoproject.com/en/5.0/ref/models/instances/#django.db.models.Model.__str__"
            ),
        ],
    ),
    transformer=LibcstTransformerPipeline(DjangoModelWithoutDunderStrTransformer),
    detector=None,
)
