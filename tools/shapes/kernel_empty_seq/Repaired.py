import libcst as cst

from codemodder.codemods.utils_mixin import AncestorPatternsMixin, NameResolutionMixin
from core_codemods.api import Metadata, Reference, ReviewGuidance, SimpleCodemod


class FixEmptySequenceComparison(
    SimpleCodemod, NameResolutionMixin, AncestorPatternsMixin
):
    metadata = Metadata(
        name="fix-empty-sequence-comparison",
        summary="Replace Comparisons to Empty Sequence with Implicit Boolean Comparison",
        review_guidance=ReviewGuidance.MERGE_AFTER_REVIEW,
        references=[
            Reference(
                url="https://docs.python.org/3/library/stdtypes.html#truth-value-testing"
            ),
        ],
    )
    change_description = (
        "Replace comparisons to empty sequence with implicit boolean comparison."
    )

    def leave_Comparison(
        self, original_node: cst.Comparison, updated_node: cst.Comparison
    ):
        del updated_node
        if not self.filter_by_path_includes_or_excludes(
            self.node_position(original_node)
        ):
            return original_node

        maybe_parent = self.get_parent(original_node)

        match original_node:
            case cst.Comparison(
                left=left, comparisons=[cst.ComparisonTarget() as target]
            ):
                if isinstance(target.operator, cst.Equal | cst.NotEqual):
                    right = target.comparator
                    # right is empty: x == []
                    # left is empty: [] == x
                    if (
                        empty_left := self._is_empty_sequence(left)
                    ) or self._is_empty_sequence(right):
                        self.report_change(original_node)
                        comp_var = right if empty_left else left
                        match maybe_parent:
                            case cst.If() | cst.Assert():
                                return (
                                    comp_var
                                    if isinstance(target.operator, cst.NotEqual)
                                    else cst.UnaryOperation(
                                        operator=cst.Not(),
                                        expression=comp_var,
                                        lpar=original_node.lpar,
                                        rpar=original_node.rpar,
                                    )
                                )
                            case _:
                                return (
                                    cst.parse_expression(f"bool({comp_var.value})")
                                    if isinstance(target.operator, cst.NotEqual)
                                    else cst.UnaryOperation(
                                        operator=cst.Not(),
                                        expression=comp_var,
                                        lpar=original_node.lpar,
                                        rpar=original_node.rpar,
                                    )
                                )

        return original_node

    def _is_empty_sequence(self, node: cst.BaseExpression):
        match node:
            case cst.List(elements=[]) | cst.Dict(elements=[]) | cst.Tuple(elements=[]):
                return True
        return False
