"""bin/check <Cxx> <quick|thorough> | bin/check setup | bin/check replay <file>"""
from __future__ import annotations

import importlib
import json
import os
import sys
import time
import traceback

from harness import core

import logging
logging.disable(logging.CRITICAL)   # the implementation's own log output is not part of any observation


def setup() -> int:
    t = time.time()
    info = core.build(clean=True, timeout=3000)
    print(f"setup: translator rc={info['translator_rc']} make_ok={info['make_ok']} in {round(time.time() - t)}s")
    if info["gate"]:
        print("setup: gate:", info["gate"])
    if not info["make_ok"]:
        print(info["log_tail"])
        # a broken proof is reported by the checks themselves; setup only fails if nothing could be built
        return 0 if core.vo_ok("Base/Str.v") else 1
    return 0


def check(prop: str, tier: str) -> int:
    seed = int(os.environ.get("VERIF_SEED", "0") or 0)
    tier = os.environ.get("VERIF_TIER", tier) if tier not in ("quick", "thorough") else tier
    ctx = core.Ctx(prop, tier, seed)
    try:
        # temporary files of the implementation (it leaves one rule file per semgrep-detected codemod and run behind) and of
        # every subprocess go under the check's scratch directory, which is removed at exit, instead of piling up in /tmp
        import tempfile
        tmpd = ctx.scratch / "tmp"
        tmpd.mkdir(exist_ok=True)
        os.environ["TMPDIR"] = str(tmpd)
        tempfile.tempdir = str(tmpd)
        mod = importlib.import_module(f"harness.{prop.lower()}")
        ctx.build = core.build()
        ctx.tables = ctx.build.get("tables", {}).get("values", {})
        ctx.audit = core.audit(ctx)
        if tier == "thorough" and core.vo_ok(f"Properties/{prop}.v"):
            ctx.coqchk = core.coqchk(prop)
        # a broken tie or proof widens the search for a failing input
        ctx.deep = (not ctx.build["make_ok"]) or any(prop in u.get("props", []) for u in ctx.build["unrecognised"]) \
            or not ctx.audit.get("ok", False)
        try:
            mod.run(ctx)
        except Exception as exc:
            # An exception that comes out of the IMPLEMENTATION (a frame under REPO/src) while the harness drives it on an
            # input of its own is an observation, not a harness error: on the unchanged tree no check raises.
            import traceback as _tb
            frames = _tb.extract_tb(exc.__traceback__)
            impl = [f for f in frames if str(core.REPO / "src") in f.filename]
            if not impl:
                raise
            where = impl[-1]
            ctx.violation(f"impl_exception:{type(exc).__name__}@{where.name}",
                          f"the implementation raised {type(exc).__name__}: {exc} in {where.filename.replace(str(core.REPO), '')}:{where.lineno} "
                          f"({where.name}) while the harness was driving it; the remaining stages of this check did not run",
                          {"exception": repr(exc), "traceback": _tb.format_exc()[-4000:],
                           "harness_frame": next((f"{f.filename}:{f.lineno} {f.name}" for f in reversed(frames) if "/harness/" in f.filename), None)})
        meta = getattr(mod, "META", {})
        return core.finish(ctx, extra_trusted=meta.get("trusted", []), assumptions=meta.get("assumptions", []),
                           explanation=meta.get("rule", ""))
    except Exception:
        traceback.print_exc()
        print(f"[{prop}] harness error (not a verdict)")
        return 2
    finally:
        ctx.cleanup()


def replay(path: str) -> int:
    body = json.load(open(path))
    prop = body["property"]
    mod = importlib.import_module(f"harness.{prop.lower()}")
    ctx = core.Ctx(prop, "quick", int(body.get("seed", 0)))
    try:
        if not hasattr(mod, "replay"):
            print("no replay function for", prop)
            return 2
        return mod.replay(ctx, body)
    finally:
        ctx.cleanup()


def main():
    if len(sys.argv) < 2:
        print(__doc__)
        return 2
    if sys.argv[1] == "setup":
        return setup()
    if sys.argv[1] == "setup-incremental":
        info = core.build()
        return 0 if info["make_ok"] else 1
    if sys.argv[1] == "replay":
        return replay(sys.argv[2])
    return check(sys.argv[1], sys.argv[2] if len(sys.argv) > 2 else "quick")


if __name__ == "__main__":
    sys.exit(main())
