(** Checkers of the C17 correspondence: the harness supplies the registry, the argument lists and the observed sequence
    of codemod ids; [*_model_ok] compares with the model instantiated at the generated table values, [*_spec_ok] with
    the reference selection. *)
From CM Require Import Harness.RunBase Model.Select Spec.SelectSpec Generated.Tables.

Definition table_variant : select_variant :=
  {| v_include_matcher := include_matcher; v_include_dedup := include_dedup; v_exclude_matcher := exclude_matcher |}.

Definition ids_eqb : list str -> list str -> bool := list_eqb str_eqb.

(** in-process call: registry, include, exclude, bool(sast_only), observed ids *)
Definition sel_case := (list codemod * list str * list str * bool * list str)%type.
Definition sel_model_ok (c : sel_case) : bool :=
  let '(reg, incl, excl, sast, obs) := c in
  ids_eqb (ids (match_codemods_model table_variant default_excluded_codemods reg incl excl sast)) obs.
Definition sel_spec_ok (c : sel_case) : bool :=
  let '(reg, incl, excl, sast, obs) := c in
  ids_eqb (ids (select_ref default_excluded_codemods reg incl excl sast)) obs.
(** the value the spec expects, for replay files *)
Definition sel_expected (c : sel_case) : list str :=
  let '(reg, incl, excl, sast, obs) := c in ids (select_ref default_excluded_codemods reg incl excl sast).

(** end-to-end run: registry, include, exclude, the tool-file argument lists (dest, values), observed ids *)
Definition e2e_case := (list codemod * list str * list str * arglists * list str)%type.
Definition e2e_model_ok (c : e2e_case) : bool :=
  let '(reg, incl, excl, args, obs) := c in
  ids_eqb (ids (match_codemods_model table_variant default_excluded_codemods reg incl excl (sast_only_of sast_only_sources args))) obs.
Definition e2e_spec_ok (c : e2e_case) : bool :=
  let '(reg, incl, excl, args, obs) := c in
  ids_eqb (ids (select_ref default_excluded_codemods reg incl excl (tool_files_supplied args))) obs.
Definition e2e_expected (c : e2e_case) : list str :=
  let '(reg, incl, excl, args, obs) := c in ids (select_ref default_excluded_codemods reg incl excl (tool_files_supplied args)).

(** the matchers alone: pattern (raw name), id, observed bool of the implementation's compiled pattern *)
Definition match_case := (str * str * bool)%type.
Definition match_full_ok (c : match_case) : bool :=
  let '(name, s, obs) := c in Bool.eqb (glob_full (parse_pat name) s) obs.
Definition match_prefix_ok (c : match_case) : bool :=
  let '(name, s, obs) := c in Bool.eqb (glob_prefix (parse_pat name) s) obs.
Definition match_ref_ok (c : match_case) : bool :=
  let '(name, s, obs) := c in Bool.eqb (ref_match (parse_pat name) s) obs.
