from codemodder.codemods.libcst_transformer import (
    LibcstResultTransformer,
    LibcstTransformerPipeline,
)
from codemodder.codemods.semgrep import SemgrepRuleDetector
from core_codemods.api import CoreCodemod, Metadata, Reference, ReviewGuidance


class TransformAddRequestsTimeouts(LibcstResultTransformer):
    # Sets an arbitrary default timeout for all requests
    DEFAULT_TIMEOUT = 60

    change_description = "Add timeout to `requests` call"

    def on_result_found(self, original_node, updated_node):
        del original_node
        return self.add_arg_to_call(updated_node, "timeout", self.DEFAULT_TIMEOUT)


# This codemod uses the lower level codemod and transformer APIs for the sake of example.
AddRequestsTimeouts = CoreCodemod(
    metadata=Metadata(
        name="add-requests-timeouts",
        summary="Add timeout to `requests` calls",
        review_guidance=ReviewGuidance.MERGE_AFTER_CURSORY_REVIEW,
        references=[
            Reference(
                url="https://docs.python-requests.org/en/master/user/quickstart/#timeouts"
            ),
        ],
    ),
    detector=SemgrepRuleDetector(
        """
        - patterns:
            - pattern-inside: |
                import requests
                ...
            - pattern: requests.$CALL(...)
            - pattern-not: requests.$CALL(..., timeout=$TIMEOUT, ...)
            - metavariable-pattern:
                metavariable: $CALL
                patterns:
                  - pattern-either:
                    - pattern: get
                    - pattern: post
                    - pattern: put
                    - pattern: delete
                    - pattern: head
                    - pattern: options
                    - pattern: patch
                    - pattern: request
        """
    ),
    transformer=LibcstTransformerPipeline(TransformAddRequestsTimeouts),
)
