(** Types of the table values that tools/fragments_sched.py extracts for the scheduling model (C11). *)
From CM Require Export Base.Str Base.TableTypes.

(** base_codemod._apply: the argument list of [ThreadPoolExecutor(...)].
    [pool_size_arg : option pool_arg]; [None] = [ThreadPoolExecutor()] (the library default min(32, cpu+4)). *)
Inductive pool_arg :=
| MaxWorkersArg.     (* max_workers=context.max_workers, possibly wrapped in int(...) *)

(** base_codemod._apply: how the per-file results reach [context.process_results]. *)
Inductive collect_form :=
| MapInputOrder      (* contexts = executor.map(process_file, files); process_results(contexts) after the with block *)
| CompletionOrder.   (* results taken in the order the futures complete (as_completed) *)


(** code_directory.match_files: order of the returned paths. *)
Inductive order_form :=
| SortedPaths        (* sorted(list(included - excluded)) *)
| SetOrder.          (* list(included - excluded): iteration order of a set of str, chosen by the hash seed *)

(** base_codemod._process_file and the pipelines' apply methods: where per-file state lives. *)
Inductive locality_form :=
| TaskLocal          (* locals, one fresh FileContext / transformer instance per file; nothing stored on shared objects *)
| SharedScratch.     (* per-file state kept on an object shared by the worker threads *)
