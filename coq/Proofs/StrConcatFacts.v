(** str-concat-in-sequence-literals (Model/Rewrites.v: [flatten_elements], [str_concat_step], [rw_str_concat]):
    whole-tree names / well-formedness, idempotence of the repaired form, refutation of the pinned form, and the
    (intended) change of meaning. *)
From CM Require Import Model.MiniPy Model.PySem Model.Rewrites Spec.RewritesSpec Proofs.PySemFacts Proofs.RewriteFacts
  Proofs.WholeTree Proofs.TdIdem Proofs.LiftKernels Proofs.MiniPyFacts Proofs.RewriteSound Proofs.C08Lemmas.
From Coq Require Import String.

Definition is_juxt_str (a : expr) : bool := match a with EJuxt _ (EConst (CStr _)) => true | _ => false end.
Lemma flatten_element_other a : is_juxt_str a = false -> flatten_element a = [a].
Proof. destruct a as [| | | | | | | | | | | | | |n a]; try reflexivity. destruct a as [|c| | | | | | | | | | | | |]; try reflexivity. destruct c; try reflexivity. discriminate. Qed.
Lemma copies_spec (c : expr) n : Forall (fun x => x = c) (N.iter n (fun l => c :: l) [c; c]).
Proof.
  apply N.iter_invariant; [|repeat constructor]. intros l H. constructor; [reflexivity|exact H].
Qed.
Lemma flatten_element_juxt n s : Forall (fun x => x = EConst (CStr s)) (flatten_element (EJuxt n (EConst (CStr s)))).
Proof. apply copies_spec. Qed.
(** every element produced by flattening is either an original element that is not a concatenation, or a string literal *)
Lemma flatten_elements_spec es :
  Forall (fun x => is_juxt_str x = false /\ (List.In x es \/ is_strlit x = true)) (flatten_elements es).
Proof.
  induction es as [|a t IH]; [constructor|]. unfold flatten_elements. cbn [flat_map]. apply Forall_app. split.
  - destruct (is_juxt_str a) eqn:J.
    + destruct a as [| | | | | | | | | | | | | |n a]; try discriminate J. destruct a as [|c| | | | | | | | | | | | |]; try discriminate J. destruct c; try discriminate J.
      eapply Forall_impl; [|apply flatten_element_juxt]. intros x ->. split; [reflexivity|right; reflexivity].
    + rewrite (flatten_element_other a J). constructor; [|constructor]. split; [exact J|left; left; reflexivity].
  - eapply Forall_impl; [|exact IH]. intros x [H1 [H2|H2]]; split; auto. left. right. exact H2.
Qed.
Lemma flatten_no_juxt es : Forall (fun x => is_juxt_str x = false) es -> flatten_elements es = es.
Proof.
  induction 1 as [|a t Ha _ IH]; [reflexivity|]. unfold flatten_elements in *. cbn [flat_map]. rewrite (flatten_element_other a Ha), IH. reflexivity.
Qed.
Lemma flatten_idem es : flatten_elements (flatten_elements es) = flatten_elements es.
Proof. apply flatten_no_juxt. eapply Forall_impl; [|apply flatten_elements_spec]. intros x [H _]. exact H. Qed.

(** * names and syntax, whole tree, both source forms *)
Lemma names_flatten es : incl_str (flat_map names (flatten_elements es)) (flat_map names es).
Proof.
  induction es as [|a t IH]; [intros y []|]. unfold flatten_elements in *. cbn [flat_map]. rewrite flat_map_app. intros y Hy.
  apply in_app_or in Hy as [Hy|Hy]; apply in_or_app; [left|right; apply IH, Hy].
  destruct (is_juxt_str a) eqn:J.
  - destruct a as [| | | | | | | | | | | | | |n a]; try discriminate J. destruct a as [|c| | | | | | | | | | | | |]; try discriminate J. destruct c; try discriminate J.
    exfalso. pose proof (flatten_element_juxt n s) as HF. revert Hy. generalize (flatten_element (EJuxt n (EConst (CStr s)))) HF.
    induction 1 as [|x l -> _ IHl]; cbn; [tauto|exact IHl].
  - rewrite (flatten_element_other a J) in Hy. cbn in Hy. rewrite app_nil_r in Hy. exact Hy.
Qed.
Lemma str_concat_step_Rn n : Rn builtin_names (str_concat_step n) n.
Proof.
  destruct n; try apply Rn_refl; (split; [|intros [H|H]; discriminate H]); cbn [str_concat_step names]; rewrite !nms_fix;
    intros y Hy; apply in_or_app; left; apply names_flatten, Hy.
Qed.
Lemma wf_all_flatten es : wf_all es = true -> ops_all es = true ->
  wf_all (flatten_elements es) = true /\ ops_all (flatten_elements es) = true.
Proof.
  induction es as [|a t IH]; [auto|]. rewrite wf_all_cons. cbn [ops_all forallb]. rewrite !andb_true_iff. intros [[W G] Wt] [O Ot].
  destruct (IH Wt Ot) as [I1 I2]. unfold flatten_elements in *. cbn [flat_map].
  destruct (is_juxt_str a) eqn:J.
  - destruct a as [| | | | | | | | | | | | | |n a]; try discriminate J. destruct a as [|c| | | | | | | | | | | | |]; try discriminate J. destruct c; try discriminate J.
    pose proof (flatten_element_juxt n s) as HF. revert HF. generalize (flatten_element (EJuxt n (EConst (CStr s)))).
    induction 1 as [|x l -> _ IHl]; [split; assumption|]. destruct IHl as [A B]. cbn [app]. rewrite wf_all_cons. cbn [ops_all forallb ops_closed].
    cbn in W. apply andb_true_iff in W as [W _]. unfold ops_all in B. rewrite A, B. cbn [wf gen_par]. rewrite W. split; reflexivity.
  - rewrite (flatten_element_other a J). cbn [app]. rewrite wf_all_cons. cbn [ops_all forallb]. unfold ops_all in I2. rewrite W, G, O, I1, I2. split; reflexivity.
Qed.
Lemma str_concat_step_Rw n : Rw (str_concat_step n) n.
Proof.
  destruct n; try apply Rw_refl; repeat split; auto; try discriminate; cbn [str_concat_step];
    intros W; apply wfc_split in W as [W O]; apply wfc_split; rewrite ?wf_ETuple, ?wf_EList, ?wf_ESet in *;
    cbn [ops_closed] in *; rewrite ?ops_all_fix in *.
  - exact (wf_all_flatten es W O).
  - exact (wf_all_flatten es W O).
  - destruct es as [|a t]; [discriminate W|]. destruct (wf_all_flatten (a :: t) W O) as [A B].
    destruct (flatten_elements (a :: t)) eqn:E; [|split; assumption].
    (* flattening never empties a display *)
    exfalso. unfold flatten_elements in E. cbn [flat_map] in E. apply app_eq_nil in E as [E _].
    destruct (is_juxt_str a) eqn:J; [|rewrite (flatten_element_other a J) in E; discriminate E].
    destruct a as [| | | | | | | | | | | | | |n a]; try discriminate J. destruct a as [|c| | | | | | | | | | | | |]; try discriminate J. destruct c; try discriminate J.
    cbn [flatten_element] in E. revert E. apply N.iter_invariant; [intros l _ H; discriminate H|discriminate].
Qed.
Lemma str_concat_f_some n e' : str_concat_f n = Some e' -> e' = str_concat_step n.
Proof. destruct n; try discriminate; intros H; injection H as <-; reflexivity. Qed.
Theorem str_concat_names cfg e : incl_str (names (rw_str_concat cfg e)) (names e ++ builtin_names).
Proof.
  unfold rw_str_concat. destruct (sc_updated cfg).
  - apply (bu_Rn builtin_names str_concat_step str_concat_step_Rn e).
  - apply (td_Rn builtin_names str_concat_f). intros n e' F. rewrite (str_concat_f_some n e' F). apply str_concat_step_Rn.
Qed.
Theorem str_concat_wfc cfg e : wfc e = true -> wfc (rw_str_concat cfg e) = true.
Proof.
  unfold rw_str_concat. destruct (sc_updated cfg).
  - apply (bu_Rw str_concat_step str_concat_step_Rw e).
  - apply (td_Rw str_concat_f). intros n e' F. rewrite (str_concat_f_some n e' F). apply str_concat_step_Rw.
Qed.

(** * idempotence of the repaired form (elements of the updated node) *)
Lemma rebuild_fixed g e : Forall (fun c => g c = c) (children e) -> rebuild g e = e.
Proof. intros H. rewrite <- (rebuild_id e) at 2. apply rebuild_ext, H. Qed.
Lemma map_fixed (g : expr -> expr) l : Forall (fun c => g c = c) l -> map g l = l.
Proof. induction 1 as [|a t H _ IH]; cbn; [reflexivity|]. rewrite H, IH. reflexivity. Qed.
(** a display whose elements are already normal: flattening it gives a normal display *)
Lemma step_display_normal es :
  Forall (fun c => bu str_concat_step c = c) es ->
  map (bu str_concat_step) (flatten_elements es) = flatten_elements es.
Proof.
  intros H. apply map_fixed. eapply Forall_impl; [|apply flatten_elements_spec]. intros x [_ [Hin|Hs]].
  - rewrite Forall_forall in H. apply H, Hin.
  - destruct x; try discriminate Hs. reflexivity.
Qed.
Lemma display_twice es : Forall (fun c => bu str_concat_step (bu str_concat_step c) = bu str_concat_step c) es ->
  flatten_elements (map (bu str_concat_step) (flatten_elements (map (bu str_concat_step) es))) = flatten_elements (map (bu str_concat_step) es).
Proof.
  intros H. rewrite step_display_normal; [apply flatten_idem|].
  apply Forall_forall. intros x Hx. apply in_map_iff in Hx as [c [<- Hc]]. rewrite Forall_forall in H. apply H, Hc.
Qed.
Definition is_display (e : expr) : bool := match e with ETuple _ | EList _ | ESet _ => true | _ => false end.
Lemma step_other n : is_display n = false -> str_concat_step n = n.
Proof. destruct n; try reflexivity; discriminate. Qed.
Lemma is_display_rebuild g e : is_display (rebuild g e) = is_display e.
Proof. destruct e; reflexivity. Qed.
Lemma other_twice e : is_display e = false ->
  Forall (fun c => bu str_concat_step (bu str_concat_step c) = bu str_concat_step c) (children e) ->
  bu str_concat_step (bu str_concat_step e) = bu str_concat_step e.
Proof.
  intros D H. rewrite (bu_unfold str_concat_step e), (step_other _ (eq_trans (is_display_rebuild _ e) D)).
  rewrite bu_unfold, (step_other _ (eq_trans (is_display_rebuild _ _) (eq_trans (is_display_rebuild _ e) D))).
  rewrite rebuild_rebuild. apply rebuild_ext, H.
Qed.
Theorem str_concat_idempotent : forall e, bu str_concat_step (bu str_concat_step e) = bu str_concat_step e.
Proof.
  induction e using expr_ind'; try (apply other_twice; [reflexivity|]; apply (children_Forall (fun c => bu str_concat_step (bu str_concat_step c) = bu str_concat_step c)); auto).
  - cbn [bu str_concat_step]. rewrite (display_twice es H). reflexivity.
  - cbn [bu str_concat_step]. rewrite (display_twice es H). reflexivity.
  - cbn [bu str_concat_step]. rewrite (display_twice es H). reflexivity.
Qed.

(** the pinned form worked on the ORIGINAL elements, so a display nested in a display was never reached (not even by a second
    run): [["a" "a"], "b" "b"] -> [["a" "a"], "b", "b"]; the repaired form gives [["a", "a"], "b", "b"] *)
Definition jx (x : string) : expr := EJuxt 0 (EConst (CStr (lit x))).
Definition w_sc_nested : expr := EList [EList [jx "a"]; jx "b"].
Lemma str_concat_pinned_misses_nested :
  wf w_sc_nested = true /\
  rw_str_concat pinned_str_concat w_sc_nested = EList [EList [jx "a"]; EConst (CStr (lit "b")); EConst (CStr (lit "b"))] /\
  rw_str_concat pinned_str_concat (rw_str_concat pinned_str_concat w_sc_nested) = rw_str_concat pinned_str_concat w_sc_nested /\
  rw_str_concat repaired_str_concat w_sc_nested
  = EList [EList [EConst (CStr (lit "a")); EConst (CStr (lit "a"))]; EConst (CStr (lit "b")); EConst (CStr (lit "b"))].
Proof. vm_compute. repeat split. Qed.

(** the codemod changes what the display means, on purpose: ["x" "x", "y"] is ["xx", "y"], its rewrite ["x", "x", "y"] *)
Definition w_sc_meaning : expr := EList [jx "x"; EConst (CStr (lit "y"))].
Lemma str_concat_changes_meaning cfg :
  wf w_sc_meaning = true /\ meaning [] (rw_str_concat cfg w_sc_meaning) <> meaning [] w_sc_meaning /\
  meaning [] w_sc_meaning = Val (VList [VStr (lit "xx"); VStr (lit "y")]).
Proof. destruct cfg as [[]]; vm_compute; (split; [reflexivity|split; [discriminate|reflexivity]]). Qed.
