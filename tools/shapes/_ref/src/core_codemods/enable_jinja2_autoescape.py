from codemodder.codemods.libcst_transformer import (
    LibcstResultTransformer,
    LibcstTransformerPipeline,
    NewArg,
)
from codemodder.codemods.semgrep import SemgrepRuleDetector
from core_codemods.api import CoreCodemod, Metadata, Reference, ReviewGuidance


class EnableJinja2AutoescapeTransformer(LibcstResultTransformer):
    change_description = (
        "Sets the `autoescape` parameter in jinja2.Environment to `True`."
    )

    def on_result_found(self, original_node, updated_node):
        new_args = self.replace_args(
            original_node,
            [NewArg(name="autoescape", value="True", add_if_missing=True)],
        )
        return self.update_arg_target(updated_node, new_args)


EnableJinja2Autoescape = CoreCodemod(
    metadata=Metadata(
        name="enable-jinja2-autoescape",
        summary="Enable Jinja2 Autoescape",
        review_guidance=ReviewGuidance.MERGE_AFTER_REVIEW,
        references=[
            Reference(url="https://owasp.org/www-community/attacks/xss/"),
            Reference(
                url="https://jinja.palletsprojects.com/en/3.1.x/api/#autoescaping"
            ),
        ],
    ),
    detector=SemgrepRuleDetector(
        """
            rules:
              - pattern-either:
                - patterns:
                  - pattern: jinja2.Environment(...)
                  - pattern-not: jinja2.Environment(..., autoescape=True, ...)
                  - pattern-not: jinja2.Environment(..., autoescape=jinja2.select_autoescape(...), ...)
                  # Exclude cases where the arguments can't be precisely determined
                  - pattern-not: jinja2.Environment(**$KWARGS)
                  - pattern-inside: |
                      import jinja2
                      ...
                - patterns:
                  - pattern: aiohttp_jinja2.setup(..., autoescape=False, ...)
                  - pattern-inside: |
                      import aiohttp_jinja2
                      ...
        """
    ),
    transformer=LibcstTransformerPipeline(EnableJinja2AutoescapeTransformer),
)
