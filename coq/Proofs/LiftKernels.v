(** Lifting + kernel, composed: the oracles T / code of the orchestration model (Model/Run.v) are instantiated with
    MiniPy kernels (Model/Rewrites.v: use-set-literal, use-generator), so that the lifting lemmas of Proofs/RunLift.v and
    the kernel lemmas give ONE statement about a run.  The parser stays an abstract function with explicit contracts
    (there is no MiniPy parser in this development): it yields grammatical trees, and printing a grammatical tree gives
    text that parses. *)
From CM Require Import Base.Str Model.MiniPy Model.Rewrites Proofs.RewriteFacts.
From CM Require Import Base.Dict Model.Run Spec.RunSpec Proofs.RunFacts Proofs.RunSteps Proofs.RunLift Generated.Tables.

(** * Kernel: use-set-literal preserves well-formedness on EVERY expression (not only at the root site) *)
Definition wf_all (es : list expr) : bool :=
  (fix all (es : list expr) : bool := match es with [] => true | a :: t => wf a && gen_par a && all t end) es.
Definition wf_args (args : list expr) : bool := match args with [a] => wf a | _ => wf_all args end.
Definition wf_rest (rs : list (cmpop * expr)) : bool :=
  (fix go (rs : list (cmpop * expr)) : bool :=
     match rs with [] => true | (_, b) :: t => wf b && gen_par b && negb (starts_with_not b) && go t end) rs.

Lemma wf_ECall f args : wf (ECall f args) = wf_args args. Proof. reflexivity. Qed.
Lemma wf_EMeth r m args : wf (EMeth r m args) = wf_args args. Proof. reflexivity. Qed.
Lemma wf_ETuple es : wf (ETuple es) = wf_all es. Proof. reflexivity. Qed.
Lemma wf_EList es : wf (EList es) = wf_all es. Proof. reflexivity. Qed.
Lemma wf_ESet es : wf (ESet es) = match es with [] => false | _ => wf_all es end. Proof. reflexivity. Qed.
Lemma wf_ECmp p l rest : wf (ECmp p l rest) = wf l && gen_par l && match rest with [] => false | _ => true end && wf_rest rest.
Proof. reflexivity. Qed.
Lemma wf_all_cons a t : wf_all (a :: t) = wf a && gen_par a && wf_all t. Proof. reflexivity. Qed.
Lemma wf_rest_cons c b t : wf_rest ((c, b) :: t) = wf b && gen_par b && negb (starts_with_not b) && wf_rest t. Proof. reflexivity. Qed.

Lemma wf_EBool p o l r : wf (EBool p o l r) = wf l && gen_par l && wf r && gen_par r. Proof. reflexivity. Qed.
Lemma wf_ENot p a : wf (ENot p a) = wf a && gen_par a. Proof. reflexivity. Qed.
Lemma wf_EListComp elt x it : wf (EListComp elt x it) = wf elt && gen_par elt && wf it && gen_par it. Proof. reflexivity. Qed.
Lemma wf_EGen p elt x it : wf (EGen p elt x it) = wf elt && gen_par elt && wf it && gen_par it. Proof. reflexivity. Qed.
Lemma wf_EFloorDiv l r : wf (EFloorDiv l r) = wf l && gen_par l && wf r && gen_par r && negb (starts_with_not r). Proof. reflexivity. Qed.

Definition good (e : expr) : Prop :=
  gen_par (rw_set_literal e) = gen_par e /\ starts_with_not (rw_set_literal e) = starts_with_not e /\
  (wf e = true -> wf (rw_set_literal e) = true).

Lemma wf_all_map es : Forall good es -> wf_all es = true -> wf_all (map rw_set_literal es) = true.
Proof.
  induction 1 as [|a t [Hg [_ Hw]] _ IH]; [reflexivity|]. cbn [map]. rewrite !wf_all_cons, Hg.
  rewrite !andb_true_iff. intros [[H1 H2] H3]. auto.
Qed.
Lemma wf_args_map es : Forall good es -> wf_args es = true -> wf_args (map rw_set_literal es) = true.
Proof.
  intros HF. destruct es as [|a [|b t]]; [reflexivity| |].
  - inversion HF as [|? ? [_ [_ Hw]] _]; subst. exact Hw.
  - intros H. apply (wf_all_map _ HF H).
Qed.
Lemma wf_rest_map rs : Forall (fun cb => good (snd cb)) rs -> wf_rest rs = true ->
  wf_rest (map (fun cb => (fst cb, rw_set_literal (snd cb))) rs) = true.
Proof.
  induction 1 as [|[c b] t [Hg [Hs Hw]] _ IH]; [reflexivity|]. cbn [map fst snd]. simpl in Hg, Hs, Hw.
  rewrite !wf_rest_cons, Hg, Hs. rewrite !andb_true_iff. intros [[[H1 H2] H3] H4]. auto.
Qed.

Lemma rw_set_literal_good : forall e, good e.
Proof.
  fix IH 1. intros e.
  assert (HL : forall es : list expr, Forall good es).
  { clear e. fix IHl 1. intros [|a t]; constructor; [apply IH|apply IHl]. }
  assert (HR : forall rs : list (cmpop * expr), Forall (fun cb => good (snd cb)) rs).
  { clear e. fix IHr 1. intros [|[c b] t]; constructor; [apply IH|apply IHr]. }
  destruct e; unfold good.
  - repeat split; auto.
  - repeat split; auto.
  - repeat split; auto.
  - cbn [rw_set_literal]. repeat split; auto. rewrite !wf_ETuple. apply wf_all_map, HL.
  - cbn [rw_set_literal]. repeat split; auto. rewrite !wf_EList. apply wf_all_map, HL.
  - cbn [rw_set_literal]. repeat split; auto. rewrite !wf_ESet. destruct es as [|a t]; [discriminate|].
    intros H. apply (wf_all_map (a :: t) (HL _)) in H. exact H.
  - cbn [rw_set_literal]. repeat split; auto. rewrite !wf_EMeth. apply wf_args_map, HL.
  - (* ECall *)
    assert (Hgen : gen_par (ECall f (map rw_set_literal args)) = gen_par (ECall f args) /\
                   starts_with_not (ECall f (map rw_set_literal args)) = starts_with_not (ECall f args) /\
                   (wf (ECall f args) = true -> wf (ECall f (map rw_set_literal args)) = true)).
    { repeat split; auto. rewrite !wf_ECall. apply wf_args_map, HL. }
    destruct f; try exact Hgen.
    destruct args as [|a rest]; [exact Hgen|].
    destruct a; destruct rest; try exact Hgen.
    cbn [rw_set_literal]. destruct es as [|x xs]; repeat split; auto.
  - destruct (IH e1) as [G1 [S1 W1]], (IH e2) as [G2 [S2 W2]]. cbn [rw_set_literal].
    split; [reflexivity|]. split; [cbn [starts_with_not]; now rewrite S1|].
    rewrite !wf_EBool, G1, G2, !andb_true_iff. intros [[[H1 H2] H3] H4]. auto.
  - destruct (IH e) as [G1 [S1 W1]]. cbn [rw_set_literal]. split; [reflexivity|]. split; [reflexivity|].
    rewrite !wf_ENot, G1, !andb_true_iff. intros [H1 H2]. auto.
  - destruct (IH e) as [G1 [S1 W1]]. cbn [rw_set_literal]. split; [reflexivity|]. split; [cbn [starts_with_not]; now rewrite S1|].
    rewrite !wf_ECmp, G1, !andb_true_iff. intros [[[H1 H2] H3] H4]. repeat split; auto.
    + destruct rest; [discriminate H3|reflexivity].
    + apply wf_rest_map; [apply HR|exact H4].
  - destruct (IH e1) as [G1 [S1 W1]], (IH e2) as [G2 [S2 W2]]. cbn [rw_set_literal]. split; [reflexivity|]. split; [reflexivity|].
    rewrite !wf_EListComp, G1, G2, !andb_true_iff. intros [[[H1 H2] H3] H4]. auto.
  - destruct (IH e1) as [G1 [S1 W1]], (IH e2) as [G2 [S2 W2]]. cbn [rw_set_literal]. split; [reflexivity|]. split; [reflexivity|].
    rewrite !wf_EGen, G1, G2, !andb_true_iff. intros [[[H1 H2] H3] H4]. auto.
  - destruct (IH e1) as [G1 [S1 W1]], (IH e2) as [G2 [S2 W2]]. cbn [rw_set_literal]. split; [reflexivity|]. split; [reflexivity|].
    rewrite !wf_EFloorDiv, G1, G2, S2, !andb_true_iff. intros [[[[H1 H2] H3] H4] H5]. repeat split; auto.
  - cbn [rw_set_literal]. split; [reflexivity|]. split; [reflexivity|].
    (* only an implicit concatenation of string literals is well-formed, and the rewrite leaves a literal alone *)
    intros Hw.
    match type of Hw with
    | wf (EJuxt _ ?a) = true => destruct a as [|c| | | | | | | | | | | | |]; try discriminate Hw; destruct c; try discriminate Hw; exact Hw
    end.
Qed.
Theorem rw_set_literal_wf e : wf e = true -> wf (rw_set_literal e) = true.
Proof. intros H. destruct (rw_set_literal_good e) as [_ [_ W]]. exact (W H). Qed.

(** * The kernels as transformers of the orchestration model: trees are MiniPy expressions, [code] is the printer *)
Definition kernel_code (k : pipe_kind) (e : expr) : bytes := pp e.
Definition kernel_T (rw : expr -> expr) (K : codemod) (e : expr) (fi : option (list finding)) : outcome expr :=
  if str_eqb (pp e) (pp (rw e)) then NoChange
  else Changed (rw e) [(1%N, match fi with Some l => l | None => [] end)] [].

Lemma kernel_T_changed rw K e fi t' chs ds : kernel_T rw K e fi = Changed t' chs ds -> t' = rw e /\ chs <> [] /\ ds = [].
Proof. unfold kernel_T. destruct (str_eqb _ _); [discriminate|]. intros [= <- <- <-]. repeat split; discriminate. Qed.

(** C01, composed: after ANY run of codemods whose transformer is use-set-literal's rewrite, every non-manifest file that
    parsed before the run parses after it *)
Definition C01_set_literal_run_statement (tb : run_tables) : Prop :=
  if libcst_nochange_guarded tb then
    forall (parse : pipe_kind -> bytes -> option expr) S R diff W fsel,
      (forall b e, parse PLibcst b = Some e -> wf e = true) ->
      (forall e, wf e = true -> parse PLibcst (pp e) <> None) ->
      forall (Ks : list codemod) (cfg : config) (fs : fsys) (stores : list store) (p : path) (b : bytes),
        (forall K, In K Ks -> cpipe K = PLibcst) ->
        ~ In p (map st_path stores) -> lookup fs p = Some b -> parse PLibcst b <> None ->
        exists b', lookup (final_fs (run tb expr parse kernel_code (kernel_T rw_set_literal) S R diff W fsel cfg Ks fs stores)) p = Some b' /\
                   parse PLibcst b' <> None
  else True.
Lemma C01_set_literal_run_all tb : C01_set_literal_run_statement tb.
Proof.
  unfold C01_set_literal_run_statement. pose proof (C01_lift_all tb) as HL. unfold C01_lift_statement in HL.
  destruct (libcst_nochange_guarded tb); [|exact I].
  intros parse S R diff W fsel Hp1 Hp2 Ks cfg fs stores p b Hk Hst Hb Hpar.
  destruct (HL expr parse kernel_code (kernel_T rw_set_literal) S R diff W fsel (fun _ => True) Ks Hk) with (cfg := cfg) (fs := fs)
    (stores := stores) (p := p) (b := b) as [b' [H1 [H2 _]]]; auto.
  - intros K b0 t fi t' chs ds _ _ Hpb HT. apply kernel_T_changed in HT. destruct HT as [-> _].
    split; [|exact I]. apply Hp2. apply rw_set_literal_wf. eapply Hp1; eauto.
  - eauto.
Qed.

(** C07, composed: a run of a detector-less codemod whose transformer is use-generator's rewrite (in a configuration where
    the kernel is idempotent), followed by a second run on the result: the second run is a no-op *)
Definition C07_generator_two_runs_statement (tb : run_tables) : Prop :=
  if libcst_nochange_guarded tb then
    forall (gcfg : generator_cfg), generator_stable gcfg = true ->
    forall (parse : pipe_kind -> bytes -> option expr) S R diff W fsel (cfg : config) (K : codemod),
      (forall e, parse PLibcst (pp e) = Some e) ->
      cpipe K = PLibcst -> cdet K = DNone -> dry_run cfg = false -> NoDup (ff_paths cfg) -> NoDup (all_files cfg) ->
      forall (fs : fsys) (stores stores2 : list store),
        (forall st, In st stores -> fsel K (st_path st) = false) ->
        let T := kernel_T (rw_generator gcfg) in
        let fs1 := final_fs (run tb expr parse kernel_code T S R diff W fsel cfg [K] fs stores) in
        final_fs (run tb expr parse kernel_code T S R diff W fsel cfg [K] fs1 stores2) = fs1 /\
        forall s, run tb expr parse kernel_code T S R diff W fsel cfg [K] fs1 stores2 = Ok s ->
          s_fs s = fs1 /\ (forall k, dgetl k (s_cs s) = []) /\ (forall k, dgetl k (s_deps s) = [])
  else True.
Lemma C07_generator_two_runs_all tb : C07_generator_two_runs_statement tb.
Proof.
  unfold C07_generator_two_runs_statement. pose proof (C07_lift_all tb) as HL. unfold C07_lift_statement in HL.
  destruct (libcst_nochange_guarded tb); [|exact I].
  intros gcfg Hst parse S R diff W fsel cfg K Hrt Hk Hd Hwet Hn1 Hn2 fs stores stores2 Hman.
  set (T := kernel_T (rw_generator gcfg)).
  destruct (HL expr parse kernel_code T S R diff W fsel cfg K Hk Hwet Hn1 Hn2) with (fs := fs) (stores := stores) (stores2 := stores2)
    as [H1 H2]; auto.
  - rewrite Hd. discriminate.
  - intros b t fi t' chs ds HT _. apply kernel_T_changed in HT. tauto.
  - intros p t fi t' chs ds HT _. apply kernel_T_changed in HT. destruct HT as [-> _].
    unfold T, kernel_T. rewrite (C07_kernel_generator_idempotent gcfg Hst t). now rewrite str_eqb_refl.
  - split; [exact H1|]. intros s Hs. destruct (H2 s Hs) as [A [_ [C D]]]. auto.
Qed.
