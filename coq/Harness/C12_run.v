From CM Require Import Harness.RunBase Base.Dict Model.ResultSet Spec.ResultSetSpec Generated.Tables.

Definition flat := list (str * list (str * list N)).
Definition flatten (R : rs) : flat :=
  map (fun kd => (fst kd, map (fun fl => (fst fl, map rid (snd fl))) (snd kd))) R.
Definition flat_eqb : flat -> flat -> bool :=
  list_eqb (pair_eqb str_eqb (list_eqb (pair_eqb str_eqb (list_eqb N.eqb)))).

Definition flat_lookup (F : flat) (k p : str) : list N :=
  getl p (match dget str_eqb k F with Some d => d | None => [] end).

(** keys (rule, file) mentioned by a family or by an observed output *)
Definition keys_of_flat (F : flat) : list (str * str) :=
  flat_map (fun kd => map (fun fl => (fst kd, fst fl)) (snd kd)) F.
Definition keys_of_results (l : list res) : list (str * str) :=
  flat_map (fun r => map (fun f => (rrule r, f)) (rfiles r)) l.

(** `A | B` on the implementation: observed = Some flat, or None for KeyError. *)
Definition or_case := (list res * list res * option flat)%type.
Definition or_model_ok (c : or_case) : bool :=
  let '(a, b, obs) := c in
  match rs_or resultset_variant (of_results a) (of_results b), obs with
  | Ok C, Some F => flat_eqb (flatten C) F
  | KeyErr, None => true
  | _, _ => false
  end.
Definition or_spec_ok (c : or_case) : bool :=
  let '(a, b, obs) := c in
  match obs with
  | None => false
  | Some F =>
      forallb (fun kp => list_eqb N.eqb (flat_lookup F (fst kp) (snd kp))
                                  (map rid (union_spec (of_results a) (of_results b) (fst kp) (snd kp))))
              (keys_of_flat F ++ keys_of_results a ++ keys_of_results b)
  end.

(** `acc = ResultSet(); for R in family: acc |= R` on the implementation. *)
Definition fold_case := (list (list res) * flat)%type.
Definition fold_model_ok (c : fold_case) : bool :=
  let '(fam, F) := c in flat_eqb (flatten (combine_files resultset_variant (map of_results fam))) F.
Definition fold_spec_ok (c : fold_case) : bool :=
  let '(fam, F) := c in
  forallb (fun kp => list_eqb N.eqb (flat_lookup F (fst kp) (snd kp))
                              (map rid (family_spec (map of_results fam) (fst kp) (snd kp))))
          (keys_of_flat F ++ flat_map keys_of_results fam).

(** add_result alone: observed flat of ResultSet() after adding the results in order *)
Definition add_case := (list res * flat)%type.
Definition add_model_ok (c : add_case) : bool :=
  let '(l, F) := c in flat_eqb (flatten (of_results l)) F.
