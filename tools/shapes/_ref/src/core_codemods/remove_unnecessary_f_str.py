from typing import cast

import libcst as cst
import libcst.matchers as m
from libcst.codemod.commands.unnecessary_format_string import UnnecessaryFormatString

from codemodder.codemods.libcst_transformer import (
    LibcstResultTransformer,
    LibcstTransformerPipeline,
)
from core_codemods.api import Metadata, Reference, ReviewGuidance
from core_codemods.api.core_codemod import CoreCodemod


class RemoveUnnecessaryFStrTransform(LibcstResultTransformer):
    change_description = "Remove unnecessary f-string"

    @m.leave(m.FormattedString(parts=(m.FormattedStringText(),)))
    def _check_formatted_string(
        self,
        _original_node: cst.FormattedString,
        updated_node: cst.FormattedString,
    ):
        if not self.filter_by_path_includes_or_excludes(
            self.node_position(_original_node)
        ):
            return updated_node

        transformed_node = UnnecessaryFormatString._check_formatted_string(
            cast(UnnecessaryFormatString, self), _original_node, updated_node
        )
        if not _original_node.deep_equals(transformed_node):
            self.report_change(_original_node)
        return transformed_node


RemoveUnnecessaryFStr = CoreCodemod(
    metadata=Metadata(
        name="remove-unnecessary-f-str",
        summary="Remove Unnecessary F-strings",
        review_guidance=ReviewGuidance.MERGE_WITHOUT_REVIEW,
        references=[
            Reference(
                url="https://pylint.readthedocs.io/en/latest/user_guide/messages/warning/f-string-without-interpolation.html"
            ),
            Reference(
                url="https://github.com/Instagram/LibCST/blob/main/libcst/codemod/commands/unnecessary_format_string.py"
            ),
        ],
    ),
    transformer=LibcstTransformerPipeline(RemoveUnnecessaryFStrTransform),
    detector=None,
)
