(** Python dicts as insertion-ordered association lists. *)
From CM Require Export Base.Str.

Section Dict.
  Context {K V : Type} (keqb : K -> K -> bool).

  Definition dict := list (K * V).

  Fixpoint dget (k : K) (d : dict) : option V :=
    match d with
    | [] => None
    | (k', v) :: r => if keqb k k' then Some v else dget k r
    end.

  (** [d[k] = v]: replace in place when present, append otherwise. *)
  Fixpoint dset (k : K) (v : V) (d : dict) : dict :=
    match d with
    | [] => [(k, v)]
    | (k', v') :: r => if keqb k k' then (k, v) :: r else (k', v') :: dset k v r
    end.

  (** [d.update(o)], also the value of [d | o]. *)
  Fixpoint dupdate (d o : dict) : dict :=
    match o with
    | [] => d
    | (k, v) :: o' => dupdate (dset k v d) o'
    end.

  Definition dhas (k : K) (d : dict) : bool :=
    match dget k d with Some _ => true | None => false end.

  Definition dkeys (d : dict) : list K := map fst d.

  (** [for k in d.keys(): d[k] = f k] *)
  Definition dmapk (f : K -> V) (d : dict) : dict := map (fun kv => (fst kv, f (fst kv))) d.
End Dict.
Arguments dict K V : clear implicits.
