"""expand.py in out : replace «text» (with \n, \r, \t escapes) by the Coq list of code points."""
import re, sys
t = open(sys.argv[1]).read()
def rep(m):
    s = m.group(1).encode().decode("unicode_escape")
    if not s: return "([] : str)"
    return "[" + ";".join(str(ord(c)) for c in s) + "]%N"
open(sys.argv[2], "w").write(re.sub(r"«(.*?)»", rep, t, flags=re.S))
