import libcst as cst

from codemodder.codemods.base_codemod import (
    Metadata,
    ReviewGuidance,
    ToolMetadata,
    ToolRule,
)
from codemodder.codemods.libcst_transformer import (
    LibcstResultTransformer,
    LibcstTransformerPipeline,
    NewArg,
)
from codemodder.codemods.semgrep import SemgrepSarifFileDetector
from codemodder.result import fuzzy_column_match, same_line
from core_codemods.semgrep.api import SemgrepCodemod, semgrep_url_from_id

RSA_KEYSIZE = "2048"


class RsaKeySizeTransformer(LibcstResultTransformer):
    change_description = "Change the RSA key size to 2048"

    def on_result_found(self, original_node, updated_node):
        if len(original_node.args) < 2:
            return original_node

        if original_node.args[1].keyword is None:
            new_args = [original_node.args[0], self.make_new_arg(RSA_KEYSIZE)]
        else:
            new_args = self.replace_args(
                original_node,
                [NewArg(name="key_size", value=RSA_KEYSIZE, add_if_missing=False)],
            )
        return self.update_arg_target(updated_node, new_args)

    def filter_by_result(self, node) -> bool:
        """
        Special case result-matching for this rule because the SAST
        results returned have a start/end column for the key_size keyword
        within the call, not for the entire call.
        """
        match node:
            case cst.Call():
                pos_to_match = self.node_position(node)
                return any(
                    self.match_location(pos_to_match, result)
                    for result in self.results or []
                )
        return False

    def match_location(self, pos, result):
        return any(
            same_line(pos, location) and fuzzy_column_match(pos, location)
            for location in result.locations
        )


SemgrepRsaKeySize = SemgrepCodemod(
    metadata=Metadata(
        name="rsa-key-size",
        summary=RsaKeySizeTransformer.change_description.title(),
        description=RsaKeySizeTransformer.change_description.title(),
        review_guidance=ReviewGuidance.MERGE_WITHOUT_REVIEW,
        tool=ToolMetadata(
            name="Semgrep",
            rules=[
                ToolRule(
                    id=(
                        rule_id := "python.cryptography.security.insufficient-rsa-key-size.insufficient-rsa-key-size"
                    ),
                    name="insufficient-rsa-key-size",
                    url=semgrep_url_from_id(rule_id),
                )
            ],
        ),
        references=[],
    ),
    transformer=LibcstTransformerPipeline(RsaKeySizeTransformer),
    detector=SemgrepSarifFileDetector(),
    requested_rules=[rule_id],
)
