(** What C17 demands of codemod selection, independently of how registry.py computes it. *)
From CM Require Export Model.Select.    (* only the data types: tok/pat/parse_pat/has_star, codemod/cid/corigin/ids, pixee *)

(** glob: a literal matches itself, [*] matches any (possibly empty) run of characters, the whole id is consumed *)
Fixpoint Matches (p : pat) (s : str) : Prop :=
  match p with
  | [] => s = []
  | Lit c :: p' => exists s', s = c :: s' /\ Matches p' s'
  | Star :: p' => exists a b, s = a ++ b /\ Matches p' b
  end.

(** a listed item selects a codemod: exact id, or glob match when the item contains [*] *)
Definition Wanted (name : str) (c : codemod) : Prop :=
  if has_star name then Matches (parse_pat name) (cid c) else cid c = name.

(** [Kept P l l']: l' is l restricted to the elements satisfying P, in the order of l *)
Inductive Kept {A} (P : A -> Prop) : list A -> list A -> Prop :=
| K_nil : Kept P [] []
| K_keep x l l' : P x -> Kept P l l' -> Kept P (x :: l) (x :: l')
| K_drop x l l' : ~ P x -> Kept P l l' -> Kept P (x :: l) l'.

(** keep the first occurrence of every id *)
Fixpoint first_occ (seen : list str) (l : list codemod) : list codemod :=
  match l with
  | [] => []
  | c :: r => if mem_str (cid c) seen then first_occ seen r else c :: first_occ (cid c :: seen) r
  end.

(** --codemod-include: per listed item, in the order given, the registry-ordered codemods it selects;
    concatenated; each codemod at most once (first occurrence). Unknown items select nothing. *)
Definition IncludeSpec (reg : list codemod) (incl : list str) (out : list codemod) : Prop :=
  exists groups, Forall2 (fun name g => Kept (Wanted name) reg g) incl groups /\ out = first_occ [] (concat groups).

(** tool-specific codemods are eligible when tool result files are supplied, find-and-fix ("pixee") codemods otherwise *)
Definition Eligible (sast : bool) (c : codemod) : Prop :=
  if sast then corigin c <> pixee else corigin c = pixee.

Definition Excluded (excl : list str) (c : codemod) : Prop := exists name, In name excl /\ Wanted name c.

(** the exclusion list in force: the one given, else the default one *)
Definition effective_exclude (defaults excl : list str) : list str :=
  match excl with [] => defaults | _ :: _ => excl end.

(** --codemod-exclude / default: registry order, every eligible codemod that is not excluded *)
Definition ExcludeSpec (defaults : list str) (reg : list codemod) (excl : list str) (sast : bool) (out : list codemod) : Prop :=
  Kept (fun c => ~ Excluded (effective_exclude defaults excl) c /\ Eligible sast c) reg out.

Definition SelectSpec (defaults : list str) (reg : list codemod) (incl excl : list str) (sast : bool) (out : list codemod) : Prop :=
  match incl with [] => ExcludeSpec defaults reg excl sast out | _ :: _ => IncludeSpec reg incl out end.

(** well-formed registry: ids pairwise different (it is a dict), no line feed inside an id *)
Definition wf_reg (reg : list codemod) : Prop :=
  NoDup (ids reg) /\ Forall (fun c => ~ In 10%N (cid c)) reg.

(** ** executable reference (proved in Proofs/SelectFacts.v to be the unique output allowed by SelectSpec);
    the matcher is the textbook one: try every split point *)
Fixpoint tails (s : str) : list str := s :: match s with [] => [] | _ :: r => tails r end.
Fixpoint ref_match (p : pat) (s : str) : bool :=
  match p with
  | [] => match s with [] => true | _ :: _ => false end
  | Lit c :: p' => match s with x :: s' => N.eqb c x && ref_match p' s' | [] => false end
  | Star :: p' => existsb (ref_match p') (tails s)
  end.
Definition wanted_b (name : str) (c : codemod) : bool :=
  if has_star name then ref_match (parse_pat name) (cid c) else str_eqb (cid c) name.
Definition excluded_b (excl : list str) (c : codemod) : bool := existsb (fun n => wanted_b n c) excl.
Definition eligible_b (sast : bool) (c : codemod) : bool :=
  if sast then negb (str_eqb (corigin c) pixee) else str_eqb (corigin c) pixee.
Definition select_ref (defaults : list str) (reg : list codemod) (incl excl : list str) (sast : bool) : list codemod :=
  match incl with
  | [] => filter (fun c => negb (excluded_b (effective_exclude defaults excl) c) && eligible_b sast c) reg
  | _ :: _ => first_occ [] (concat (map (fun name => filter (wanted_b name) reg) incl))
  end.

(** the rule of codemodder.run for the eligibility mode: Sonar issue files or SARIF files supplied *)
Definition dest_sonar_issues : str := [115;111;110;97;114;95;105;115;115;117;101;115;95;106;115;111;110]%N. (* "sonar_issues_json" *)
Definition dest_sarif : str := [115;97;114;105;102]%N.                                                      (* "sarif" *)
Definition tool_files_supplied (args : arglists) : bool := arg_given args dest_sonar_issues || arg_given args dest_sarif.
