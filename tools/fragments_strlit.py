# lazy-logging's re-quoting kernel (C01): only the pinned shape is known
TABLE_IMPORTS.append("From CM Require Import Base.Types_StrLit.")
shape("lazy_logging_requote", "src/core_codemods/lazy_logging.py", ["C01"],
      "lazy_logging_requote", "requote_form", "RequoteUnescaped",
      ["LazyLogging.make_args_for_plus", "LazyLogging.process_concat", "LazyLogging.is_str_concat"],
      doc="LazyLogging make_args_for_plus / process_concat")
