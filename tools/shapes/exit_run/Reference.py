# codemodder.run at /repo HEAD (abc422d: the value of write_report reaches a return); used as the reference skeleton
def run(original_args) -> int:
    start = datetime.datetime.now()

    codemod_registry = registry.load_registered_codemods()
    provider_registry = providers.load_providers()

    # A little awkward, but we need the codemod registry in order to validate potential arguments
    argv = parse_args(original_args, codemod_registry)
    if not os.path.exists(argv.directory):
        logger.error(
            "given directory '%s' doesn't exist or can’t be read",
            argv.directory,
        )
        return 1

    configure_logger(argv.verbose, argv.log_format, argv.project_name)

    log_section("startup")
    logger.info("codemodder: python/%s", __version__)
    logger.info("command: %s %s", Path(sys.argv[0]).name, " ".join(original_args))

    try:
        # TODO: this should be dict[str, list[Path]]
        tool_result_files_map: DefaultDict[str, list[str]] = detect_sarif_tools(
            [Path(name) for name in argv.sarif or []]
        )
    except (DuplicateToolError, FileNotFoundError) as err:
        logger.error(err)
        return 1

    tool_result_files_map["sonar"].extend(argv.sonar_issues_json or [])
    tool_result_files_map["sonar"].extend(argv.sonar_hotspots_json or [])
    tool_result_files_map["defectdojo"] = argv.defectdojo_findings_json or []

    for file_name in itertools.chain(*tool_result_files_map.values()):
        if not os.path.exists(file_name):
            logger.error(
                f"FileNotFoundError: [Errno 2] No such file or directory: '{file_name}'"
            )
            return 1

    repo_manager = PythonRepoManager(Path(argv.directory))

    try:
        context = CodemodExecutionContext(
            Path(argv.directory),
            argv.dry_run,
            argv.verbose,
            codemod_registry,
            provider_registry,
            repo_manager,
            argv.path_include,
            argv.path_exclude,
            tool_result_files_map,
            argv.max_workers,
        )
    except MisconfiguredAIClient as e:
        logger.error(e)
        return 3  # Codemodder instructions conflicted (according to spec)

    repo_manager.parse_project()

    # TODO: this should be a method of CodemodExecutionContext
    codemods_to_run = codemod_registry.match_codemods(
        argv.codemod_include,
        argv.codemod_exclude,
        sast_only=argv.sonar_issues_json or argv.sarif,
    )

    log_section("setup")
    log_list(logging.INFO, "running", codemods_to_run, predicate=lambda c: c.id)
    log_list(logging.INFO, "including paths", context.included_paths)
    log_list(logging.INFO, "excluding paths", argv.path_exclude)

    log_list(
        logging.DEBUG, "matched files", (str(path) for path in context.files_to_analyze)
    )

    context.semgrep_prefilter_results = find_semgrep_results(
        context,
        codemods_to_run,
        context.find_and_fix_paths,
    )

    apply_codemods(
        context,
        codemods_to_run,
    )

    elapsed = datetime.datetime.now() - start
    elapsed_ms = int(elapsed.total_seconds() * 1000)

    if argv.output:
        codetf = CodeTF.build(
            context,
            elapsed_ms,
            original_args,
            context.compile_results(codemods_to_run),
        )
        if codetf.write_report(argv.output) == 2:
            # Any issues with writing the output file should exit status 2.
            return 2

    log_report(
        context,
        argv,
        elapsed_ms,
        [] if not codemods_to_run else context.files_to_analyze,
    )
    return 0
