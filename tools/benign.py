#!/usr/bin/env python3
"""Harmless (behaviour-preserving) refactorings of /repo, written by independent agents: the false-alarm side of the
seeded-change experiment.

  benign.py import <out_dir> <tag>     keep each patchN.diff/metaN.json of an agent's output directory whose patch applies to a
                                        scratch worktree of /repo HEAD as /verif/benign/<tag>-<n>/ (the agent ran the baseline)
  benign.py run <id> [Cyy ...]          apply benign/<id>/patch.diff to the scratch worktree and run the quick checks of the
                                        properties whose translator fragments read a changed file (plus any given), record in
                                        benign/<id>/result.json what each said

Expected of every check on such a change: exit 0, or `VIOLATION ... no-failing-input-found` (the tie to the source is
broken: a fragment is no longer recognised; allowed by the technique, counted).  A VIOLATION with a concrete failing
input on a behaviour-preserving change is a FALSE ALARM of the machinery.
"""
import json
import os
import shutil
import sys
import time
from pathlib import Path

sys.path.insert(0, str(Path(__file__).resolve().parent))
import seeded  # noqa: E402  (scratch worktree helpers)

VERIF = seeded.VERIF
ALWAYS = []          # properties run for every change in addition to the ones tied to the changed files


def props_for(files):
    import translate
    props = set()
    for fr in translate.FRAGMENTS:
        if fr.file in files:
            props.update(p for p in fr.props if p != "*")
    # custom recognisers open further files themselves
    for frag_py in (VERIF / "tools").glob("fragments_*.py"):
        text = frag_py.read_text()
        for f in files:
            if f in text:
                import re
                m = re.search(r"fragments_(\w+)\.py", frag_py.name)
                owner = {"exit": ["C20"], "select": ["C17"], "glob": ["C05", "C13"], "location": ["C06", "C18"], "diff": ["C03"],
                         "manifest": ["C14"], "args": ["C16"], "kernels": ["C08", "C01", "C02", "C07"], "pipes": ["C19"],
                         "run": ["C04", "C09", "C10"], "sched": ["C11"], "report": ["C15"], "readers": ["C12"], "strlit": ["C01"]}
                props.update(owner.get(m.group(1), []))
    return sorted(props)


def do_import(out_dir: Path, tag: str):
    kept = 0
    for patch in sorted(out_dir.glob("patch*.diff")):
        n = patch.stem[len("patch"):]
        seeded.reset_wt()
        if not seeded.apply_patch(patch):
            print(f"{tag}-{n}: patch does not apply")
            continue
        d = VERIF / "benign" / f"{tag}-{n}"
        d.mkdir(parents=True, exist_ok=True)
        shutil.copy(patch, d / "patch.diff")
        meta = json.loads((out_dir / f"meta{n}.json").read_text()) if (out_dir / f"meta{n}.json").exists() else {}
        (d / "meta.json").write_text(json.dumps(meta, indent=1))
        kept += 1
    seeded.reset_wt()
    print(f"kept {kept} benign change(s) as {tag}-*")


def do_run(bid: str, extra):
    d = VERIF / "benign" / bid
    outd = Path(os.environ.get("VERIF_BENIGN_OUT", str(VERIF / "benign"))) / bid
    outd.mkdir(parents=True, exist_ok=True)
    files = [l[6:].strip() for l in (d / "patch.diff").read_text().splitlines() if l.startswith("+++ b/")]
    props = sorted(set(props_for(files)) | set(extra) | set(ALWAYS))
    seeded.reset_wt()
    if not seeded.apply_patch(d / "patch.diff"):
        return
    res = {}
    for prop in props:
        t = time.time()
        p = seeded.sh([str(VERIF / "bin" / "check"), prop, "quick"], env=dict(os.environ, VERIF_REPO=str(seeded.WT)), cwd=str(VERIF))
        lines = [l for l in p.stdout.splitlines() if l.startswith(("VIOLATION", "["))]
        viol = [l for l in lines if l.startswith("VIOLATION")]
        concrete = [l for l in viol if "no-failing-input-found" not in l]
        verdict = "silent" if p.returncode == 0 and not viol else ("tie_broken" if viol and not concrete and p.returncode == 1 else
                                                                   ("FALSE_ALARM" if concrete else f"error_exit_{p.returncode}"))
        res[prop] = {"exit": p.returncode, "verdict": verdict, "lines": lines[-4:], "wall_s": round(time.time() - t)}
        for l in concrete[:1]:
            rp = l.split("replay=")[1].split()[0]
            if os.path.exists(rp):
                shutil.copy(rp, outd / f"replay_{prop}.json")
        if verdict == "tie_broken":
            rp = viol[0].split("replay=")[1].split()[0]
            try:
                res[prop]["no_longer_checks"] = json.loads(Path(rp).read_text()).get("no_longer_checks", [])[:3]
            except Exception:
                pass
        print(bid, prop, verdict, flush=True)
    (outd / "result.json").write_text(json.dumps({"files": files, "results": res}, indent=1))
    seeded.reset_wt()
    seeded.sh([str(VERIF / "bin" / "check"), "setup-incremental"], cwd=str(VERIF))


def main():
    if len(sys.argv) < 3:
        print(__doc__)
        return 2
    if sys.argv[1] == "import":
        do_import(Path(sys.argv[2]), sys.argv[3])
    elif sys.argv[1] == "run":
        do_run(sys.argv[2], sys.argv[3:])
    return 0


if __name__ == "__main__":
    sys.exit(main())
