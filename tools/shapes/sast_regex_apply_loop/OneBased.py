class SastRegexTransformerPipeline(RegexTransformerPipeline):
    def line_matches_result(self, lineno: int, result_linenums: list[int]) -> bool:
        return lineno in result_linenums

    def report_unfixed(self, file_context: FileContext, line_number: int, reason: str):
        findings = file_context.get_findings_for_location(line_number)
        file_context.add_unfixed_findings(findings, reason, line_number)

    def _apply(self, original_lines, file_context, results):
        changes = []
        updated_lines = []
        if results is not None and not results:
            return changes, updated_lines

        result_linenums = [
            location.start.line for result in results for location in result.locations
        ]
        for lineno, line in enumerate(original_lines):
            if self.line_matches_result(one_idx_lineno := lineno + 1, result_linenums):
                changed_line = self._apply_regex(line)
                updated_lines.append(changed_line)
                if line == changed_line:
                    logger.warn("Unable to update html line: %s", line)
                    self.report_unfixed(
                        file_context,
                        one_idx_lineno,
                        reason="Unable to update html line",
                    )
                    continue

                changes.append(
                    Change(
                        lineNumber=lineno + 1,
                        description=self.change_description,
                        findings=file_context.get_findings_for_location(lineno + 1),
                    )
                )

            else:
                updated_lines.append(line)
        return changes, updated_lines
