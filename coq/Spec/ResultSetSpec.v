(** What C12 demands of merging: multiset union, per rule and file, nothing lost, nothing duplicated. *)
From CM Require Import Model.ResultSet.

Definition union_spec (A B : rs) (k p : str) : list res := lookup A k p ++ lookup B k p.
Definition family_spec (Rs : list rs) (k p : str) : list res := concat (map (fun R => lookup R k p) Rs).
