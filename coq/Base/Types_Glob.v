(** Types of the table values emitted by tools/fragments_glob.py (C05, C13). *)
From CM Require Export Base.Str.

(** base_codemod._process_file: which string form of the file path the `path:line` patterns are matched against. *)
Inductive path_form :=
| AsPassedAbsolute   (* pinned tree: file_line_patterns(filename, ...) -- only the path as passed (target-prefixed) *)
| Both.              (* fix 18b42d9: the path as passed, then the target-relative path *)

(** A fragment whose source text is exactly the one the model was written from. *)
Inductive as_written := AsWritten.
