from pathlib import Path

import chardet

from codemodder.logging import logger
from codemodder.project_analysis.file_parsers.package_store import (
    FileType,
    PackageStore,
)

from .base_parser import BaseParser


class RequirementsTxtParser(BaseParser):
    @property
    def file_type(self):
        return FileType.REQ_TXT

    def _parse_file(self, file: Path) -> PackageStore | None:
        with open(file, "rb") as f:
            whole_file = f.read()

        enc = chardet.detect(whole_file)
        if enc["confidence"] > 0.9:
            encoding = enc.get("encoding")
            decoded = whole_file.decode(encoding.lower()) if encoding else ""
            lines = decoded.splitlines() if decoded else []
        else:
            logger.debug("Unknown encoding for file: %s", file)
            return None

        dependencies = self._clean_lines(lines)

        return PackageStore(
            type=self.file_type,
            file=file,
            dependencies=dependencies,
            # requirements.txt files do not declare py versions explicitly
            # though we could create a heuristic by analyzing each dependency
            # and extracting py versions from them.
            py_versions=[],
        )

    def _clean_lines(self, lines: list[str]) -> set[str]:
        """Return a set of dependency `lines` excluding any lines
        that may be comments or may be pointers to other requirement files (-r ..._
        """
        return set(
            line.split("#")[0].strip()
            for line in lines
            if not line.startswith(("#", "-r "))
        )
