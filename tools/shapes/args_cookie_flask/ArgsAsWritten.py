class SecureFlaskCookie:
    def on_result_found(self, original_node, updated_node):
        new_args = self.replace_args(
            original_node, self._choose_new_args(original_node)
        )
        return self.update_arg_target(updated_node, new_args)

