import libcst as cst
from libcst.metadata import PositionProvider

from codemodder.codemods.base_visitor import UtilsMixin
from codemodder.codemods.transformations.clean_imports import (
    GatherTopLevelImportBlocks,
    OrderImportsBlocksTransform,
)
from core_codemods.api import Metadata, ReviewGuidance, SimpleCodemod


class OrderImports(SimpleCodemod, UtilsMixin):
    metadata = Metadata(
        name="order-imports",
        summary="Order Imports",
        review_guidance=ReviewGuidance.MERGE_WITHOUT_REVIEW,
        description="",
    )
    change_description = "Ordered and formatted import block below this line"

    METADATA_DEPENDENCIES = (PositionProvider,)

    def transform_module_impl(self, tree: cst.Module) -> cst.Module:
        top_imports_visitor = GatherTopLevelImportBlocks()
        tree.visit(top_imports_visitor)

        # Filter import blocks by line includes/excludes within their anchors
        filtered_blocks = []
        for block in top_imports_visitor.top_imports_blocks:
            anchor = block[0]
            anchor_pos = self.node_position(anchor)
            if self.filter_by_path_includes_or_excludes(anchor_pos):
                filtered_blocks.append(block)
        if filtered_blocks:
            order_transformer = OrderImportsBlocksTransform(
                self.file_context.base_directory,
                filtered_blocks,
            )
            result_tree = tree.visit(order_transformer)

            # seemingly redundant, this check makes it possible to return the original tree
            for i, changed in enumerate(order_transformer.changes):
                if changed:
                    self.add_change(
                        top_imports_visitor.top_imports_blocks[i][0],
                        self.change_description,
                    )
            return result_tree
        return tree
