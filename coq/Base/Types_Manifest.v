(** Types of the table values that tools/fragments_manifest.py extracts for the manifest writers (C14). *)
From CM Require Export Base.Str.

(** project_analysis/file_parsers/package_store.py: how [PackageStore.has_requirement] compares names. *)
Inductive name_cmp :=
| Exact        (* pinned tree: requirement.name in {dep.name ...} — raw, case-sensitive *)
| Canonical.   (* fix 1f40f34: packaging.utils.canonicalize_name on both sides (PEP 503) *)

(** context.py: the loop of [process_dependencies] over the package stores. *)
Inductive dep_loop :=
| FirstWinsBreak   (* first store whose writer returns a changeset is recorded, then `break` *)
| NoBreak.         (* the same loop without the `break`: every store is offered the dependency *)

(** project_analysis/python_repo_manager.py: the parsers in [_potential_stores], in order. *)
Inductive store_kind := Toml | SetupPy | ReqTxt | SetupCfg.

(** A fragment with a single known shape: any edit makes the translator fail closed. *)
Inductive shape_ok := AsPinned.

(** The `if not dry_run:` guard around the write of a manifest writer. *)
Inductive dry_guard :=
| DryGuarded     (* the file is written only under `if not dry_run:` *)
| DryIgnored.    (* the file is written unconditionally *)

(** setupcfg_writer.py, SetupCfgWriter.add_to_file: the lines handed to build_new_lines. *)
Inductive cfg_last_line :=
| LastLineAsIs          (* pinned: f.readlines() as read; a last line without newline stays unterminated *)
| LastLineTerminated.   (* repair: `if original_lines and not original_lines[-1].endswith("\n"): original_lines[-1] += "\n"` *)
