"""C09 — a multi-codemod run equals running the same codemods one at a time, in order.

Implementation side: for a generated project and a sequence K1..Kn, one BATCH invocation (`--codemod-include K1,..,Kn`) and a
CHAIN of n single-codemod invocations on the evolving tree (in the order in which the batch report lists its results).
Compared: final trees (bytes of every file) and, per codemod, change sets (paths, diffs, changes), failedFiles, description.
Model side: coq/Model/Run.v evaluated with the oracle values observed in the CHAIN (what each transformer did to each
content, what the manifest writer did) and the semgrep prefilter observed in the batch run (dumped by a wrapper around
codemodder.find_semgrep_results installed through core.run_cli(preload=...)), asked to predict the BATCH run."""
from __future__ import annotations

import base64
import json
from pathlib import Path

from harness import core
from harness import run_common as rc

META = {
    "rule": "sequences of 2-4 codemods (pairs with both triggers in one file, dependency-adding pairs sharing or not sharing the "
            "requirement, semgrep-detected after detector-less, semgrep-detected pairs) on generated projects with a manifest; "
            "each case = 1 batch run + n chain runs; non-trivial = at least two codemods of the sequence change something; "
            "distinct by (sequence, project text)",
    "trusted": ["the wrapper that dumps context.semgrep_prefilter_results (oracle value of the batch run)"],
    "assumptions": [
        "oracle: semgrep rules of the codemods are intra-file (a match in a file depends on that file's text only)",
        "H_stores_reparse of C09_batch_eq_chain (a fresh parse of the manifest reflects what the writer added) is observed, not proved",
        "the chain runs use the same options as the batch run (no --dry-run: a dry chain does not evolve the tree)",
    ],
}

P = rc.P
PRELOAD_PREFILTER = '''
import json as _json, os as _os
import codemodder.codemodder as _cm
_orig_find = _cm.find_semgrep_results
def _dump_find(context, codemods, files_to_analyze=None):
    rs = _orig_find(context, codemods, files_to_analyze)
    try:
        out = {str(k): [str(p) for p in v.keys()] for k, v in rs.items()}
    except Exception as e:
        out = {"__error__": repr(e)}
    with open(_os.environ["VERIF_PREFILTER_OUT"], "w") as f:
        _json.dump(out, f)
    return rs
_cm.find_semgrep_results = _dump_find
'''


def short(k):
    return k.split("/")[-1]


def two_in_one(k1, k2, rng):
    parts = [rng.choice(rc.SNIPPETS[k1][1]), rng.choice(rc.SNIPPETS[k2][1])]
    imports = [l for s in parts for l in s.splitlines(True) if l.startswith(("import ", "from "))]
    rest = [l for s in parts for l in s.splitlines(True) if not l.startswith(("import ", "from "))]
    seen, imp = set(), []
    for l in imports:
        if l not in seen:
            seen.add(l)
            imp.append(l)
    return "".join(imp) + "".join(rest)


STALE_PROJECT = {"a.py": "import requests\n\nr = requests.get(\"https://example.com\")\n", "requirements.txt": "requests\n"}
STALE_SEQ = [P + "add-requests-timeouts", P + "url-sandbox"]


def corpus_cases():
    out = []
    d = core.VERIF / "corpus" / "C09"
    for f in sorted(d.glob("*.json")) if d.is_dir() else []:
        body = json.loads(f.read_text())
        out.append({"name": "corpus:" + f.stem, "files": {k: base64.b64decode(v).decode() for k, v in body["project"].items()},
                    "seq": body["sequence"]})
    return out


def gen_cases(ctx, n):
    rng = ctx.rng
    plans = [
        ("same_file", [P + "use-set-literal", P + "remove-unnecessary-f-str"]),
        ("dep_pair_shared", [P + "url-sandbox", P + "sandbox-process-creation"]),
        ("dep_pair_distinct", [P + "harden-pickle-load", P + "use-defusedxml"]),
        ("semgrep_after_libcst", [P + "use-generator", P + "secure-random"]),
        ("semgrep_pair_same_file", [P + "requests-verify", P + "add-requests-timeouts"]),
        ("triple", [P + "fix-mutable-params", P + "harden-pyyaml", P + "use-set-literal"]),
        ("libcst_then_dep", [P + "secure-tempfile", P + "flask-enable-csrf-protection"]),
        ("quad", [P + "use-set-literal", P + "secure-random", P + "harden-pickle-load", P + "fix-assert-tuple"]),
        ("semgrep_then_semgrep", [P + "secure-random", P + "url-sandbox"]),
    ]
    cases = []
    for i in range(n):
        tag, seq = plans[i % len(plans)]
        if i >= len(plans):
            pool = rc.LIBCST_ONLY + rc.SEMGREP
            seq = rng.sample(pool, rng.choice([2, 2, 3, 4]))
            tag = "random"
        seq = list(seq)
        if rng.random() < 0.3:
            seq.reverse()
        files = rc.gen_project(rng, seq, rng.choice([2, 3]), [rng.choice(["requirements.txt", "requirements.txt", "setup.cfg", "pyproject.toml"])])
        # bias: both triggers of the first two codemods in one file (same file, possibly same line region)
        if tag in ("same_file", "semgrep_pair_same_file", "triple", "random") or rng.random() < 0.4:
            files["a.py"] = two_in_one(seq[0], seq[1], rng)
        cases.append({"name": f"gen:{i}:{tag}", "files": files, "seq": seq})
    return cases


def run_batch(R, case):
    root = R.fresh_dir("batch")
    core.write_tree(root, case["files"])
    pf = root.parent / (root.name + ".prefilter.json")
    pre = f"import os\nos.environ['VERIF_PREFILTER_OUT'] = {str(pf)!r}\n" + PRELOAD_PREFILTER
    r = R.run(root, case["seq"], [], preload=pre)
    prefilter = None
    if pf.exists():
        try:
            prefilter = json.loads(pf.read_text())
        except Exception:
            prefilter = None
    return root, r, prefilter


def run_chain(R, case, order):
    root = R.fresh_dir("chain")
    core.write_tree(root, case["files"])
    steps = []
    for k in order:
        before = core.read_tree(root)
        r = R.run(root, [k], [])
        steps.append({"codemod": k, "run": r, "before": before, "after": core.read_tree(root)})
    return root, steps


def classify(case, order, rows_b, chain_rows, tree_b, tree_c):
    """name the ordered pair (K1 > K2) when the difference is: the chain's K2 changes a file that an earlier K1 rewrote, the batch's K2 does not"""
    for i, k2 in enumerate(order):
        rb, rcn = rows_b.get(k2), chain_rows.get(k2)
        if rb is None or rcn is None or (rb["changed"], rb["diffs"]) == (rcn["changed"], rcn["diffs"]):
            continue
        extra = [p for p in rcn["changed"] if p not in rb["changed"] and p.endswith(".py")]
        if extra and rc.det_of(k2) == "DSemgrep":
            for k1 in reversed(order[:i]):
                if rows_b.get(k1) and extra[0] in rows_b[k1]["changed"]:
                    return f"kf_stale_prefilter:{short(k1)}>{short(k2)}", k1, k2, extra[0]
        return "kf_batch_chain_differs", None, k2, None
    return "kf_batch_chain_differs", None, None, None


def evaluate(ctx, case, batch, chain):
    root_b, rb, prefilter = batch
    root_c, steps = chain
    replay = {"project": core.b64tree(case["files"]), "sequence": case["seq"]}
    seq = case["seq"]
    ctx.count("seq_len:" + str(len(seq)))
    ctx.count("plan:" + case["name"].split(":")[-1])
    for k in seq:
        ctx.count("codemod:" + short(k))
    if rb["rc"] != 0 or not isinstance(rb["report"], dict) or any(s["run"]["rc"] != 0 or not isinstance(s["run"]["report"], dict) for s in steps):
        ctx.violation("kf_run_failed", f"{case['name']}: a run failed: batch rc={rb['rc']} chain rc={[s['run']['rc'] for s in steps]}: {rb['stderr'][-300:]}", replay)
        return None, False
    rows_b_list = rc.rows_of_report(rb["report"], root_b)
    order = [r["codemod"] for r in rows_b_list]
    rows_b = {r["codemod"]: r for r in rows_b_list}
    chain_rows = {}
    for s in steps:
        rr = rc.rows_of_report(s["run"]["report"], root_c)
        chain_rows[s["codemod"]] = rr[0] if rr else None
    tree_b, tree_c = core.read_tree(root_b), core.read_tree(root_c)
    same_tree = tree_b == tree_c
    same_rows = all(rows_b.get(k) is not None and chain_rows.get(k) is not None and
                    all(rows_b[k][f] == chain_rows[k][f] for f in ("changed", "diffs", "changes", "failed", "description")) for k in order)
    if not (same_tree and same_rows):
        cls, k1, k2, p = classify(case, order, rows_b, chain_rows, tree_b, tree_c)
        diff_files = sorted(f for f in set(tree_b) | set(tree_c) if tree_b.get(f) != tree_c.get(f))
        ctx.violation(cls, f"{case['name']}: batch {[short(k) for k in order]} != chain: files differing {diff_files}; "
                           f"{short(k2) if k2 else '?'}: batch change sets {rows_b.get(k2, {}).get('changed') if k2 else None} vs chain "
                           f"{chain_rows.get(k2, {}).get('changed') if k2 else None}"
                           + (f" (file rewritten earlier by {short(k1)}; prefilter of the batch run: {prefilter})" if k1 else ""),
                      {**replay, "observed": {"order": order, "differing_files": diff_files,
                                              "batch": {f: tree_b[f].decode(errors='replace') for f in diff_files if f in tree_b},
                                              "chain": {f: tree_c[f].decode(errors='replace') for f in diff_files if f in tree_c}},
                       "expected": "identical trees and per-codemod results"})
    # ---- MODEL: predict the batch from the chain's oracle values + the observed prefilter
    A = rc.Abstr()
    files = rc.py_files(case["files"])
    manifests = [m for m in rc.STORE_ORDER if m in case["files"]]
    cms, W = [], []
    by_k = {s["codemod"]: s for s in steps}
    for k in order:
        s = by_k[k]
        man_changed = [m for m in manifests if s["before"].get(m) != s["after"].get(m)]
        dep = rc.DEPS.get(k)
        depid = [A.content("dep:" + dep)] if (dep and man_changed) else []
        T = [(A.content(s["before"][p]), A.content(s["after"][p]), depid) for p in files if s["before"].get(p) != s["after"].get(p)]
        flag = [x for x, _, _ in T]
        if rc.det_of(k) == "DSemgrep" and isinstance(prefilter, dict):
            for fpath in prefilter.get(short(k), []):
                try:
                    rel = str(Path(fpath).relative_to(root_b))
                except ValueError:
                    rel = fpath
                if rel in case["files"]:
                    flag.append(A.content(case["files"][rel]))
        cms.append(rc.c_hcodemod(A, k, rc.det_of(k), T, [], sorted(set(flag))))
        for m in man_changed:
            W.append((A.content(s["before"][m]), depid, A.content(s["after"][m])))
    stores = [(rc.SKIND[m], A.path(m), []) for m in manifests]
    hx_fs = [(A.path(p), A.content(c)) for p, c in case["files"].items()]
    ob_fs = [(A.path(p), A.content(c)) for p, c in tree_b.items() if p in case["files"]]
    ob_rows = [(A.codemod(r["codemod"]), [A.path(p) for p in r["changed"]], [A.path(p) for p in r["failed"]], [A.path(p) for p in rc.unfixed_paths(r)]) for r in rows_b_list]
    term = rc.c_hcase(False, [A.path(f) for f in files], hx_fs, [], cms, stores, W, rb["rc"], ob_fs, ob_rows)
    nontrivial = sum(1 for k in order if chain_rows.get(k) and chain_rows[k]["changed"]) >= 2
    return term, nontrivial


def run(ctx: core.Ctx):
    R = rc.Runner(ctx)
    n = 12 if ctx.quick() else 80
    if getattr(ctx, "deep", False):
        n *= 2
    cases = corpus_cases() + gen_cases(ctx, n)
    batches = rc.parallel([lambda c=c: run_batch(R, c) for c in cases])
    orders = []
    for c, (root, r, pre) in zip(cases, batches):
        if isinstance(r["report"], dict):
            orders.append([x["codemod"] for x in r["report"].get("results", [])] or c["seq"])
        else:
            orders.append(c["seq"])
    chains = rc.parallel([lambda c=c, o=o: run_chain(R, c, o) for c, o in zip(cases, orders)])
    terms, meta = [], []
    for c, b, ch in zip(cases, batches, chains):
        term, nt = evaluate(ctx, c, b, ch)
        ctx.case({"case": c["name"], "sequence": c["seq"], "files": sorted(c["files"])},
                 nontrivial_key=(tuple(c["seq"]), json.dumps(c["files"], sort_keys=True)) if nt else None, sample=nt)
        if term is not None:
            terms.append(term)
            meta.append(c)
    if terms:
        bad = core.eval_bad_indices(ctx, "c09_run", rc.IMPORTS, "hcase", terms, ["run_model_ok"], chunk=60)
        for i in bad["run_model_ok"]:
            c = meta[i]
            ctx.mismatch("batch CLI run vs Model.Run.run (oracle values from the chain + observed prefilter)",
                         f"{c['name']}: the model does not predict the batch run of {[short(k) for k in c['seq']]}",
                         {"project": core.b64tree(c["files"]), "sequence": c["seq"], "case_term": terms[i]})
    tv = ctx.tables or {}
    if tv.get("prefilter_shape") != "OnceBeforeAnyRewrite":
        ctx.notes.append(f"prefilter form in the source: {tv.get('prefilter_shape')}")


def replay(ctx, body):
    R = rc.Runner(ctx)
    c = {"name": "replay", "files": {k: base64.b64decode(v).decode() for k, v in body["project"].items()}, "seq": body["sequence"]}
    b = run_batch(R, c)
    order = [x["codemod"] for x in b[1]["report"].get("results", [])] if isinstance(b[1]["report"], dict) else c["seq"]
    ch = run_chain(R, c, order)
    evaluate(ctx, c, b, ch)
    tb, tc = core.read_tree(b[0]), core.read_tree(ch[0])
    print("order:", order, "| prefilter of the batch run:", b[2])
    print("trees equal:", tb == tc)
    for f in sorted(set(tb) | set(tc)):
        if tb.get(f) != tc.get(f):
            print("--- batch", f)
            print(tb.get(f, b"<absent>").decode(errors="replace"))
            print("--- chain", f)
            print(tc.get(f, b"<absent>").decode(errors="replace"))
    for v in ctx.violations:
        print(" -", v["class"], v["what"][:300])
    return 0 if not ctx.violations else 1
