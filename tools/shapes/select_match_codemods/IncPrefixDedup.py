# prefix-anchored regex matching, first occurrence kept (only the include part of this file is a new shape)
TAGS = {"include_matcher": "PrefixRegex", "include_dedup": True, "exclude_matcher": "PrefixRegex"}


def match_codemods(self, codemod_include=None, codemod_exclude=None, sast_only=False):
    codemod_include = codemod_include or []
    codemod_exclude = codemod_exclude or DEFAULT_EXCLUDED_CODEMODS

    if codemod_exclude and not codemod_include:
        base_codemods = {}
        patterns = [
            re.compile(exclude.replace("*", ".*"))
            for exclude in codemod_exclude
            if "*" in exclude
        ]
        names = set(name for name in codemod_exclude if "*" not in name)

        for codemod in self.codemods:
            if codemod.id in names or any(
                pat.match(codemod.id) for pat in patterns
            ):
                continue

            if bool(sast_only) != bool(codemod.origin == "pixee"):
                base_codemods[codemod.id] = codemod

        return list(base_codemods.values())

    matched_codemods = {}
    for name in codemod_include:
        if "*" in name:
            pat = re.compile(name.replace("*", ".*"))
            pattern_matches = [code for code in self.codemods if pat.match(code.id)]
            for code in pattern_matches:
                matched_codemods.setdefault(code.id, code)
            if not pattern_matches:
                logger.warning(
                    "Given codemod pattern '%s' does not match any codemods.", name
                )
            continue

        try:
            matched_codemods.setdefault(name, self._codemods_by_id[name])
        except KeyError:
            logger.warning(f"Requested codemod to include '{name}' does not exist.")
    return list(matched_codemods.values())
