(** Model of codemodder.registry.CodemodRegistry.match_codemods (C17). Definitions only.

    A registry is the insertion-ordered dict [_codemods_by_id]: a list of rows (id, origin) whose ids are
    pairwise different ([add_codemod_collection] raises KeyError on a second registration of an id).
    The source-dependent choices are arguments (table values, see Generated/Tables.v):
      - the matcher used for [*] patterns in the include branch and in the exclude branch,
      - whether the include branch keeps only the first occurrence of a codemod (dict.setdefault) or
        appends every match (list.extend / list.append),
      - the literal DEFAULT_EXCLUDED_CODEMODS. *)
From CM Require Export Base.Str Base.Types_Select.

(** ** patterns: [name.split("*")] joined by [.*]  ==  every [*] is a wildcard, every other character is itself *)
Inductive tok := Lit (c : N) | Star.
Definition pat := list tok.
Definition star_cp : N := 42.   (* ord("*") *)
Definition parse_pat (name : str) : pat := map (fun c => if N.eqb c star_cp then Star else Lit c) name.
Definition has_star (name : str) : bool := existsb (N.eqb star_cp) name.   (* "*" in name *)

(** [.] of the [re] module (no DOTALL flag): any character except line feed *)
Definition dot (c : N) : bool := negb (N.eqb c 10).

(** [k] on some suffix reached by skipping [dot] characters: the regex [.*] followed by [k] *)
Fixpoint star_loop (k : str -> bool) (s : str) : bool :=
  k s || match s with [] => false | x :: s' => dot x && star_loop k s' end.

(** [_wildcard_pattern(name).fullmatch(id)] *)
Fixpoint glob_full (p : pat) : str -> bool :=
  match p with
  | [] => fun s => match s with [] => true | _ :: _ => false end
  | Lit c :: p' => fun s => match s with x :: s' => N.eqb c x && glob_full p' s' | [] => false end
  | Star :: p' => star_loop (glob_full p')
  end.

(** [re.compile(name.replace("*", ".*")).match(id)] for a [name] without other regex metacharacters:
    some prefix of the id matches *)
Fixpoint glob_prefix (p : pat) : str -> bool :=
  match p with
  | [] => fun _ => true
  | Lit c :: p' => fun s => match s with x :: s' => N.eqb c x && glob_prefix p' s' | [] => false end
  | Star :: p' => star_loop (glob_prefix p')
  end.

Definition matcher (k : matcher_kind) : pat -> str -> bool :=
  match k with PrefixRegex => glob_prefix | FullGlob => glob_full end.

(** the pinned matcher is the regex engine on the raw name: faithful only when the name has no metacharacter *)
Definition regex_meta : list N := [46; 94; 36; 43; 63; 123; 125; 91; 93; 92; 124; 40; 41]%N.  (* . ^ $ + ? { } [ ] \ | ( ) *)
Definition plain (name : str) : bool := forallb (fun c => negb (existsb (N.eqb c) regex_meta)) name.

(** ** registry *)
Definition codemod := (str * str)%type.          (* (id, origin) *)
Definition cid (c : codemod) : str := fst c.
Definition corigin (c : codemod) : str := snd c.
Definition ids (l : list codemod) : list str := map cid l.

Definition pixee : str := [112; 105; 120; 101; 101]%N.   (* "pixee" *)

(** [bool(sast_only) != bool(codemod.origin == "pixee")] *)
Definition eligible (sast : bool) (c : codemod) : bool := negb (Bool.eqb sast (str_eqb (corigin c) pixee)).

(** [self._codemods_by_id[name]] *)
Definition find_id (name : str) (reg : list codemod) : option codemod :=
  find (fun c => str_eqb name (cid c)) reg.

(** ** exclude branch *)
Definition excluded_by (k : matcher_kind) (excl : list str) (c : codemod) : bool :=
  mem_str (cid c) (filter (fun n => negb (has_star n)) excl)                         (* codemod.id in names *)
  || existsb (fun n => matcher k (parse_pat n) (cid c)) (filter has_star excl).      (* any(pat.(full)match(codemod.id) ...) *)

Definition exclude_branch (k : matcher_kind) (excl : list str) (sast : bool) (reg : list codemod) : list codemod :=
  filter (fun c => negb (excluded_by k excl c) && eligible sast c) reg.

(** ** include branch *)
(** [for code in found: matched.setdefault(code.id, code)] on the insertion-ordered dict [matched] *)
Definition setdefault_all (found acc : list codemod) : list codemod :=
  fold_left (fun a c => if mem_str (cid c) (ids a) then a else a ++ [c]) found acc.

Definition add_matches (dedup : bool) (acc found : list codemod) : list codemod :=
  if dedup then setdefault_all found acc else acc ++ found.

Definition found_for (k : matcher_kind) (reg : list codemod) (name : str) : list codemod :=
  if has_star name then filter (fun c => matcher k (parse_pat name) (cid c)) reg
  else match find_id name reg with Some c => [c] | None => [] end.    (* KeyError -> warning, nothing added *)

Definition include_branch (k : matcher_kind) (dedup : bool) (reg : list codemod) (incl : list str) : list codemod :=
  fold_left (fun acc name => add_matches dedup acc (found_for k reg name)) incl [].

(** ** match_codemods *)
Record select_variant := { v_include_matcher : matcher_kind; v_include_dedup : bool; v_exclude_matcher : matcher_kind }.

Definition match_codemods_model (v : select_variant) (defaults : list str)
           (reg : list codemod) (incl excl : list str) (sast : bool) : list codemod :=
  let excl' := match excl with [] => defaults | _ :: _ => excl end in   (* codemod_exclude or DEFAULT_EXCLUDED_CODEMODS *)
  match excl', incl with
  | _ :: _, [] => exclude_branch (v_exclude_matcher v) excl' sast reg   (* if codemod_exclude and not codemod_include *)
  | _, _ => include_branch (v_include_matcher v) (v_include_dedup v) reg incl
  end.

(** ** [sast_only=argv.sonar_issues_json or argv.sarif] in codemodder.run: the named argument lists, in order *)
Definition arglists := list (str * list str).
Definition arg_given (args : arglists) (dest : str) : bool :=
  existsb (fun a => str_eqb (fst a) dest && match snd a with [] => false | _ :: _ => true end) args.
Definition sast_only_of (sources : list str) (args : arglists) : bool := existsb (arg_given args) sources.
