from __future__ import annotations

import os
import re
from dataclasses import dataclass
from importlib.metadata import EntryPoint, entry_points
from itertools import chain
from typing import TYPE_CHECKING, Callable, Optional

from codemodder.logging import logger

if TYPE_CHECKING:
    from codemodder.codemods.base_codemod import BaseCodemod


# These are generally not intended to be applied directly so they are excluded by default.
DEFAULT_EXCLUDED_CODEMODS = [
    "pixee:python/order-imports",
    "pixee:python/unused-imports",
    # See https://github.com/pixee/codemodder-python/pull/212 for concerns regarding this codemod.
    "pixee:python/fix-empty-sequence-comparison",
]


def _wildcard_pattern(name: str) -> re.Pattern:
    """Compile a codemod id pattern where `*` is the only wildcard character."""
    return re.compile(".*".join(re.escape(part) for part in name.split("*")))


@dataclass
class CodemodCollection:
    """A collection of codemods that all share the same origin and documentation."""

    origin: str
    codemods: list


class CodemodRegistry:
    _codemods_by_id: dict[str, BaseCodemod]
    _default_include_paths: set[str]

    def __init__(self):
        self._codemods_by_id = {}
        self._default_include_paths = set()

    @property
    def ids(self):
        return list(self._codemods_by_id.keys())

    @property
    def codemods(self):
        return list(self._codemods_by_id.values())

    @property
    def default_include_paths(self) -> list[str]:
        return list(self._default_include_paths)

    def add_codemod_collection(self, collection: CodemodCollection):
        for codemod in collection.codemods:
            wrapper = codemod() if isinstance(codemod, type) else codemod
            if wrapper.id in self._codemods_by_id:
                raise KeyError(
                    f"Codemod with id {wrapper.id} is already registered. Consider changing the codemod name or origin."
                )

            self._codemods_by_id[wrapper.id] = wrapper
            self._default_include_paths.update(
                chain(
                    *[
                        (f"*{ext}", os.path.join("**", f"*{ext}"))
                        for ext in wrapper.default_extensions
                    ]
                )
            )

    def match_codemods(
        self,
        codemod_include: Optional[list] = None,
        codemod_exclude: Optional[list] = None,
        sast_only=False,
    ) -> list[BaseCodemod]:
        codemod_include = codemod_include or []
        codemod_exclude = codemod_exclude or DEFAULT_EXCLUDED_CODEMODS

        if codemod_exclude and not codemod_include:
            base_codemods = {}
            patterns = [
                _wildcard_pattern(exclude)
                for exclude in codemod_exclude
                if "*" in exclude
            ]
            names = set(name for name in codemod_exclude if "*" not in name)

            for codemod in self.codemods:
                if codemod.id in names or any(
                    pat.fullmatch(codemod.id) for pat in patterns
                ):
                    continue

                if bool(sast_only) != bool(codemod.origin == "pixee"):
                    base_codemods[codemod.id] = codemod

            # Remove duplicates and preserve order
            return list(base_codemods.values())

        # Each codemod runs at most once: keep the first occurrence, in the order given
        matched_codemods: dict[str, BaseCodemod] = {}
        for name in codemod_include:
            if "*" in name:
                pat = _wildcard_pattern(name)
                pattern_matches = [
                    code for code in self.codemods if pat.fullmatch(code.id)
                ]
                for code in pattern_matches:
                    matched_codemods.setdefault(code.id, code)
                if not pattern_matches:
                    logger.warning(
                        "Given codemod pattern '%s' does not match any codemods.", name
                    )
                continue

            try:
                matched_codemods.setdefault(name, self._codemods_by_id[name])
            except KeyError:
                logger.warning(f"Requested codemod to include '{name}' does not exist.")
        return list(matched_codemods.values())

    def describe_codemods(
        self,
        codemod_include: Optional[list] = None,
        codemod_exclude: Optional[list] = None,
    ) -> list[dict]:
        codemods = self.match_codemods(codemod_include, codemod_exclude)
        return [codemod.describe() for codemod in codemods]


def load_registered_codemods(ep_filter: Optional[Callable[[EntryPoint], bool]] = None):
    registry = CodemodRegistry()
    logger.debug("loading registered codemod collections")

    # de-duplicate but keep a deterministic order (a set would be ordered by hash seed)
    for entry_point in dict.fromkeys(entry_points().select(group="codemods")):
        if ep_filter and not ep_filter(entry_point):
            logger.debug(
                '- skipping codemod collection "%s" from "%s as requested"',
                entry_point.name,
                entry_point.module,
            )
            continue

        logger.debug(
            '- loading codemod collection "%s" from "%s"',
            entry_point.name,
            entry_point.module,
        )
        collection = entry_point.load()
        registry.add_codemod_collection(collection)
    return registry
