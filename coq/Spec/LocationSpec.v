(** What C06/C18 demand of the join between tool results and syntax nodes, independent of how the code computes it. *)
From CM Require Import Model.Location.
Local Open Scope Z_scope.

(** A location points at a span within the column tolerances. *)
Definition points_at (ts te : list Z) (p : span) (l : loc) : Prop :=
  pline (sstart p) = pline (lstart l) /\ pline (send p) = pline (lend l) /\
  (exists d, In d ts /\ pcol (sstart p) = pcol (lstart l) + d) /\
  (exists d, In d te /\ pcol (send p) = pcol (lend l) + d).

(** A line-only location lies on a line of the span (DefectDojo). *)
Definition on_lines_of (p : span) (l : loc) : Prop :=
  pline (sstart p) <= pline (lstart l) <= pline (send p).

(** What "the result reports this node" means for a result of class c and a node of kind k at span p. *)
Definition reports (T : ltab) (c : rclass) (k : node_kind) (p : span) (l : loc) : Prop :=
  match c with
  | RDefectDojo => on_lines_of p l
  | _ => points_at (tol_s T) (tol_e T) (eff_span T c k p) l
  end.

(** Span discipline: two spans are separated when no single location can point at both within a
    one-column tolerance: they differ in a line, or in a column by at least two. *)
Definition separated (p q : span) : bool :=
  negb (pline (sstart p) =? pline (sstart q)) || negb (pline (send p) =? pline (send q)) ||
  (2 <=? Z.abs (pcol (sstart p) - pcol (sstart q))) || (2 <=? Z.abs (pcol (send p) - pcol (send q))).
Fixpoint pairwise {A} (f : A -> A -> bool) (l : list A) : bool :=
  match l with [] => true | x :: r => forallb (f x) r && pairwise f r end.
(** decidable hypothesis over the candidate nodes of a program, for results of class c *)
Definition span_discipline (T : ltab) (c : rclass) (cands : list node) : bool :=
  pairwise (fun n m => separated (eff_span T c (nkind n) (nspan n)) (eff_span T c (nkind m) (nspan m))) cands.
(** DefectDojo has no columns: candidates must lie on pairwise disjoint line ranges. *)
Definition lines_apart (p q : span) : bool :=
  (pline (send p) <? pline (sstart q)) || (pline (send q) <? pline (sstart p)).
Definition line_discipline (cands : list node) : bool := pairwise (fun n m => lines_apart (nspan n) (nspan m)) cands.

(** The fuzzy override (location inside the call, one column of slack): candidate calls on the same lines must have
    column ranges that are apart by more than that slack. *)
Definition fuzzy_apart (p q : span) : bool :=
  negb (pline (sstart p) =? pline (sstart q)) || negb (pline (send p) =? pline (send q)) ||
  (pcol (send p) + 1 <? pcol (sstart q)) || (pcol (send q) + 1 <? pcol (sstart p)).
Definition fuzzy_discipline (cands : list node) : bool := pairwise (fun n m => fuzzy_apart (nspan n) (nspan m)) cands.

(** The tolerance sets are tight: any two admitted offsets differ by at most one column. *)
Definition tol_close (t : list Z) : bool := forallb (fun a => forallb (fun b => Z.abs (a - b) <=? 1) t) t.
Definition unique_ok (T : ltab) : bool := tol_close (tol_s T) && tol_close (tol_e T).

(** Result r is the report of exactly the site n (one location, pointing at n). *)
Definition site_report (T : ltab) (c : rclass) (n : node) (r : result) : Prop :=
  rcls r = c /\ exists l, rlocs r = [l] /\ match_loc T c (nkind n) (nspan n) l = true.

(** Findings a change at [line] must carry: those of the results one of whose locations covers the line. *)
Definition covers (r : result) (line : Z) : Prop :=
  exists l, In l (rlocs r) /\ pline (lstart l) <= line <= pline (lend l).

Definition finding_list (r : result) : list finding := match rfinding r with Some f => [f] | None => [] end.

(** Reference form of rule_id.split(".")[-1]: the suffix after the last dot. *)
Definition no_dot (s : str) : Prop := ~ In 46%N s.
