import re
from typing import Pattern

from codemodder.codemods.base_transformer import BaseTransformerPipeline
from codemodder.codetf import Change, ChangeSet
from codemodder.context import CodemodExecutionContext
from codemodder.diff import create_diff
from codemodder.file_context import FileContext
from codemodder.logging import logger
from codemodder.result import Result


class RegexTransformerPipeline(BaseTransformerPipeline):
    pattern: Pattern | str
    replacement: str
    change_description: str

    def __init__(
        self, pattern: Pattern | str, replacement: str, change_description: str
    ):
        super().__init__()
        self.pattern = pattern
        self.replacement = replacement
        self.change_description = change_description

    def _apply_regex(self, line):
        return re.sub(self.pattern, self.replacement, line)

    def _apply(self, original_lines, file_context, results):
        del results

        changes = []
        updated_lines = []

        for lineno, line in enumerate(original_lines):
            changed_line = self._apply_regex(line)
            updated_lines.append(changed_line)
            if line != changed_line:
                changes.append(
                    Change(
                        lineNumber=lineno + 1,
                        description=self.change_description,
                        findings=file_context.get_findings_for_location(lineno + 1),
                    )
                )
        return changes, updated_lines

    def apply(
        self,
        context: CodemodExecutionContext,
        file_context: FileContext,
        results: list[Result] | None,
    ) -> ChangeSet | None:

        try:
            original_lines = (
                file_context.file_path.read_bytes()
                .decode("utf-8")
                .splitlines(keepends=True)
            )
        except Exception:
            file_context.add_failure(
                file_context.file_path, reason := "Failed to read file"
            )
            logger.exception("%s %s", reason, file_context.file_path)
            return None

        try:
            changes, updated_lines = self._apply(original_lines, file_context, results)
        except Exception:
            file_context.add_failure(
                file_context.file_path, reason := "Failed to transform file"
            )
            logger.exception("%s %s", reason, file_context.file_path)
            return None

        if not changes:
            logger.debug("No changes produced for %s", file_context.file_path)
            return None

        diff = create_diff(original_lines, updated_lines)

        if not context.dry_run:
            file_context.file_path.write_bytes("".join(updated_lines).encode("utf-8"))

        return ChangeSet(
            path=str(file_context.file_path.relative_to(context.directory)),
            diff=diff,
            changes=changes,
        )


class SastRegexTransformerPipeline(RegexTransformerPipeline):
    def line_matches_result(self, lineno: int, result_linenums: list[int]) -> bool:
        return lineno in result_linenums

    def report_unfixed(self, file_context: FileContext, line_number: int, reason: str):
        findings = file_context.get_findings_for_location(line_number)
        file_context.add_unfixed_findings(findings, reason, line_number)

    def _apply(self, original_lines, file_context, results):
        changes = []
        updated_lines = []
        if results is not None and not results:
            return changes, updated_lines

        result_linenums = [
            location.start.line for result in results for location in result.locations
        ]
        for lineno, line in enumerate(original_lines):
            if self.line_matches_result(one_idx_lineno := lineno + 1, result_linenums):
                changed_line = self._apply_regex(line)
                updated_lines.append(changed_line)
                if line == changed_line:
                    logger.warn("Unable to update html line: %s", line)
                    self.report_unfixed(
                        file_context,
                        one_idx_lineno,
                        reason="Unable to update html line",
                    )
                    continue

                changes.append(
                    Change(
                        lineNumber=lineno + 1,
                        description=self.change_description,
                        findings=file_context.get_findings_for_location(lineno + 1),
                    )
                )

            else:
                updated_lines.append(line)
        return changes, updated_lines
