(** The serialisation of every well-formed report value satisfies the (reconstructed) CodeTF schema. *)
From CM Require Import Model.Report Spec.ReportSpec.

Lemma forallb_map_comp {A B} (f : A -> B) (p : B -> bool) l : forallb p (map f l) = forallb (fun x => p (f x)) l.
Proof. induction l as [|x l IH]; simpl; [reflexivity|now rewrite IH]. Qed.

Lemma arr_of_jlist {A} (f : A -> json) p (l : list A) :
  (forall x, In x l -> p (f x) = true) -> arr_of p (jlist f l) = true.
Proof.
  intros H. unfold arr_of, jlist. rewrite forallb_map_comp. apply forallb_forall. exact H.
Qed.

Lemma arr1_of_jlist {A} (f : A -> json) p (l : list A) :
  l <> [] -> (forall x, In x l -> p (f x) = true) -> arr1_of p (jlist f l) = true.
Proof.
  intros Hne H. destruct l as [|x l]; [congruence|]. unfold arr1_of, jlist. cbn [map].
  rewrite (H x) by (left; reflexivity). cbn [andb]. rewrite forallb_map_comp. apply forallb_forall. intros y Hy. apply H. now right.
Qed.

Arguments arr_of : simpl never.
Arguments arr1_of : simpl never.
Arguments jlist : simpl never.

Lemma sch_rule_ok r : sch_rule (rule_json r) = true.
Proof. destruct r as [i n [u|]]; reflexivity. Qed.
Arguments sch_rule : simpl never.

Lemma sch_finding_ok f : sch_finding (finding_json f) = true.
Proof. destruct f as [i r]. cbn. now rewrite sch_rule_ok. Qed.
Arguments sch_finding : simpl never.

Definition unfixed_line_ok (u : unfixed) : bool := match uf_line u with Some z => (0 <=? z)%Z | None => true end.
Lemma sch_unfixed_ok u : unfixed_line_ok u = true -> sch_unfixed (unfixed_json u) = true.
Proof.
  destruct u as [i r p [z|] rs]; unfold unfixed_line_ok; cbn; intros H; rewrite sch_rule_ok; cbn; [now rewrite H|reflexivity].
Qed.
Arguments sch_unfixed : simpl never.

Lemma sch_package_action_ok p : sch_package_action (package_action_json p) = true.
Proof. destruct p as [[|] [| |] s]; reflexivity. Qed.
Arguments sch_package_action : simpl never.

(** what the schema needs of a change: the two validators *)
Definition change_valid (c : change) : bool :=
  (1 <=? ch_line c)%Z && match ch_desc c with Some [] => false | _ => true end.

Lemma sch_change_ok c : change_valid c = true -> sch_change (change_json c) = true.
Proof.
  destruct c as [ln d sd pr pk fs]. unfold change_valid. cbn [ch_line ch_desc]. intros H.
  apply andb_true_iff in H as [Hl Hd].
  assert (Hpk : forall l, arr_of sch_package_action (jlist package_action_json l) = true)
    by (intros l; apply arr_of_jlist; intros; apply sch_package_action_ok).
  assert (Hfs : forall l, arr_of sch_finding (jlist finding_json l) = true)
    by (intros l; apply arr_of_jlist; intros; apply sch_finding_ok).
  destruct d as [[|c0 d]|]; try discriminate; destruct sd, pr, pk, fs; cbn; rewrite ?Hl, ?Hpk, ?Hfs; reflexivity.
Qed.
Arguments sch_change : simpl never.

Lemma sch_ai_ok a : sch_ai (ai_json a) = true.
Proof. destruct a as [[p|] [m|] [t|]]; reflexivity. Qed.
Arguments sch_ai : simpl never.

(** what the schema needs of a changeset *)
Definition changeset_valid (c : changeset) : bool :=
  negb (is_nil (cs_path c)) && negb (is_nil (cs_diff c)) && negb (is_nil (cs_changes c)) && forallb change_valid (cs_changes c).

Lemma sch_changeset_ok c : changeset_valid c = true -> sch_changeset (changeset_json c) = true.
Proof.
  destruct c as [p d chs ai]. unfold changeset_valid. cbn [cs_path cs_diff cs_changes]. intros H.
  repeat (apply andb_true_iff in H as [H ?]).
  assert (Hc : arr1_of sch_change (jlist change_json chs) = true).
  { apply arr1_of_jlist. - destruct chs; [discriminate|congruence].
    - intros x Hx. apply sch_change_ok. eapply forallb_forall; eauto. }
  destruct p; [discriminate|]. destruct d; [discriminate|].
  destruct ai; cbn; rewrite Hc, ?sch_ai_ok; reflexivity.
Qed.
Arguments sch_changeset : simpl never.

Lemma sch_reference_ok r : sch_reference (reference_json r) = true.
Proof. destruct r as [u [d|]]; reflexivity. Qed.
Arguments sch_reference : simpl never.
Lemma sch_tool_ok t : sch_tool (tool_json t) = true.
Proof. destruct t; reflexivity. Qed.
Arguments sch_tool : simpl never.
Lemma sch_sarif_ok s : sch_sarif (sarif_json s) = true.
Proof. destruct s; reflexivity. Qed.
Arguments sch_sarif : simpl never.

Definition result_valid (r : result) : bool :=
  forallb changeset_valid (rs_changeset r) &&
  match rs_unfixed r with Some l => forallb unfixed_line_ok l | None => true end.

Lemma sch_result_ok r : result_valid r = true -> sch_result (result_json r) = true.
Proof.
  destruct r as [cm sm ds tl rf pr fl chs uf]. unfold result_valid. cbn [rs_changeset rs_unfixed]. intros H.
  apply andb_true_iff in H as [Hcs Hu].
  assert (H1 : arr_of sch_changeset (jlist changeset_json chs) = true).
  { apply arr_of_jlist. intros x Hx. apply sch_changeset_ok. eapply forallb_forall; eauto. }
  assert (H2 : forall l, arr_of sch_reference (jlist reference_json l) = true)
    by (intros l; apply arr_of_jlist; intros; apply sch_reference_ok).
  assert (H3 : forall l, arr_of is_str (jlist JStr l) = true) by (intros l; apply arr_of_jlist; reflexivity).
  assert (H4 : forall l, forallb unfixed_line_ok l = true -> arr_of sch_unfixed (jlist unfixed_json l) = true).
  { intros l Hl. apply arr_of_jlist. intros x Hx. apply sch_unfixed_ok. eapply forallb_forall; eauto. }
  destruct tl, rf, pr, fl, uf; cbn; rewrite ?H1, ?H2, ?H3, ?H4, ?sch_tool_ok by assumption; reflexivity.
Qed.
Arguments sch_result : simpl never.

Lemma sch_run_ok r : rn_elapsed r <> None -> sch_run (run_json r) = true.
Proof.
  destruct r as [v t ve pn cl [e|] d sa]; [intros _|intros H; exfalso; apply H; reflexivity].
  assert (H : arr_of sch_sarif (jlist sarif_json sa) = true) by (apply arr_of_jlist; intros; apply sch_sarif_ok).
  destruct pn; cbn; rewrite H; reflexivity.
Qed.
Arguments sch_run : simpl never.

Definition codetf_valid (c : codetf) : Prop := rn_elapsed (ct_run c) <> None /\ forallb result_valid (ct_results c) = true.

Lemma schema_ok_to_json c : codetf_valid c -> schema_ok (to_json c) = true.
Proof.
  intros [He Hr]. destruct c as [r rs]. cbn [ct_run ct_results] in *.
  assert (H : arr_of sch_result (jlist result_json rs) = true).
  { apply arr_of_jlist. intros x Hx. apply sch_result_ok. eapply forallb_forall; eauto. }
  cbn. rewrite sch_run_ok by assumption. rewrite H. reflexivity.
Qed.
