class SetupCfgWriter:
    def add_to_file(
        self, dependencies: list[Dependency], dry_run: bool = False
    ) -> Optional[ChangeSet]:
        config = configparser.ConfigParser()

        try:
            config.read(self.path)
        except configparser.ParsingError:
            logger.debug("Unable to parse setup.cfg file.")
            return None

        if "options" not in config or not (
            defined_dependencies := config["options"].get("install_requires", "")
        ):
            logger.debug("Unable to add dependencies to setup.cfg file.")
            return None

        with open(self.path, "r", encoding="utf-8") as f:
            original_lines = f.readlines()
        if original_lines and not original_lines[-1].endswith("\n"):
            # like RequirementsTxtWriter: terminate the last line, else the first added
            # requirement is glued to it on disk while the diff shows it on a line of its own
            original_lines[-1] += "\n"

        if not (
            new_lines := self.build_new_lines(
                original_lines, defined_dependencies, dependencies
            )
        ):
            logger.debug("Unable to add dependencies to setup.cfg file.")
            return None

        if not dry_run:
            try:
                with open(self.path, "w", encoding="utf-8") as f:
                    f.writelines(new_lines)
            except Exception:
                logger.debug("Unable to add dependencies to setup.cfg file.")
                return None

        diff, added_line_nums = create_diff_and_linenums(original_lines, new_lines)

        changes = self.build_changes(
            dependencies, added_line_nums_strategy, added_line_nums
        )
        return ChangeSet(
            path=str(self.path.relative_to(self.parent_directory)),
            diff=diff,
            changes=changes,
        )
