"""C20 — the exit status tells the caller what happened.

A *world* (coq/Model/Exit.v) fixes the outcome of every oracle the entry point consults.  The harness draws worlds,
realises each one as a real invocation of the console entry point (argument vector from the option grammar, result
files present/missing/duplicated/malformed, AI-client environment, --output path writable or not) on a tiny scratch
project, and compares (exit status, traceback seen, report file exists) with `run_exit` at the generated tables and
with `documented` — both evaluated inside Coq (coq/Harness/C20_run.v).  The active branch of the table-indexed
theorems is read back from Coq and every counterexample class is replayed on the implementation."""
from __future__ import annotations

import json
import os
import re
from concurrent.futures import ThreadPoolExecutor
from pathlib import Path

from harness import core
from harness.core import cN, cZ, cbool, clist, cpair

META = {
    "rule": "worlds = argparse outcome (valid / refused: unknown option, include+exclude, missing operand, bad --max-workers, bad choice, "
            "no directory / early exit: --help --version --list --describe) x --max-workers <= 0 x non-integer path:line x directory "
            "exists x SARIF (none|one|two of one tool|missing|malformed: bad JSON, no runs, a directory) x missing file per result option "
            "(sonar issues, hotspots, defectdojo, contrast) x a mode-000 file handed to semgrep (semgrep-detected codemod selected) x AI env (unset / both empty / exactly one of key, endpoint for Azure OpenAI or Llama) x "
            "shape of the target tree (one file, empty, only sub-directories, only non-Python files, only default-excluded files, a symlinked file only, "
            "a dangling symlink, undecodable/unparsable files, a 40-level deep tree, 25 files) x kind of run (plain, --dry-run, SAST result files given, "
            "--codemod-include selecting nothing; thorough: default codemods) x --output (none / writable / missing parent / a directory / parent is a file / read-only place / /dev/full / write failing half-way by injection); single deviations from the "
            "nominal run exhaustively, then pairs and random combinations; each realised by a real CLI run; non-trivial = not the nominal world",
    "trusted": [
        "argparse decides which argument vectors are refused (oracle: the harness builds one vector per class and observes the status)",
        "sys.excepthook (wrapped from the harness) is reached exactly by the exceptions that escape main(); status 1 then (CPython)",
        "the partial write is a fault injected from the harness: inside codemodder.codetf, open() of the --output path returns a file "
        "object whose write() stores half of the text and raises OSError(ENOSPC)",
        "the file system of the scratch directory (missing parent, directory, /proc) makes open(..., 'w') fail as intended",
    ],
    "assumptions": [
        "an early-exit option (--list ...) is placed before any erroneous option: argparse acts on options in command-line order",
        "AI-client combinations with BOTH key and endpoint set to real values are not exercised (a client object would be constructed)",
    ],
}

IMPORTS = "From CM Require Import Harness.RunBase Harness.C20_run Model.Exit Spec.ExitSpec Proofs.ExitFacts.\n"

FIELDS = ["argparse", "bad_workers", "bad_line", "dir_exists", "sarif", "miss_issues", "miss_hotspots", "miss_dd", "miss_contrast",
          "ai_consistent", "output", "write_ok", "write_partial", "unreadable_target"]
NOMINAL = dict(argparse=0, bad_workers=0, bad_line=0, dir_exists=1, sarif=0, miss_issues=0, miss_hotspots=0, miss_dd=0, miss_contrast=0,
               ai_consistent=1, output=1, write_ok=1, write_partial=0, unreadable_target=0)
DOMAIN = dict(argparse=[0, 1, 2], sarif=[0, 1, 2, 3])

TINY = {"a.py": "x = set([1, 2])\n"}
SARIF_SEMGREP = {"version": "2.1.0", "runs": [{"tool": {"driver": {"name": "Semgrep OSS"}}, "results": []}]}
TRIVIAL = ["--codemod-include", "pixee:python/use-set-literal"]
SEMGREP_DETECTED = ["--codemod-include", "pixee:python/secure-random"]     # its detector hands the files to `semgrep scan`


def code_of(w):
    return [w[f] for f in FIELDS]


def world_of(code):
    return dict(zip(FIELDS, code))


def c_world(w):
    return clist([cN(x) for x in code_of(w)], "N")


def deviations(w):
    return [f for f in FIELDS if w[f] != NOMINAL[f]]


SARIF_EXC = ("JSONDecodeError", "KeyError", "IsADirectoryError", "UnicodeDecodeError", "TypeError")


def classify(w, obs, err, attrib):
    """finding class of a (world, observation) that deviates from the documented status — decided by what was OBSERVED
    (exception text; or: the status/report are exactly the documented ones of the same world without the unvalidated
    argument value, as evaluated in Coq: `attrib`), never by the shape of the input alone"""
    d = set(deviations(w))
    rc, tb, rep = obs
    if tb:
        exc = (re.findall(r"@@UNCAUGHT@@ (\S+)", err) or ["?"])[-1]
        if attrib["crash_reached"]:
            if w["bad_line"] and exc == "ValueError" and "invalid literal for int()" in err:
                return "kf_exit_noninteger_line_unvalidated"
            if w["bad_workers"] and exc == "ValueError" and "max_workers must be greater than 0" in err:
                return "kf_exit_nonpositive_max_workers_unvalidated"
            if w["sarif"] == 3 and exc in SARIF_EXC and ("sarifs.py" in err or "detect_sarif_tools" in err):
                return "kf_exit_crash_malformed_sarif"
            if w["unreadable_target"] and exc == "CalledProcessError" and "semgrep" in err and "returned non-zero exit status 2" in err:
                return "kf_exit_crash_semgrep_unreadable_target"
        return f"kf_exit_crash_other_{exc}"
    if attrib["attrib_line_ok"]:
        return "kf_exit_noninteger_line_unvalidated"
    if attrib["attrib_workers_ok"]:
        return "kf_exit_nonpositive_max_workers_unvalidated"
    if attrib["attrib_contrast_ok"]:
        return "kf_exit_contrast_file_unchecked"
    if attrib["attrib_write_dropped_ok"]:
        return "kf_exit_report_status_dropped"
    return "kf_exit_status_" + ("+".join(sorted(d)) or "nominal")


# ------------------------------------------------------------------------------------------------
# realisation of a world as an invocation
# ------------------------------------------------------------------------------------------------
class Realiser:
    def __init__(self, ctx):
        self.ctx = ctx
        self.rng = ctx.rng
        self.n = 0
        self.root = ctx.scratch / "c20"
        self.root.mkdir(exist_ok=True)
        shared = self.root / "shared"
        shared.mkdir(exist_ok=True)
        self.shared = shared
        (shared / "semgrep1.sarif").write_text(json.dumps(SARIF_SEMGREP))
        (shared / "semgrep2.sarif").write_text(json.dumps(SARIF_SEMGREP))
        (shared / "bad.sarif").write_text("{not json")
        (shared / "noruns.sarif").write_text(json.dumps({"version": "2.1.0"}))
        (shared / "issues.json").write_text(json.dumps({"issues": []}))
        (shared / "hotspots.json").write_text(json.dumps({"hotspots": []}))
        (shared / "dd.json").write_text(json.dumps({"results": []}))
        (shared / "contrast.xml").write_text("<vulnerabilities/>")
        (shared / "afile.txt").write_text("x")

    def realise(self, w, variant=None, minimal=False):
        """-> dict(argv, env, out (Path|None), label); minimal: no optional decoration, first realisation of each class.
        variant "tree:<shape>:<mode>" fixes the shape of the target tree and the kind of run (see TREE_SHAPES, RUN_MODES)"""
        rng = _First() if minimal else self.rng
        self.n += 1
        d = self.root / f"run{self.n}"
        proj = d / "proj"
        label = []
        shape, mode = "one_file", "plain"
        if isinstance(variant, str) and variant.startswith("tree:"):
            _, shape, mode = variant.split(":")
            variant = None
        elif not minimal and not w["bad_line"] and not w["unreadable_target"] and w["dir_exists"] and self.rng.random() < 0.35:
            # the status does not depend on what the target tree contains (a non-integer `path:line` item only bites
            # when its path matches a processed file, so those worlds keep the one-file tree)
            shape, mode = self.rng.choice(list(TREE_SHAPES)), self.rng.choice(RUN_MODES)
        build_tree(proj, d, shape)
        if w["unreadable_target"] and w["dir_exists"]:
            # a file without the owner-read bit (semgrep looks at the mode bits, so this holds for root too)
            core.write_tree(proj, {"locked.py": "import random\nrandom.random()\n"})
            os.chmod(proj / "locked.py", 0)
            label.append("a file with mode 000 in the tree, semgrep-detected codemod selected")
        if shape != "one_file":
            label.append(f"target tree: {shape}")
        target = str(proj) if w["dir_exists"] else str(d / "no_such_dir")
        if not w["dir_exists"]:
            label.append("target directory missing")
        argv = [target] + (["--codemod-include", "pixee:python/no-such-codemod,acme:*"] if mode == "select_nothing"
                           else SEMGREP_DETECTED if w["unreadable_target"] else TRIVIAL)
        if mode != "plain":
            label.append(f"run mode: {mode}")
        if mode == "dry_run":
            argv += ["--dry-run"]
        if mode == "default_codemods":
            argv = [target]
        if mode == "sast_files" and w["sarif"] == 0:
            argv += ["--sonar-issues-json", str(self.shared / "issues.json"), "--sarif", str(self.shared / "semgrep1.sarif")]
        env = {}
        for k in ("CODEMODDER_AZURE_OPENAI_API_KEY", "CODEMODDER_AZURE_OPENAI_ENDPOINT", "CODEMODDER_AZURE_LLAMA_API_KEY",
                  "CODEMODDER_AZURE_LLAMA_ENDPOINT", "CODEMODDER_OPENAI_API_KEY"):
            env[k] = ""       # run_cli merges into os.environ: make sure nothing is inherited
        if w["bad_workers"]:
            v = rng.choice(["0", "-1", "-3"])
            argv += [f"--max-workers={v}"]
            label.append(f"max-workers={v}")
        elif rng.random() < 0.3:
            argv += ["--max-workers", rng.choice(["1", "2", "4"])]
        if w["bad_line"]:
            opt = rng.choice(["--path-include", "--path-exclude"])
            argv += [opt, rng.choice(["a.py:x", "a.py:1.5", "*.py:", "a.py:one"])]
            label.append(opt + " non-integer line")
        # SARIF
        s = w["sarif"]
        if s == 1:
            argv += ["--sarif", f"{self.shared / 'semgrep1.sarif'},{self.shared / 'semgrep2.sarif'}"]
            label.append("two SARIF files of one tool")
        elif s == 2:
            argv += ["--sarif", rng.choice([str(d / "missing.sarif"), f"{self.shared / 'semgrep1.sarif'},{d / 'missing.sarif'}"])]
            label.append("missing SARIF file")
        elif s == 3:
            kind = rng.choice(["bad.sarif", "noruns.sarif", "DIR"])
            argv += ["--sarif", str(self.shared) if kind == "DIR" else str(self.shared / kind)]
            label.append(f"malformed SARIF ({kind})")
        elif rng.random() < 0.3 and mode != "sast_files":
            argv += ["--sarif", str(self.shared / "semgrep1.sarif")]
        # other result files
        for field, opt, good in (("miss_issues", "--sonar-issues-json", "issues.json"), ("miss_hotspots", "--sonar-hotspots-json", "hotspots.json"),
                                 ("miss_dd", "--defectdojo-findings-json", "dd.json"), ("miss_contrast", "--contrast-vulnerabilities-xml", "contrast.xml")):
            if w[field]:
                vals = [str(d / ("missing_" + good))]
                if rng.random() < 0.3:
                    vals.insert(rng.randint(0, 1), str(self.shared / good))
                argv += [opt, ",".join(vals)]
                label.append(f"missing {opt} file")
            elif rng.random() < 0.25 and not (mode == "sast_files" and field == "miss_issues"):
                argv += [opt, str(self.shared / good)]
        # AI environment
        if not w["ai_consistent"]:
            k = rng.choice(["CODEMODDER_AZURE_OPENAI_API_KEY", "CODEMODDER_AZURE_OPENAI_ENDPOINT", "CODEMODDER_AZURE_LLAMA_API_KEY",
                            "CODEMODDER_AZURE_LLAMA_ENDPOINT"])
            env[k] = "dummy-value-for-test"
            label.append(f"only {k} set")
        # output
        out = None
        inject = None
        if w["output"]:
            if w["write_ok"]:
                out = d / "report.codetf.json"
            elif w["write_partial"]:
                out = d / "report.codetf.json"
                inject = str(out)
                label.append("--output: open succeeds, write fails half-way (injected ENOSPC)")
            else:
                kind = variant if variant in UNWRITABLE else rng.choice(UNWRITABLE)
                if kind == "missing_parent":
                    out = d / "no" / "such" / "dir" / "report.json"
                elif kind == "is_directory":
                    out = d / "outdir"
                    out.mkdir(parents=True)
                elif kind == "parent_is_file":
                    out = self.shared / "afile.txt" / "report.json"
                elif kind == "dev_full":
                    out = Path("/dev/full")      # open succeeds, every write fails, nothing is kept
                else:
                    if os.geteuid() == 0:
                        out = Path("/proc") / f"verif-c20-{os.getpid()}-{self.n}.json"   # read-only place even for root
                    else:
                        ro = d / "ro"
                        ro.mkdir(parents=True)
                        os.chmod(ro, 0o555)
                        out = ro / "report.json"
                label.append(f"--output unwritable ({kind})")
            argv += ["--output", str(out)]
        # valid extras (repeated options, flags); a repeated option REPLACES the earlier value, so the extras that would
        # undo a world's realisation (the non-integer item, the semgrep-detected codemod, the file list) are left out
        if rng.random() < 0.4:
            extras = [["--dry-run"], ["--verbose"], ["--no-dry-run"], ["--log-format", "json"], ["--project-name", "p"], ["--output-format", "codetf"]]
            if not w["unreadable_target"] and mode != "select_nothing":
                extras.append(["--codemod-include", "pixee:python/use-set-literal"])
            if not w["unreadable_target"] and not w["bad_line"]:
                extras.append(["--path-include", "*.py", "--path-include", "a.py"])
            argv += rng.choice(extras)
        # argparse outcome
        if w["argparse"] == 1:
            kind = variant if variant in PARSE_ERRORS else rng.choice(list(PARSE_ERRORS))
            argv = PARSE_ERRORS[kind](argv, rng)
            label.append(f"argparse refuses: {kind}")
        elif w["argparse"] == 2:
            flag = variant if variant in ("--help", "--version", "--list", "--describe", "-h") else rng.choice(["--help", "--version", "--list", "--describe", "-h"])
            argv = [flag] + (argv if rng.random() < 0.6 else [])
            label.append(flag)
        return {"argv": argv, "env": env, "out": out, "label": "; ".join(label) or "nominal", "dir": d, "inject": inject}


RUN_MODES = ["plain", "dry_run", "sast_files", "select_nothing"]     # + "default_codemods" (thorough only: runs semgrep)


def build_tree(proj: Path, d: Path, shape: str):
    """the target directory in one of the shapes of TREE_SHAPES"""
    proj.mkdir(parents=True, exist_ok=True)
    TREE_SHAPES[shape](proj, d)


def _t_one_file(proj, d):
    core.write_tree(proj, TINY)


def _t_empty(proj, d):
    pass


def _t_dirs_only(proj, d):
    (proj / "src" / "pkg").mkdir(parents=True)
    (proj / "docs").mkdir()


def _t_non_python_only(proj, d):
    core.write_tree(proj, {"README.md": "# nothing to see\n", "data/values.txt": "1\n2\n", "Makefile": "all:\n\ttrue\n"})


def _t_excluded_only(proj, d):
    core.write_tree(proj, {"tests/test_a.py": "x = set([1, 2])\n", "tests/unit/test_b.py": "y = set([3])\n"})


def _t_symlink_only(proj, d):
    core.write_tree(d / "outside", {"real.py": "x = set([1, 2])\n"})
    os.symlink(d / "outside" / "real.py", proj / "link.py")


def _t_dangling_symlink(proj, d):
    os.symlink(d / "outside" / "gone.py", proj / "dangling.py")


def _t_unreadable(proj, d):
    (proj / "b.py").write_bytes(b"\xff\xfe\x00x = set([1, 2])\n")     # not decodable
    core.write_tree(proj, {"c.py": "x = set([1, 2]\n"})                     # not parsable
    # (a file without the read permission bit is the world field unreadable_target: semgrep refuses it)


def _t_deep(proj, d):
    deep = proj
    for i in range(40):
        deep = deep / f"d{i}"
    core.write_tree(deep, {"a.py": "x = set([1, 2])\n"})
    core.write_tree(proj, {"top.py": "y = set([3])\n"})


def _t_many(proj, d):
    core.write_tree(proj, {f"pkg/m{i}.py": f"x{i} = set([{i}])\n" for i in range(25)})


TREE_SHAPES = {"one_file": _t_one_file, "empty": _t_empty, "dirs_only": _t_dirs_only, "non_python_only": _t_non_python_only,
               "excluded_only": _t_excluded_only, "symlink_only": _t_symlink_only, "dangling_symlink": _t_dangling_symlink,
               "unreadable": _t_unreadable, "deep": _t_deep, "many_files": _t_many}

UNWRITABLE = ["missing_parent", "is_directory", "parent_is_file", "readonly", "dev_full"]


class _First:
    """deterministic stand-in for the generator: first alternative, no optional extras"""

    def choice(self, seq):
        return list(seq)[0]

    def random(self):
        return 1.0

    def randint(self, a, b):
        return a


def _pe_unknown(argv, rng):
    return argv + [rng.choice(["--frobnicate", "--codemod", "-x", "--sarifs=a"])]


def _pe_conflict(argv, rng):
    return argv + ["--codemod-exclude", "pixee:python/secure-random"]


def _pe_missing_operand(argv, rng):
    return argv + [rng.choice(["--output", "--codemod-include", "--sarif", "--max-workers", "--path-include"])] \
        if "--output" not in argv else argv + [rng.choice(["--codemod-include", "--sarif", "--max-workers"])]


def _pe_bad_workers(argv, rng):
    return [a for a in argv if not a.startswith("--max-workers")] + ["--max-workers", rng.choice(["x", "1.5", "", "two"])]


def _pe_bad_choice(argv, rng):
    return argv + rng.choice([["--output-format", "xml"], ["--log-format", "yaml"]])


def _pe_no_directory(argv, rng):
    return argv[1:]


def _pe_two_directories(argv, rng):
    return argv + ["another_dir"]


PARSE_ERRORS = {"unknown_option": _pe_unknown, "include_and_exclude": _pe_conflict, "missing_operand": _pe_missing_operand,
                "bad_max_workers": _pe_bad_workers, "bad_choice": _pe_bad_choice, "no_directory": _pe_no_directory,
                "two_directories": _pe_two_directories}


# ------------------------------------------------------------------------------------------------
# installed in the child from the harness: tells an exception that ESCAPES main() from one that is caught and logged
PRELOAD = ("import sys\n_verif_hook = sys.excepthook\n"
           "def _verif_uncaught(*a):\n    sys.stderr.write('@@UNCAUGHT@@ ' + getattr(a[0], '__name__', '?') + '\\n')\n    _verif_hook(*a)\n"
           "sys.excepthook = _verif_uncaught\n")


PRELOAD_PARTIAL = """
import errno as _errno, builtins as _bi, codemodder.codetf as _codetf
_VERIF_TARGET = %r
class _VerifHalf:
    def __init__(self, f): self.f = f
    def write(self, data):
        self.f.write(data[:max(1, len(data) // 2)]); self.f.flush()
        raise OSError(_errno.ENOSPC, "No space left on device (injected by the verification harness)")
    def __enter__(self): return self
    def __exit__(self, *a): self.f.close(); return False
def _verif_open(path, mode="r", *a, **k):
    f = _bi.open(path, mode, *a, **k)
    return _VerifHalf(f) if (str(path) == _VERIF_TARGET and "w" in mode) else f
_codetf.open = _verif_open
"""


def output_state(out):
    """0 nothing (no regular file at the path) / 1 a regular file that is not a complete JSON document / 2 a complete JSON document"""
    if out is None or not out.is_file():
        return 0
    try:
        return 2 if isinstance(json.loads(out.read_text()), dict) else 1
    except Exception:
        return 1


def run_one(job):
    preload = PRELOAD + (PRELOAD_PARTIAL % job["inject"] if job.get("inject") else "")
    r = core.run_cli(job["argv"], cwd=str(job["dir"]), env=job["env"], timeout=300, preload=preload)
    tb = "@@UNCAUGHT@@" in r["stderr"]
    rep = output_state(job["out"])
    if r["rc"] == -9:
        return None, tb, rep, "TIMEOUT"
    exc = (re.findall(r"@@UNCAUGHT@@ (\S+)", r["stderr"]) or ["?"])[-1]
    return r["rc"], tb, rep, (f"@@UNCAUGHT@@ {exc}\n" if tb else "") + r["stderr"][-1500:]


def gen_worlds(ctx):
    rng = ctx.rng
    worlds = []
    for f in sorted((core.VERIF / "corpus" / "C20").glob("*.json")):
        b = json.loads(f.read_text())
        worlds.append((b.get("label", "corpus:" + f.stem), dict(NOMINAL, **b["world"]), b.get("variant")))
    worlds.append(("nominal", dict(NOMINAL), None))
    # every single deviation from the nominal run, every realisation variant of the classes that have several
    for f in FIELDS:
        for v in DOMAIN.get(f, [0, 1]):
            if v == NOMINAL[f]:
                continue
            w = dict(NOMINAL)
            w[f] = v
            if f == "argparse" and v == 1:
                for k in PARSE_ERRORS:
                    worlds.append((f"single:argparse:{k}", dict(w), k))
            elif f == "argparse" and v == 2:
                for k in ("--help", "--version", "--list", "--describe"):
                    worlds.append((f"single:early:{k}", dict(w), k))
            elif f == "write_ok":
                for k in UNWRITABLE:
                    worlds.append((f"single:unwritable:{k}", dict(w), k))
                wp = dict(w)
                wp["write_partial"] = 1
                worlds.append(("single:write_partial", wp, None))
            elif f == "write_partial":
                continue    # only meaningful together with write_ok = 0 (above)
            else:
                worlds.append((f"single:{f}={v}", w, None))
    # pairs that decide the ORDER of the chain (first applicable condition), then random combinations
    order_pairs = [("dir_exists", 0, "argparse", 1), ("dir_exists", 0, "ai_consistent", 0), ("miss_issues", 1, "ai_consistent", 0),
                   ("sarif", 1, "ai_consistent", 0), ("ai_consistent", 0, "write_ok", 0), ("miss_dd", 1, "write_ok", 0),
                   ("dir_exists", 0, "sarif", 3), ("sarif", 2, "miss_hotspots", 1), ("argparse", 2, "dir_exists", 0),
                   ("argparse", 1, "ai_consistent", 0), ("bad_workers", 1, "dir_exists", 0), ("miss_contrast", 1, "ai_consistent", 0),
                   ("miss_contrast", 1, "write_ok", 0), ("bad_line", 1, "write_ok", 0), ("output", 0, "ai_consistent", 0),
                   ("write_ok", 0, "write_partial", 1), ("bad_line", 1, "dir_exists", 0), ("bad_line", 1, "miss_issues", 1),
                   ("unreadable_target", 1, "miss_dd", 1), ("unreadable_target", 1, "write_ok", 0)]
    for a, va, b, vb in order_pairs:
        w = dict(NOMINAL)
        w[a], w[b] = va, vb
        worlds.append((f"pair:{a}={va},{b}={vb}", w, None))
    if not ctx.quick():
        # thorough: every pair of single deviations
        singles = [(f, v) for f in FIELDS for v in DOMAIN.get(f, [0, 1]) if v != NOMINAL[f]]
        for i, (a, va) in enumerate(singles):
            for b, vb in singles[i + 1:]:
                if a == b:
                    continue
                w = dict(NOMINAL)
                w[a], w[b] = va, vb
                worlds.append((f"allpairs:{a}={va},{b}={vb}", w, None))
    # the shape of the target tree x the kind of run: the status (and the report) must not depend on it
    modes = RUN_MODES + ([] if ctx.quick() else ["default_codemods"])
    for shape in TREE_SHAPES:
        for mode in modes:
            if shape == "one_file" and mode == "plain":
                continue
            worlds.append((f"tree:{shape}:{mode}", dict(NOMINAL), f"tree:{shape}:{mode}"))
    # ... and the failing dimensions on trees without a processable file
    for shape, dev in (("empty", {"write_ok": 0}), ("dirs_only", {"miss_issues": 1}), ("non_python_only", {"ai_consistent": 0}),
                       ("excluded_only", {"sarif": 1}), ("empty", {"write_ok": 0, "write_partial": 1}), ("dirs_only", {"output": 0}),
                       ("empty", {"argparse": 1}), ("symlink_only", {"miss_contrast": 1})):
        worlds.append((f"tree+fault:{shape}", dict(NOMINAL, **dev), f"tree:{shape}:plain"))
    n_random = 8 if ctx.quick() else 150
    if getattr(ctx, "deep", False):
        n_random *= 3
    for _ in range(n_random):
        w = dict(NOMINAL)
        for f in rng.sample(FIELDS, rng.choice([2, 2, 3, 4])):
            w[f] = rng.choice([v for v in DOMAIN.get(f, [0, 1])])
        worlds.append(("random", w, None))
    return worlds


def parse_codes(out: str):
    m = re.search(r"=\s*(\[.*\])\s*:\s*list \(list N\)", out, flags=re.S)
    if not m:
        return None
    body = m.group(1).replace("%N", "")
    return [[int(x) for x in it.split(";") if x.strip()] for it in re.findall(r"\[([0-9;\s]+)\]", body)]


def active_counterexamples(ctx):
    """the worlds on which the kernel-accepted statements are in their NEGATIVE branch, fewest deviations first"""
    res = {}
    for name in ("active_exit_counterexamples", "active_report_counterexamples", "active_crash_counterexamples"):
        out = core.eval_term(ctx, "c20_" + name, IMPORTS, name)
        codes = parse_codes(out)
        if codes is None:
            if re.search(r"=\s*\[\s*\]", out):
                codes = []
            else:
                raise RuntimeError(f"cannot read {name} from Coq: {out[-400:]}")
        res[name] = sorted((world_of(c) for c in codes), key=lambda w: (len(deviations(w)), code_of(w)))
    return res


def run(ctx: core.Ctx):
    real = Realiser(ctx)
    worlds = gen_worlds(ctx)
    # active branches: replay one world per deviation signature (smallest first)
    active = active_counterexamples(ctx)
    seen_sig = set()
    for name, ws in active.items():
        ctx.count(f"{name}:{len(ws)}")
        for w in ws:
            sig = tuple(deviations(w))
            if len(seen_sig) >= 6 or len(sig) > 2:
                break
            if sig in seen_sig:
                continue
            seen_sig.add(sig)
            worlds.append((f"counterexample:{name}", w, None))
    jobs = []
    for label, w, variant in worlds:
        j = real.realise(w, variant, minimal=label.startswith(("corpus", "counterexample", "nominal", "tree")))
        j["world"], j["origin"], j["variant"] = w, label, variant
        jobs.append(j)
    with ThreadPoolExecutor(max_workers=min(12, core.NCPU)) as ex:
        obs = list(ex.map(run_one, jobs))
    ctx.cli_runs += len(jobs)
    # a run that did not finish is lost coverage: the tie is broken, it is not a verdict about the implementation
    kept = []
    for j, o in zip(jobs, obs):
        if o[0] is None:
            ctx.mismatch("console entry point did not finish within the time limit", f"[{j['label']}] {j['argv'][:6]}", {"argv": j["argv"]})
        else:
            kept.append((j, o))
    jobs, obs = [k[0] for k in kept], [k[1] for k in kept]
    cases = []
    for j, (rc, tb, rep, err) in zip(jobs, obs):
        w = j["world"]
        cases.append(cpair(c_world(w), cZ(rc), cbool(tb), cN(rep)))
        ctx.count("origin:" + j["origin"].split(":")[0])
        ctx.count(f"status:{rc}{'+escaped-exception' if tb else ''}")
        ctx.count(f"output_path_after:{['nothing', 'incomplete file', 'complete report'][rep]}")
        for f in deviations(w):
            ctx.count(f"deviation:{f}")
        ctx.case({"world": {f: w[f] for f in deviations(w)}, "argv": [a if len(a) < 80 else "..." + a[-60:] for a in j["argv"]],
                  "status": rc, "escaped_exception": tb, "output_path_after": rep},
                 nontrivial_key=(tuple(code_of(w)), j["label"]) if (deviations(w) or j["label"] != "nominal") else None, sample=len(deviations(w)) == 2)
        # measured clause (independent of model and spec): a non-zero status never comes with a complete report
        if rc != 0 and rep == 2:
            ctx.violation("kf_exit_nonzero_with_report", f"[{j['label']}] exit status {rc} although a complete report was written to {j['out']}",
                          {"world": w, "realisation": j["label"], "variant": j.get("variant"),
                           "argv": [x.replace(str(j["dir"]), "<run>").replace(str(real.shared), "<shared>") for x in j["argv"]],
                           "observed": {"status": rc, "output_path_after": rep}})
    bad = core.eval_bad_indices(ctx, "c20_exit", IMPORTS, "exit_case", cases, ["exit_model_ok", "exit_spec_ok"])

    def payload(i):
        j, (rc, tb, rep, err) = jobs[i], obs[i]
        return {"world": j["world"], "realisation": j["label"], "variant": j.get("variant"),
                "argv": [a.replace(str(j["dir"]), "<run>").replace(str(real.shared), "<shared>") for a in j["argv"]],
                "env": {k: v for k, v in j["env"].items() if v},
                "observed": {"status": rc, "escaped_exception": tb, "output_path_after": ["nothing", "incomplete file", "complete report"][rep]},
                "stderr_tail": err[-300:]}
    for i in bad["exit_model_ok"]:
        p = payload(i)
        model = core.eval_term(ctx, f"c20_model_{i}", IMPORTS, f"model_of_code {c_world(jobs[i]['world'])}")
        ctx.mismatch("console entry point vs Model.Exit.run_exit at the generated tables",
                     f"[{p['realisation']}] observed {p['observed']}, model (status, output path state, escaped) {model.split('=')[-1].split(':')[0].strip()[:60]}", p)
    failing = bad["exit_spec_ok"]
    ATTRIB = ["attrib_line_ok", "attrib_workers_ok", "attrib_contrast_ok", "attrib_write_dropped_ok", "crash_reached"]
    nok = core.eval_bad_indices(ctx, "c20_attrib", IMPORTS, "exit_case", [cases[i] for i in failing], ATTRIB) if failing else {}
    for k, i in enumerate(failing):
        p = payload(i)
        o = obs[i]
        doc = core.eval_term(ctx, f"c20_doc_{i}", IMPORTS, f"documented_of_code {c_world(jobs[i]['world'])}")
        p["documented"] = doc.split("=")[-1].split(":")[0].strip()[:40]
        attrib = {a: (k not in nok[a]) for a in ATTRIB}
        cls = classify(jobs[i]["world"], o[:3], o[3], attrib)
        p["attribution"] = {a: v for a, v in attrib.items() if v}
        ctx.violation(cls, f"[{p['realisation']}] exit status {o[0]}{' with an escaped exception' if o[1] else ''}, at the --output path: "
                           f"{p['observed']['output_path_after']}; documented (status, complete report due) = {p['documented']}", p)


def replay(ctx, body):
    w = dict(NOMINAL, **body["world"])
    real = Realiser(ctx)
    j = real.realise(w, body.get("variant"), minimal=True)
    rc, tb, rep, err = run_one(j)
    print("world deviations from the nominal run:", {f: w[f] for f in deviations(w)})
    print("codemodder", " ".join(j["argv"]))
    print("env:", {k: v for k, v in j["env"].items() if v})
    print(f"observed now: status={rc} escaped_exception={tb} output_path_after={['nothing', 'incomplete file', 'complete report'][rep]}")
    print("recorded    :", body.get("observed"), "| documented (status, report):", body.get("documented"))
    print(err[-400:])
    return 0
