class DependencyWriter:
    def __init__(self, dependency_store: PackageStore, parent_directory: Path):
        self.dependency_store = dependency_store
        self.path = Path(dependency_store.file)
        self.parent_directory = parent_directory
    def write(
        self, dependencies: list[Dependency], dry_run: bool = False
    ) -> Optional[ChangeSet]:
        if new_dependencies := self.add(dependencies):
            return self.add_to_file(new_dependencies, dry_run)
        return None
    def add(self, dependencies: list[Dependency]) -> list[Dependency]:
        """add any number of dependencies to the end of list of dependencies."""
        new = []

        for new_dep in dependencies:
            requirement: Requirement = new_dep.requirement
            if not self.dependency_store.has_requirement(requirement):
                self.dependency_store.dependencies.add(requirement)
                new.append(new_dep)
        return new
