(** The documented edit of jwt-decode-verify on the options dict: the values of the string keys that mention "verify"
    become True; every other entry — other keys, non-literal keys, `**spread` entries — is kept, in order. *)
From CM Require Export Model.JwtOpts Spec.ArgsSpec.
From Coq Require Strings.String.
Import String.StringSyntax.

Definition is_spread (d : delem) : bool := match d with DSpread _ _ => true | _ => false end.
Definition is_verify (d : delem) : bool :=
  match d with DKey simple k _ _ => simple && contains (S_ "verify") k | DSpread _ _ => false end.
Definition spec_elem (d : delem) : delem := if is_verify d then rebuilt d else d.
Definition spec_opts (els : list delem) : list delem := map spec_elem els.

(** what the edit may remove: the old values of the verify keys *)
Definition verify_values (els : list delem) : list tok :=
  flat_map (fun d => match d with DKey _ _ _ v => if is_verify d then toks v else [] | DSpread _ _ => [] end) els.
Definition n_verify (els : list delem) : nat := length (filter is_verify els).
