(** Checkers for the C06 correspondence: the harness prints cases (inputs + what the real implementation answered),
    Coq evaluates model and spec on them by vm_compute and reports the indices that disagree. *)
From CM Require Import Harness.RunBase Base.Dict Model.Location Spec.LocationSpec Proofs.LocationFacts Generated.Tables.
Local Open Scope Z_scope.

Definition T_now : ltab := mkltab loc_tol_start loc_tol_end sonar_tuple_widen line_filter_rule.

Definition sp (l1 c1 l2 c2 : Z) : span := mkspan (mkpos l1 c1) (mkpos l2 c2).
Definition lc (f : str) (l1 c1 l2 c2 : Z) : loc := mkloc f (mkpos l1 c1) (mkpos l2 c2).
Definition rs_ (i : N) (c : rclass) (rule : str) (ls : list loc) (f : option str) : result :=
  mkresult i c rule ls (match f with Some x => Some (mkfinding x rule) | None => None end).

(** 1. result.match_location(pos, node) on the real Result / SonarResult / DefectDojoResult objects *)
Definition pure_case := (node_kind * span * result * bool)%type.
Definition pure_model_ok (c : pure_case) : bool :=
  let '(k, p, r, obs) := c in Bool.eqb (match_location T_now k p r) obs.

(** 1b. two spans against one location: separated spans must not both answer (C06_unique_site on the implementation) *)
Definition uniq_case := (node_kind * span * span * result * bool * bool)%type.
Definition uniq_model_ok (c : uniq_case) : bool :=
  let '(k, p, q, r, op, oq) := c in
  Bool.eqb (match_location T_now k p r) op && Bool.eqb (match_location T_now k q r) oq.
Definition uniq_spec_ok (c : uniq_case) : bool :=
  let '(k, p, q, r, op, oq) := c in
  match rcls r with
  | RDefectDojo => negb (lines_apart p q && op && oq)
  | cl => negb (separated (eff_span T_now cl k p) (eff_span T_now cl k q) && op && oq)
  end.

(** 2. UtilsMixin.results_for_node / filter_by_result / node_is_selected and the transformer overrides *)
Definition sel_case := (filter_override * option (list result) * list Z * list Z * node * list N * bool * bool)%type.
Definition sel_model_ok (c : sel_case) : bool :=
  let '(o, results, excl, inc, n, obs_rfn, obs_fbr, obs_sel) := c in
  (match o with FDefault => list_eqb N.eqb (map rident (results_for_node T_now results n)) obs_rfn | _ => true end) &&
  Bool.eqb (filter_by_result T_now o results n) obs_fbr &&
  Bool.eqb (node_is_selected T_now o results excl inc n) obs_sel.

(** 3. FileContext.get_findings_for_location *)
Definition fnd_case := (option (list result) * Z * list str)%type.
Definition fnd_model_ok (c : fnd_case) : bool :=
  let '(results, line, obs) := c in
  list_eqb str_eqb (map fid (get_findings_for_location findings_attach_rule results line)) obs.

(** 4. BaseCodemod._process_file on a real ResultSet: was the transformer invoked and with which results;
       RemediationCodemod.get_files_to_analyze *)
Definition pf_case := (option (list result) * list str * str * list str * bool * option (list N) * list str)%type.
Definition pf_model_ok (c : pf_case) : bool :=
  let '(all, rules, file, files, obs_invoked, obs_findings, obs_files) := c in
  let R := match all with Some l => Some (of_results l) | None => None end in
  (match process_file R rules file with
   | ShortCircuit => negb obs_invoked
   | Transform f => obs_invoked && option_eqb (list_eqb N.eqb) (match f with Some l => Some (map rident l) | None => None end) obs_findings
   end) &&
  (match R with
   | Some R' => list_eqb str_eqb (files_to_analyze R' rules files) obs_files
   | None => true
   end).
(** spec: the transformer sees exactly the results of the requested rules located in that file *)
Definition pf_spec_ok (c : pf_case) : bool :=
  let '(all, rules, file, files, obs_invoked, obs_findings, obs_files) := c in
  match all with
  | None => obs_invoked
  | Some l =>
      let mine := List.filter (fun r => mem_str (rrule_id r) rules && mem_str file (map lfile (rlocs r))) l in
      match mine with
      | [] => negb obs_invoked
      | _ => obs_invoked &&
             match obs_findings with
             | Some ids => forallb (fun i => existsb (N.eqb i) (map rident mine)) ids &&
                           forallb (fun r => existsb (N.eqb (rident r)) ids) mine
             | None => false
             end
      end
  end.

(** 4b. CodeQLLocation.from_sarif: observed (start line, start column, end line, end column), None when a column is None *)
Definition cq_case := (option region * option (Z * Z * (Z * Z)))%type.
Definition cq_model_ok (c : cq_case) : bool :=
  let '(r, obs) := c in
  match codeql_loc codeql_start_column [] r, obs with
  | Some l, Some (a, b, (c', d)) => (pline (lstart l) =? a) && (pcol (lstart l) =? b) && (pline (lend l) =? c') && (pcol (lend l) =? d)
  | None, None => true
  | _, _ => false
  end.
(** spec: a region always denotes a location (SARIF: startColumn defaults to 1) *)
Definition cq_spec_ok (c : cq_case) : bool := match snd c with Some _ => true | None => false end.

(** 5. end to end (real CLI): a program with candidate nodes, the open results of the result file, observed rewrites *)
Record e2e_case := mke2e {
  e_ovr : filter_override;
  e_cls : rclass;
  e_rules : list str;
  e_file : str;
  e_results : list result;          (* every open result of the result file, all rules and files, in file order *)
  e_nodes : list node;              (* nodes the transformer tests and acts on when selected, in leave order *)
  e_cands : list node;              (* all Call/Assign/ClassDef nodes (+ the tested nodes) of the program: span discipline *)
  e_sites : list (N * Z);           (* site node id, line at which its change is reported *)
  e_lost : bool;                    (* on_result_found rebuilds a selected node from original_node: the rewrite of a selected
                                       node nested in another selected node is discarded (C18_nested, FromOriginal) *)
  e_entry : list (Z * Z);           (* change entries reported per selected node: (line offset of the entry, line offset at which
                                       its findings are looked up), relative to the node's start line.  [(0,0)] for report_change;
                                       fix-assert-tuple [(0,0);(1,1)]; nan-injection [(0,0);(1,0);(2,0);(3,0)] *)
  e_own : list Z;                   (* line offsets (from the site line) of the entries that are the site's own *)
  e_noresult : bool;                (* the transformer never consults the results (no filter_by_result / node_is_selected) *)
  e_only_last : bool;               (* the transformer keeps a single (node, replacement) per module: only the last selected node
                                       is rewritten and reported (flask-json-response-type) *)
  e_expected : list N;              (* S: ids of the sites reported by a result of the codemod's rules in this file *)
  e_obs_rewritten : list N;         (* ids of the sites whose text changed *)
  e_obs_changes : list (Z * list str) (* ALL change entries of the file in the report: line, finding ids; in report order *)
}.

Definition mem_N (i : N) (l : list N) : bool := existsb (N.eqb i) l.
Definition same_set (a b : list N) : bool := forallb (fun i => mem_N i b) a && forallb (fun i => mem_N i a) b.

Definition pos_leb (a b : pos) : bool := (pline a <? pline b) || ((pline a =? pline b) && (pcol a <=? pcol b)).
Definition pos_eqb (a b : pos) : bool := (pline a =? pline b) && (pcol a =? pcol b).
Definition encloses (a b : span) : bool :=
  pos_leb (sstart a) (sstart b) && pos_leb (send b) (send a) && negb (pos_eqb (sstart a) (sstart b) && pos_eqb (send a) (send b)).

(** the model of one file: rewritten sites and every change entry *)
Definition model_run (c : e2e_case) : list N * list change :=
  match process_file (Some (of_results (e_results c))) (e_rules c) (e_file c) with
  | ShortCircuit => ([], [])
  | Transform f =>
      let sel0 := List.filter (node_is_selected T_now (e_ovr c) (if e_noresult c then None else f) [] []) (e_nodes c) in
      let sel := if e_only_last c then match rev sel0 with x :: _ => [x] | [] => [] end else sel0 in
      let lost n := e_lost c && existsb (fun m => encloses (nspan m) (nspan n)) sel in
      let rew := List.filter (fun i => mem_N i (map fst (e_sites c))) (map nid (List.filter (fun n => negb (lost n)) sel)) in
      let entries := flat_map (fun n => map (fun d => let line := pline (sstart (nspan n)) + fst d in
                                                      let given := get_findings_for_location findings_attach_rule f (pline (sstart (nspan n)) + snd d) in
                                                      (* report_change_for_line(line, findings=given): `given or by-line lookup` *)
                                                      mkchange line (if nonempty given then given
                                                                     else get_findings_for_location findings_attach_rule f line))
                                            (e_entry c)) sel in
      (* no rewritten text in the file => no diff => no change set at all *)
      (rew, match rew with [] => [] | _ => entries end)
  end.

(** model = implementation: the same rewritten sites, and the same change entries (all of them, in order) *)
Definition e2e_model_ok (c : e2e_case) : bool :=
  let '(rew, chs) := model_run c in
  same_set rew (e_obs_rewritten c) &&
  list_eqb (pair_eqb Z.eqb (list_eqb str_eqb)) (map (fun ch => (ch_line ch, map fid (ch_findings ch))) chs) (e_obs_changes c).

(** implementation = spec, part 1: rewritten == S *)
Definition e2e_sites_ok (c : e2e_case) : bool := same_set (e_obs_rewritten c) (e_expected c).

(** part 2, over EVERY change entry of the file: an entry that carries findings carries exactly one and sits on the line of
    a rewritten site, with as many carrying entries on a line as rewritten sites on it; every rewritten site has one *)
Definition e2e_entries_ok (c : e2e_case) : bool :=
  let carrying := List.filter (fun ch => nonempty (snd ch)) (e_obs_changes c) in
  let n_entries line := length (List.filter (fun ch => Z.eqb (fst ch) line) carrying) in
  let n_sites line := length (List.filter (fun s => existsb (fun o => Z.eqb (snd s + o) line) (e_own c) &&
                                                    mem_N (fst s) (e_obs_rewritten c)) (e_sites c)) in
  forallb (fun ch => Nat.eqb (length (snd ch)) 1 && Nat.eqb (n_entries (fst ch)) (n_sites (fst ch))) carrying &&
  forallb (fun s => if mem_N (fst s) (e_obs_rewritten c) then negb (Nat.eqb (n_entries (snd s)) 0) else true) (e_sites c).

(** the hypothesis of C06_subset_exact on this program *)
Definition e2e_discipline_ok (c : e2e_case) : bool := discipline_for T_now (e_ovr c) (e_cls c) (e_cands c) (e_nodes c).
