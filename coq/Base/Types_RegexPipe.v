(** Table types of the regex / XML pipelines (tools/fragments_pipes.py emits values of these types). *)
From CM Require Export Base.Str.

(** regex_transformer.py: the argument of [file_context.get_findings_for_location(...)] in [_apply]. *)
Inductive index_form :=
| ZeroBased   (* get_findings_for_location(lineno)      -- the enumerate() index (pinned tree 245fc22) *)
| OneBased.   (* get_findings_for_location(lineno + 1)  -- the line number of the change (fix c5fc52c) *)

(** xml_transformer.py: XMLTransformerPipeline.apply returns None (and writes nothing) when create_diff is empty (fix 927c1e3),
    or builds the ChangeSet whatever the diff (pinned tree). *)
Inductive xml_diff_guard := NoDiffGuard | DiffGuard.

(** Shape of a fragment the model has exactly one reading of. *)
Inductive as_written := AsWritten.
