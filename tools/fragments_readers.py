# Readers (C12): which expression selects the entries of a Sonar document; shape of the DefectDojo reader.
TABLE_IMPORTS.append("From CM Require Import Base.Types_Readers.")
shape("sonar_reader", "src/core_codemods/sonar/results.py", ["C12", "C06"],
      "sonar_select_expr", "sonar_select", "IssuesPlusHotspots",
      ["sonar_url_from_id", "SonarLocation.from_json_location", "SonarResult.from_result", "SonarResultSet.from_json"],
      doc="SonarResultSet.from_json / SonarResult.from_result / SonarLocation.from_json_location")
shape("dd_reader", "src/core_codemods/defectdojo/results.py", ["C12", "C06"],
      "dd_reader_shape", "dd_shape", "DDAsPinned",
      ["DefectDojoLocation.from_result", "DefectDojoResult.from_result", "DefectDojoResultSet.from_json"],
      doc="DefectDojoResultSet.from_json / DefectDojoResult.from_result")
