from typing import Optional

import libcst as cst

from codemodder.codemods.utils import BaseType, infer_expression_type
from codemodder.codemods.utils_mixin import NameAndAncestorResolutionMixin
from codemodder.utils.utils import positional_to_keyword
from core_codemods.api import Metadata, Reference, ReviewGuidance, SimpleCodemod


class ReplaceFlaskSendFile(SimpleCodemod, NameAndAncestorResolutionMixin):
    metadata = Metadata(
        name="replace-flask-send-file",
        summary="Replace unsafe usage of `flask.send_file`",
        review_guidance=ReviewGuidance.MERGE_WITHOUT_REVIEW,
        references=[
            Reference(
                url="https://flask.palletsprojects.com/en/3.0.x/api/#flask.send_from_directory"
            ),
            Reference(url="https://owasp.org/www-community/attacks/Path_Traversal"),
        ],
    )

    change_description = (
        "Replace unsafe usage of `flask.send_file` with `flask.send_from_directory`"
    )

    pos_to_key_map: list[str | None] = [
        "mimetype",
        "as_attachment",
        "download_name",
        "conditional",
        "etag",
        "last_modified",
        "max_age",
    ]

    def leave_Call(
        self, original_node: cst.Call, updated_node: cst.Call
    ) -> cst.BaseExpression:
        if self.filter_by_path_includes_or_excludes(original_node):
            maybe_base_name = self.find_base_name(original_node)
            if maybe_base_name and maybe_base_name == "flask.send_file":
                maybe_tuple = self.parameterize_path(original_node.args[0])
                if maybe_tuple:
                    new_args = [
                        maybe_tuple[0],
                        maybe_tuple[1],
                        *positional_to_keyword(
                            original_node.args[1:], self.pos_to_key_map
                        ),
                    ]
                    self.report_change(original_node)
                    self.add_needed_import("flask")
                    self.remove_unused_import(original_node)
                    new_func = cst.parse_expression("flask.send_from_directory")
                    return updated_node.with_changes(func=new_func, args=new_args)

        return updated_node

    def _wrap_in_path(self, expr) -> cst.Call:
        self.add_needed_import("pathlib", "Path")
        return cst.Call(func=cst.Name(value="Path"), args=[cst.Arg(expr)])

    def _attribute_reference(self, expr, attribute: str) -> cst.Attribute:
        return cst.Attribute(value=expr, attr=cst.Name(attribute))

    def _build_args(self, expr):
        return (
            cst.Arg(self._attribute_reference(expr, "parent")),
            cst.Arg(self._attribute_reference(expr, "name")),
        )

    def _build_args_with_named_expr(self, expr):
        available_name = self.generate_available_name(expr, ["p"])
        named_expr = cst.NamedExpr(
            target=cst.Name(available_name),
            value=expr,
            lpar=[cst.LeftParen()],
            rpar=[cst.RightParen()],
        )
        return (
            cst.Arg(self._attribute_reference(named_expr, "parent")),
            cst.Arg(self._attribute_reference(cst.Name(available_name), "name")),
        )

    def _build_args_with_path_and_named_expr(self, expr):
        available_name = self.generate_available_name(expr, ["p"])
        named_expr = cst.NamedExpr(
            target=cst.Name(available_name),
            value=self._wrap_in_path(expr),
            lpar=[cst.LeftParen()],
            rpar=[cst.RightParen()],
        )
        return (
            cst.Arg(self._attribute_reference(named_expr, "parent")),
            cst.Arg(self._attribute_reference(cst.Name(available_name), "name")),
        )

    def parameterize_path(self, arg: cst.Arg) -> Optional[tuple[cst.Arg, cst.Arg]]:
        expr = self.resolve_expression(arg.value)
        tipo = infer_expression_type(expr)
        # is it a string?
        # TODO support for infering types from string methods e.g. 'a'.capitalize()
        match tipo:
            case BaseType.STRING:
                return self._build_args_with_path_and_named_expr(arg.value)

        # is it a Path object?
        # TODO support for identifying Path operators/function e.g. Path('1') / Path('2')
        match expr:
            case cst.Call():
                base_name = self.find_base_name(expr)
                if base_name and base_name == "pathlib.Path":
                    if arg.value is expr:
                        return self._build_args_with_named_expr(arg.value)
                    return self._build_args(arg.value)

        return None
