(** C14 — adding a dependency keeps the manifest valid, complete and duplicate-free.

    Full statement: when a fix needs a new package, at most one dependency manifest (pyproject.toml, setup.py,
    requirements.txt, setup.cfg) is updated; it still parses, keeps every previously declared requirement and all
    unrelated content, gains each needed requirement exactly once, and is left untouched if the package is already
    declared in any version; when no manifest can be updated the run succeeds and the report says so.

    What is proved here (for ALL texts / name lists / dependency lists — unbounded):
      - requirements.txt writer and setup.cfg writer (line surgery modelled in Model/Manifest.v as written),
      - the filter `DependencyWriter.add` in both variants of `PackageStore.has_requirement`,
      - the first-store-wins loop of `process_dependencies` and the notification chosen by `add_description`.
    What is NOT proved (oracles, tested by harness/c14.py only): that the rewritten file parses with
    packaging/configparser; the names `packaging` extracts from requirement lines ([declared] is an input);
    configparser's value of options.install_requires ([defined] is an input); chardet; the diff text (difflib);
    the pyproject.toml (tomlkit) and setup.py (libcst) writers altogether.
    Statements indexed by a table value take the value extracted from /repo (Generated/Tables.v): the positive
    branch is the law, the negative branch its refutation by a concrete witness.
    Strings in the witnesses are lists of code points; the readable source of this file is
    tools/templates/C14.v.in (expanded with tools/expand_strs.py). *)
From CM Require Import Model.Manifest Spec.ManifestSpec Proofs.ManifestFacts Generated.Tables.
From Coq Require Import Lia.

Definition is_some_res (r : wres) : bool := match r with WSome _ => true | _ => false end.

(* ------------------------------------------------------------------------------------------------ *)
(** ** requirements.txt: old content is a prefix, each needed requirement appended once, final newline *)

Theorem C14_req_preserves : forall v g text declared deps,
  text <> [] ->
  forallb (fun d => no_nl (dline d)) deps = true ->
  let needed := add_deps v deps declared in
  (needed = [] -> req_write v g false text declared deps = (WNone, text)) /\
  (needed <> [] -> exists nums old',
      let after := req_after_spec (univ_nl text) needed in
      req_write v g false text declared deps = (WSome nums, after) /\
      length nums = length needed /\
      (no_cr text = true -> after = ensure_final_lf text ++ concat (req_lines needed)) /\
      fix_last (readlines text) = Some old' /\ readlines after = old' ++ req_lines needed /\
      ends_lf after = true) /\
  (forall d, In d deps ->
     count_name v (dname d) needed = if has_requirement v declared (dname d) then 0%nat else 1%nat) /\
  (forall d, In d needed -> In d deps /\ has_requirement v declared (dname d) = false).
Proof.
  intros v g text declared deps Ht Hd needed. repeat split.
  - intros Hn. unfold req_write. fold needed. now rewrite Hn.
  - intros Hn.
    assert (Hdn : forallb (fun d => no_nl (dline d)) needed = true).
    { apply forallb_forall. intros d Hin. rewrite forallb_forall in Hd. apply Hd. eapply add_deps_sub, Hin. }
    destruct (req_after_lines text needed Ht Hdn) as [old' [Hf Hl]].
    exists (linenums_from (N.of_nat (length (readlines text))) needed), old'.
    cbv zeta. repeat split.
    + unfold req_write. fold needed. destruct needed as [|e r] eqn:E; [congruence|].
      rewrite req_add_to_file_eq by exact Ht. destruct g; reflexivity.
    + apply linenums_from_length.
    + intros Hcr. now rewrite univ_nl_id.
    + exact Hf.
    + exact Hl.
    + apply req_after_ends_lf. intros H. apply Ht, univ_nl_nil, H.
  - intros d Hin. now apply add_deps_count.
  - eapply add_deps_sub, H.
  - eapply add_deps_undeclared, H.
Qed.
Print Assumptions C14_req_preserves.

(** Non-vacuity: a two-line file without final newline, one declared name, two requested packages. *)
Example C14_req_preserves_example :
  let text := [102;111;111;61;61;49;46;48;10;98;97;114]%N in
  let deps := [ {| dname := [115;101;99;117;114;105;116;121]%N; dline := [115;101;99;117;114;105;116;121;61;61;49;46;51;46;49]%N |}; {| dname := [98;97;114]%N; dline := [98;97;114;62;61;50]%N |} ] in
  text <> [] /\ forallb (fun d => no_nl (dline d)) deps = true /\ no_cr text = true /\
  add_deps Canonical deps [[102;111;111]%N; [98;97;114]%N] <> [] /\
  snd (req_write Canonical DryGuarded false text [[102;111;111]%N; [98;97;114]%N] deps) = [102;111;111;61;61;49;46;48;10;98;97;114;10;115;101;99;117;114;105;116;121;61;61;49;46;51;46;49;10]%N.
Proof. vm_compute. repeat split; discriminate. Qed.

(** The empty file: `original_lines[-1]` raises IndexError (the parser never offers such a store: chardet). *)
Theorem C14_req_empty_crashes : forall g dry deps, req_add_to_file g dry [] deps = (WCrash, []).
Proof. exact req_add_to_file_empty. Qed.
Print Assumptions C14_req_empty_crashes.

(** CRLF (or CR) manifest: the model — like the code — writes the old lines back with "\n". *)
Theorem C14_req_refuted_crlf : exists text declared deps,
  text <> [] /\ forallb (fun d => no_nl (dline d)) deps = true /\
  let after := snd (req_write requirement_name_cmp req_writer_guard false text declared deps) in
  firstn (length text) after <> text /\ after = req_after_spec (univ_nl text) (add_deps requirement_name_cmp deps declared).
Proof.
  exists [102;111;111;61;61;49;46;48;13;10;98;97;114;13;10]%N, [[102;111;111]%N; [98;97;114]%N], [ {| dname := [115;101;99;117;114;105;116;121]%N; dline := [115;101;99;117;114;105;116;121;61;61;49;46;51;46;49]%N |} ].
  destruct requirement_name_cmp, req_writer_guard; vm_compute; repeat split; discriminate.
Qed.
Print Assumptions C14_req_refuted_crlf.

(* ------------------------------------------------------------------------------------------------ *)
(** ** A second run adds nothing *)

Theorem C14_req_idempotent : forall v deps declared declared',
  (forall n, In n declared \/ In n (map dname (add_deps v deps declared)) -> In n declared') ->
  add_deps v deps declared' = [] /\
  (forall g dry text, req_write v g dry text declared' deps = (WNone, text)) /\
  (forall lv g dry text defined, cfg_write v lv g dry text defined declared' deps = (WNone, text)).
Proof.
  intros v deps declared declared' H. pose proof (add_deps_idempotent v deps declared declared' H) as E.
  repeat split; intros; unfold req_write, cfg_write; now rewrite E.
Qed.
Print Assumptions C14_req_idempotent.

Example C14_req_idempotent_example :
  let deps := [ {| dname := [115;101;99;117;114;105;116;121]%N; dline := [115;101;99;117;114;105;116;121;61;61;49;46;51;46;49]%N |} ] in
  add_deps Canonical deps [[102;111;111]%N] = deps /\ add_deps Canonical deps ([[102;111;111]%N] ++ map dname deps) = [].
Proof. vm_compute. split; reflexivity. Qed.

(* ------------------------------------------------------------------------------------------------ *)
(** ** A package already declared — under any spelling of its name — blocks the addition *)

Definition C14_declared_untouched_statement (v : name_cmp) : Prop :=
  match v with
  | Canonical =>
      (forall declared deps,
         (forall d, In d deps -> exists n, In n declared /\ canon n = canon (dname d)) ->
         (forall g dry text, req_write v g dry text declared deps = (WNone, text)) /\
         (forall lv g dry text defined, cfg_write v lv g dry text defined declared deps = (WNone, text))) /\
      (forall declared deps, add_deps v deps declared = needed_spec (map canon declared) deps)
  | Exact =>
      exists declared deps text,
        (forall d, In d deps -> exists n, In n declared /\ canon n = canon (dname d)) /\
        snd (req_write v DryGuarded false text declared deps) <> text
  end.
Lemma C14_declared_untouched_all v : C14_declared_untouched_statement v.
Proof.
  destruct v; cbn [C14_declared_untouched_statement].
  - exists [[83;101;99;117;114;105;116;121]%N], [ {| dname := [115;101;99;117;114;105;116;121]%N; dline := [115;101;99;117;114;105;116;121;61;61;49;46;51;46;49]%N |} ], [83;101;99;117;114;105;116;121;61;61;49;46;51;46;49;10]%N. split.
    + intros d [<-|[]]. exists [83;101;99;117;114;105;116;121]%N. split; [now left|reflexivity].
    + vm_compute. discriminate.
  - split.
    + intros declared deps H.
      assert (E : add_deps Canonical deps declared = []).
      { apply add_deps_all_declared. intros d Hd. apply has_requirement_true. destruct (H d Hd) as [n [H1 H2]]. now exists n. }
      split; intros; unfold req_write, cfg_write; now rewrite E.
    + intros. now apply add_deps_canonical_spec.
Qed.
Theorem C14_declared_untouched : C14_declared_untouched_statement requirement_name_cmp.
Proof. exact (C14_declared_untouched_all requirement_name_cmp). Qed.
Print Assumptions C14_declared_untouched.

Example C14_declared_untouched_example :
  canon [70;108;97;115;107;95;87;84;70]%N = canon [102;108;97;115;107;45;119;116;102]%N /\ canon [100;101;102;117;115;101;100;88;77;76]%N = [100;101;102;117;115;101;100;120;109;108]%N /\ canon [97;46;45;95;98]%N = [97;45;98]%N /\
  has_requirement Canonical [[83;101;99;117;114;105;116;121]%N] [115;101;99;117;114;105;116;121]%N = true /\ has_requirement Exact [[83;101;99;117;114;105;116;121]%N] [115;101;99;117;114;105;116;121]%N = false.
Proof. vm_compute. repeat split; reflexivity. Qed.

(* ------------------------------------------------------------------------------------------------ *)
(** ** setup.cfg (newline-separated install_requires): the new lines follow the last dependency line *)

(** [k] is the index of the last line of the install_requires value; [defined] is configparser's value of
    options.install_requires (oracle): its last line is the stripped text of line [k]. *)
Theorem C14_cfg_insert_after_last : forall v lv g text defined declared deps k,
  let L := cfg_lines lv text in      (* the lines the writer works on: as read, or with the last line terminated *)
  (1 < length (split_on LF defined))%nat ->
  (k < length L)%nat ->
  strip (nth k L []) = last (split_on LF defined) [] ->
  unique_stripped L k = true ->
  let needed := add_deps v deps declared in
  (needed = [] -> cfg_write v lv g false text (Some defined) declared deps = (WNone, text)) /\
  (needed <> [] ->
     cfg_write v lv g false text (Some defined) declared deps = (WSome [], writelines (cfg_after_spec L k needed)) /\
     firstn (S k) (cfg_after_spec L k needed) = firstn (S k) L /\
     skipn (S k + length needed) (cfg_after_spec L k needed) = skipn (S k) L).
Proof.
  intros v lv g text defined declared deps k L Hnl Hk Hlast Hu needed. split.
  - intros Hn. unfold cfg_write. fold needed. now rewrite Hn.
  - intros Hn.
    assert (Hlen : length (firstn (S k) L) = S k) by (rewrite firstn_length; lia).
    repeat split.
    + unfold cfg_write. fold needed. destruct needed as [|e r] eqn:E; [congruence|]. rewrite <- E.
      unfold cfg_add_to_file. fold L.
      destruct defined as [|c df]; [cbn in Hnl; lia|].
      rewrite (cfg_build_new_lines_eq _ _ _ k Hnl Hk Hlast Hu).
      unfold cfg_after_spec at 1.
      destruct (firstn (S k) L) as [|l0 rest] eqn:Ef; [cbn in Hlen; lia|].
      cbn [app negb andb]. destruct g; reflexivity.
    + unfold cfg_after_spec. rewrite firstn_app, Hlen, Nat.sub_diag, firstn_O, app_nil_r.
      apply firstn_all2. lia.
    + unfold cfg_after_spec.
      etransitivity; [|apply (skipn_insert (firstn (S k) L)
                                (map (fun d => leading_ws (nth k L []) ++ dline d ++ [LF]) needed)
                                (skipn (S k) L))].
      f_equal. rewrite map_length, Hlen. reflexivity.
Qed.
Print Assumptions C14_cfg_insert_after_last.

Example C14_cfg_insert_after_last_example :
  let text := [91;111;112;116;105;111;110;115;93;10;105;110;115;116;97;108;108;95;114;101;113;117;105;114;101;115;32;61;10;32;32;32;32;102;111;111;10;32;32;32;32;98;97;114;62;61;49;10;10;91;120;93;10;97;61;49;10]%N in
  let defined := [10;102;111;111;10;98;97;114;62;61;49]%N in
  let deps := [ {| dname := [115;101;99;117;114;105;116;121]%N; dline := [115;101;99;117;114;105;116;121;61;61;49;46;51;46;49]%N |} ] in
  (1 < length (split_on LF defined))%nat /\ (3 < length (readlines text))%nat /\
  strip (nth 3 (readlines text) []) = last (split_on LF defined) [] /\ unique_stripped (readlines text) 3 = true /\
  cfg_lines LastLineAsIs text = cfg_lines LastLineTerminated text /\
  snd (cfg_write Canonical LastLineAsIs DryGuarded false text (Some defined) [[102;111;111]%N; [98;97;114]%N] deps)
    = [91;111;112;116;105;111;110;115;93;10;105;110;115;116;97;108;108;95;114;101;113;117;105;114;101;115;32;61;10;32;32;32;32;102;111;111;10;32;32;32;32;98;97;114;62;61;49;10;32;32;32;32;115;101;99;117;114;105;116;121;61;61;49;46;51;46;49;10;10;91;120;93;10;97;61;49;10]%N.
Proof. vm_compute. repeat split; lia. Qed.

(** Without the guard: the same stripped line earlier in the file (under setup_requires) receives the new
    requirement; the install_requires block is left as it was. *)
Theorem C14_cfg_refuted_dupline : exists text defined declared deps k,
  (1 < length (split_on LF defined))%nat /\ (k < length (readlines text))%nat /\
  strip (nth k (readlines text) []) = last (split_on LF defined) [] /\
  unique_stripped (readlines text) k = false /\
  add_deps requirement_name_cmp deps declared = deps /\
  snd (cfg_write requirement_name_cmp cfg_last_line_form cfg_writer_guard false text (Some defined) declared deps)
    <> writelines (cfg_after_spec (readlines text) k deps).
Proof.
  exists [91;111;112;116;105;111;110;115;93;10;115;101;116;117;112;95;114;101;113;117;105;114;101;115;32;61;10;32;32;32;32;98;97;114;62;61;49;10;105;110;115;116;97;108;108;95;114;101;113;117;105;114;101;115;32;61;10;32;32;32;32;102;111;111;10;32;32;32;32;98;97;114;62;61;49;10]%N, [10;102;111;111;10;98;97;114;62;61;49]%N,
         [[102;111;111]%N; [98;97;114]%N], [ {| dname := [115;101;99;117;114;105;116;121]%N; dline := [115;101;99;117;114;105;116;121;61;61;49;46;51;46;49]%N |} ], 5%nat.
  destruct requirement_name_cmp, cfg_last_line_form, cfg_writer_guard; vm_compute; repeat split; try lia; discriminate.
Qed.
Print Assumptions C14_cfg_refuted_dupline.

(** A last line without newline.  Pinned form: the lines are used as read, so when the last dependency line is the
    last line of the file the first new requirement is glued to it.  Repaired form: the writer works on the text with
    a final newline supplied — the old last line is only terminated, every line of the rewritten file (old and new)
    ends with a newline, so each inserted requirement is on a line of its own. *)
Definition C14_cfg_last_line_statement (lv : cfg_last_line) : Prop :=
  match lv with
  | LastLineTerminated =>
      forall text, text <> [] ->
        let L := cfg_lines lv text in
        concat L = ensure_final_lf (univ_nl text) /\
        Forall (fun l => ends_lf l = true) L /\
        (forall k needed, Forall (fun l => ends_lf l = true) (cfg_after_spec L k needed))
  | LastLineAsIs =>
      exists text defined declared deps,
        snd (cfg_write requirement_name_cmp lv cfg_writer_guard false text (Some defined) declared deps)
          = [91;111;112;116;105;111;110;115;93;10;105;110;115;116;97;108;108;95;114;101;113;117;105;114;101;115;32;61;10;32;32;32;32;102;111;111;10;32;32;32;32;98;97;114;32;32;32;32;115;101;99;117;114;105;116;121;61;61;49;46;51;46;49;10]%N
  end.
Lemma C14_cfg_last_line_all lv : C14_cfg_last_line_statement lv.
Proof.
  destruct lv; cbn [C14_cfg_last_line_statement].
  - exists [91;111;112;116;105;111;110;115;93;10;105;110;115;116;97;108;108;95;114;101;113;117;105;114;101;115;32;61;10;32;32;32;32;102;111;111;10;32;32;32;32;98;97;114]%N, [10;102;111;111;10;98;97;114]%N, [[102;111;111]%N; [98;97;114]%N],
           [ {| dname := [115;101;99;117;114;105;116;121]%N; dline := [115;101;99;117;114;105;116;121;61;61;49;46;51;46;49]%N |} ].
    destruct requirement_name_cmp, cfg_writer_guard; vm_compute; reflexivity.
  - intros text Ht. cbv zeta. set (L := cfg_lines LastLineTerminated text).
    assert (Hu : univ_nl text <> []) by (intros H; apply Ht, univ_nl_nil, H).
    assert (HL : L = readlines_lf (ensure_final_lf (univ_nl text))) by (apply cfg_lines_terminated, Ht).
    assert (HF : Forall (fun l => ends_lf l = true) L)
      by (rewrite HL; apply readlines_lf_all_end, ends_lf_ensure, Hu).
    repeat split.
    + rewrite HL. apply concat_readlines_lf.
    + exact HF.
    + intros k needed. unfold cfg_after_spec. rewrite !Forall_app. repeat split.
      * now apply Forall_firstn.
      * apply Forall_forall. intros l Hin. apply in_map_iff in Hin. destruct Hin as [d [<- _]].
        rewrite app_assoc. apply ends_lf_snoc.
      * now apply Forall_skipn.
Qed.
Theorem C14_cfg_last_line : C14_cfg_last_line_statement cfg_last_line_form.
Proof. exact (C14_cfg_last_line_all cfg_last_line_form). Qed.
Print Assumptions C14_cfg_last_line.

Example C14_cfg_last_line_example :
  let text := [91;111;112;116;105;111;110;115;93;10;105;110;115;116;97;108;108;95;114;101;113;117;105;114;101;115;32;61;10;32;32;32;32;102;111;111;10;32;32;32;32;98;97;114]%N in
  let deps := [ {| dname := [115;101;99;117;114;105;116;121]%N; dline := [115;101;99;117;114;105;116;121;61;61;49;46;51;46;49]%N |} ] in
  snd (cfg_write Canonical LastLineTerminated DryGuarded false text (Some [10;102;111;111;10;98;97;114]%N) [[102;111;111]%N; [98;97;114]%N] deps)
    = [91;111;112;116;105;111;110;115;93;10;105;110;115;116;97;108;108;95;114;101;113;117;105;114;101;115;32;61;10;32;32;32;32;102;111;111;10;32;32;32;32;98;97;114;10;32;32;32;32;115;101;99;117;114;105;116;121;61;61;49;46;51;46;49;10]%N.
Proof. vm_compute. reflexivity. Qed.

(** Comma-separated list on the key line: the store declares no name at all (the parser offers the whole value
    "foo, security==1.3.1," to `packaging`, which rejects it), so a second write appends the requirement again;
    with two dependencies the writer raises after having written the file. *)
Theorem C14_cfg_refuted_inline_list : exists text defined dep1 dep2,
  let run t df ds := cfg_write requirement_name_cmp cfg_last_line_form cfg_writer_guard false t (Some df) [] ds in
  snd (run text defined [dep1]) = [91;111;112;116;105;111;110;115;93;10;105;110;115;116;97;108;108;95;114;101;113;117;105;114;101;115;32;61;32;102;111;111;44;32;115;101;99;117;114;105;116;121;61;61;49;46;51;46;49;44;10]%N /\
  snd (run (snd (run text defined [dep1])) [102;111;111;44;32;115;101;99;117;114;105;116;121;61;61;49;46;51;46;49;44]%N [dep1])
     = [91;111;112;116;105;111;110;115;93;10;105;110;115;116;97;108;108;95;114;101;113;117;105;114;101;115;32;61;32;102;111;111;44;32;115;101;99;117;114;105;116;121;61;61;49;46;51;46;49;44;44;32;115;101;99;117;114;105;116;121;61;61;49;46;51;46;49;44;10]%N /\
  fst (run text defined [dep1; dep2]) = WCrash /\ snd (run text defined [dep1; dep2]) <> text.
Proof.
  exists [91;111;112;116;105;111;110;115;93;10;105;110;115;116;97;108;108;95;114;101;113;117;105;114;101;115;32;61;32;102;111;111;10]%N, [102;111;111]%N, {| dname := [115;101;99;117;114;105;116;121]%N; dline := [115;101;99;117;114;105;116;121;61;61;49;46;51;46;49]%N |},
         {| dname := [100;101;102;117;115;101;100;120;109;108]%N; dline := [100;101;102;117;115;101;100;120;109;108;61;61;48;46;55;46;49]%N |}.
  destruct requirement_name_cmp, cfg_last_line_form, cfg_writer_guard; vm_compute; repeat split; discriminate.
Qed.
Print Assumptions C14_cfg_refuted_inline_list.

(* ------------------------------------------------------------------------------------------------ *)
(** ** process_dependencies: at most one manifest is updated; none => failed-dependency notification *)

Definition C14_at_most_one_manifest_statement (form : dep_loop) : Prop :=
  match form with
  | FirstWinsBreak =>
      forall outs,
        let '(recorded, note) := process_dependencies form true outs in
        (length recorded <= 1)%nat /\
        (recorded = [] <-> forall b, In b outs -> b = false) /\
        (recorded = [] -> note = FailedNotice) /\
        (forall s, recorded = [s] ->
           note = AddedTo s /\ nth s outs false = true /\ forall j, (j < s)%nat -> nth j outs false = false)
  | NoBreak => exists outs, length (fst (process_dependencies form true outs)) = 2%nat
  end.
Lemma C14_at_most_one_manifest_all form : C14_at_most_one_manifest_statement form.
Proof.
  destruct form; cbn [C14_at_most_one_manifest_statement].
  - intros outs. unfold process_dependencies. repeat split.
    + apply pd_loop_first_wins.
    + apply pd_loop_none.
    + apply pd_loop_none.
    + intros H. now rewrite H.
    + now rewrite H.
    + apply pd_loop_first in H. destruct H as [_ [H _]]. now rewrite Nat.sub_0_r in H.
    + apply pd_loop_first in H. destruct H as [_ [_ H]]. intros j Hj. apply H. lia.
  - exists [true; false; true]. reflexivity.
Qed.
Theorem C14_at_most_one_manifest : C14_at_most_one_manifest_statement dep_loop_form.
Proof. exact (C14_at_most_one_manifest_all dep_loop_form). Qed.
Print Assumptions C14_at_most_one_manifest.

(** No dependency requested: nothing recorded, no notice. *)
Theorem C14_no_dependency_no_notice : forall form outs, process_dependencies form false outs = ([], NoNotice).
Proof. reflexivity. Qed.
Print Assumptions C14_no_dependency_no_notice.

Example C14_at_most_one_manifest_example :
  process_dependencies FirstWinsBreak true [false; true; true] = ([1%nat], AddedTo 1) /\
  process_dependencies FirstWinsBreak true [false; false] = ([], FailedNotice) /\
  process_dependencies FirstWinsBreak true [] = ([], FailedNotice).
Proof. repeat split. Qed.

(** "Already declared" and "cannot be written" are both `None`: a manifest that declares the package is skipped and
    the NEXT manifest receives it (so the package ends up declared twice in the project). *)
Theorem C14_declared_elsewhere_refuted : exists text1 declared1 text2 declared2 deps,
  (forall d, In d deps -> has_requirement Canonical declared1 (dname d) = true) /\
  let o1 := req_write Canonical DryGuarded false text1 declared1 deps in
  let o2 := req_write Canonical DryGuarded false text2 declared2 deps in
  process_dependencies FirstWinsBreak true [is_some_res (fst o1); is_some_res (fst o2)] = ([1%nat], AddedTo 1) /\
  snd o2 <> text2.
Proof.
  exists [115;101;99;117;114;105;116;121;62;61;49;46;48;10]%N, [[115;101;99;117;114;105;116;121]%N], [102;111;111;61;61;49;46;48;10]%N, [[102;111;111]%N], [ {| dname := [115;101;99;117;114;105;116;121]%N; dline := [115;101;99;117;114;105;116;121;61;61;49;46;51;46;49]%N |} ].
  split; [intros d [<-|[]]; reflexivity|]. vm_compute. split; [reflexivity|discriminate].
Qed.
Print Assumptions C14_declared_elsewhere_refuted.

(* ------------------------------------------------------------------------------------------------ *)
(** ** Several codemods in one run over the SHARED package stores (`DependencyWriter.add` records a name in the
       store before, and regardless of, the write) *)

(** Whatever the codemods ask for, in whatever order, over whatever stores: a manifest receives a given (compared)
    name at most once during the whole run, and never a name it declared at the start. *)
Theorem C14_run_each_name_once : forall v form idxs cms S0,
  let '(ls, _) := run_codemods v form idxs cms S0 in
  forall i n, (count_name v n (writes_to i (concat ls)) <= 1)%nat /\
              (has_requirement v (st_declared (S0 i)) n = true -> count_name v n (writes_to i (concat ls)) = 0%nat).
Proof.
  intros v form idxs cms S0.
  destruct (run_codemods v form idxs cms S0) as [ls S] eqn:E. intros i n.
  assert (Hinit : stores_inv v S0 [] S0) by (intros j; apply store_inv_init).
  pose proof (run_codemods_inv v form idxs S0 cms [] S0 ls S Hinit E i) as [H1 [H2 _]].
  cbn [app] in *. split; [apply H1|apply H2].
Qed.
Print Assumptions C14_run_each_name_once.

Definition C14_run_one_manifest_statement (form : dep_loop) : Prop :=
  match form with
  | FirstWinsBreak => forall v idxs cms S0,
      Forall (fun l => (length (recorded_of l) <= 1)%nat) (fst (run_codemods v form idxs cms S0))
  | NoBreak => exists v idxs cms S0,
      ~ Forall (fun l => (length (recorded_of l) <= 1)%nat) (fst (run_codemods v form idxs cms S0))
  end.
Lemma C14_run_one_manifest_all form : C14_run_one_manifest_statement form.
Proof.
  destruct form; cbn [C14_run_one_manifest_statement].
  - intros v idxs cms. induction cms as [|deps r IH]; intros S0; cbn [run_codemods]; [constructor|].
    destruct deps as [|d ds].
    + specialize (IH S0). destruct (run_codemods v FirstWinsBreak idxs r S0) as [ls S2]. constructor; [cbn; lia|exact IH].
    + pose proof (visit_stores_first_wins v idxs (d :: ds) S0) as H1.
      destruct (visit_stores v FirstWinsBreak idxs (d :: ds) S0) as [l S1]. specialize (IH S1).
      destruct (run_codemods v FirstWinsBreak idxs r S1) as [ls S2]. constructor; [exact H1|exact IH].
  - exists Canonical, [0%nat; 1%nat], [[ {| dname := [115;101;99;117;114;105;116;121]%N; dline := [115;101;99;117;114;105;116;121;61;61;49;46;51;46;49]%N |} ]],
           (fun _ => {| st_declared := []; st_writable := true; st_refused := [] |}).
    vm_compute. intros H. inversion H; subst. lia.
Qed.
Theorem C14_run_one_manifest_per_codemod : C14_run_one_manifest_statement dep_loop_form.
Proof. exact (C14_run_one_manifest_all dep_loop_form). Qed.
Print Assumptions C14_run_one_manifest_per_codemod.

(** What goes wrong across codemods (as written): the first codemod adds the package; a later codemod that needs the
    SAME package finds it recorded in every store, gets None everywhere and its description carries the
    FAILED-dependency notification although the package is now declared; a store that could not be written
    (index 0 here) holds the name all the same without anything having been written to it. *)
Theorem C14_later_codemod_notice_refuted : exists S0 idxs deps,
  let '(ls, Sf) := run_codemods requirement_name_cmp dep_loop_form idxs [deps; deps] S0 in
  map (notice_of deps) ls = [AddedTo 1; FailedNotice] /\
  writes_to 1 (concat ls) = deps /\ writes_to 0 (concat ls) = [] /\
  has_requirement requirement_name_cmp (st_declared (Sf 0%nat)) [115;101;99;117;114;105;116;121]%N = true.
Proof.
  exists (fun i => match i with
                   | O => {| st_declared := [[102;111;111]%N]; st_writable := false; st_refused := [] |}
                   | _ => {| st_declared := [[98;97;114]%N]; st_writable := true; st_refused := [] |}
                   end),
         [0%nat; 1%nat], [ {| dname := [115;101;99;117;114;105;116;121]%N; dline := [115;101;99;117;114;105;116;121;61;61;49;46;51;46;49]%N |} ].
  destruct requirement_name_cmp, dep_loop_form; vm_compute; repeat split; reflexivity.
Qed.
Print Assumptions C14_later_codemod_notice_refuted.

(** Two manifests that can both be written, two codemods needing the same package: the first codemod writes it to
    manifest 0; for the second codemod manifest 0 answers None (declared) and manifest 1 receives the package too —
    each manifest got it once (C14_run_each_name_once) but the PROJECT declares it twice after a single run. *)
Theorem C14_later_codemod_second_manifest_refuted : exists S0 idxs deps,
  let '(ls, _) := run_codemods requirement_name_cmp FirstWinsBreak idxs [deps; deps] S0 in
  map recorded_of ls = [[0%nat]; [1%nat]] /\ writes_to 0 (concat ls) = deps /\ writes_to 1 (concat ls) = deps /\ deps <> [].
Proof.
  exists (fun _ => {| st_declared := [[102;111;111]%N]; st_writable := true; st_refused := [] |}),
         [0%nat; 1%nat], [ {| dname := [115;101;99;117;114;105;116;121]%N; dline := [115;101;99;117;114;105;116;121;61;61;49;46;51;46;49]%N |} ].
  destruct requirement_name_cmp; vm_compute; repeat split; try reflexivity; discriminate.
Qed.
Print Assumptions C14_later_codemod_second_manifest_refuted.

Example C14_run_example :
  let S0 := fun i : nat => {| st_declared := [[83;101;99;117;114;105;116;121]%N]; st_writable := true; st_refused := [] |} in
  let a := {| dname := [115;101;99;117;114;105;116;121]%N; dline := [115;101;99;117;114;105;116;121;61;61;49;46;51;46;49]%N |} in
  let b := {| dname := [100;101;102;117;115;101;100;120;109;108]%N; dline := [100;101;102;117;115;101;100;120;109;108;61;61;48;46;55;46;49]%N |} in
  let '(ls, _) := run_codemods Canonical FirstWinsBreak [0%nat; 1%nat] [[a]; [b]; [b]] S0 in
  map recorded_of ls = [[]; [0%nat]; [1%nat]] /\ writes_to 0 (concat ls) = [b] /\ writes_to 1 (concat ls) = [b].
Proof. vm_compute. repeat split; reflexivity. Qed.

(* ------------------------------------------------------------------------------------------------ *)
(** ** --dry-run: the manifest is left untouched and the same result is returned *)

Definition C14_dry_run_statement (g : dry_guard) : Prop :=
  match g with
  | DryGuarded =>
      forall v text declared deps,
        (snd (req_write v g true text declared deps) = text /\
         fst (req_write v g true text declared deps) = fst (req_write v g false text declared deps)) /\
        (forall lv defined,
         snd (cfg_write v lv g true text defined declared deps) = text /\
         fst (cfg_write v lv g true text defined declared deps) = fst (cfg_write v lv g false text defined declared deps))
  | DryIgnored =>
      exists v text declared deps defined,
        snd (req_write v g true text declared deps) <> text /\
        forall lv, snd (cfg_write v lv g true text defined declared deps) <> text
  end.
Lemma C14_dry_run_all g : C14_dry_run_statement g.
Proof.
  destruct g; cbn [C14_dry_run_statement].
  - intros v text declared deps. split; [|intros lv defined].
    + unfold req_write. destruct (add_deps v deps declared) as [|e r]; [split; reflexivity|].
      unfold req_add_to_file. destruct (fix_last (readlines text)); split; reflexivity.
    + unfold cfg_write. destruct (add_deps v deps declared) as [|e r]; [split; reflexivity|].
      unfold cfg_add_to_file. destruct defined as [[|c df]|]; try (split; reflexivity).
      destruct (cfg_build_new_lines (cfg_lines lv text) (c :: df) (e :: r)) as [| |nl [|l ls]]; try (split; reflexivity).
      cbn [negb]. destruct (negb nl && (1 <? length (e :: r))%nat); split; reflexivity.
  - exists Canonical, [91;111;112;116;105;111;110;115;93;10;105;110;115;116;97;108;108;95;114;101;113;117;105;114;101;115;32;61;10;32;32;32;32;102;111;111;10]%N, [[102;111;111]%N],
           [ {| dname := [115;101;99;117;114;105;116;121]%N; dline := [115;101;99;117;114;105;116;121;61;61;49;46;51;46;49]%N |} ], (Some [10;102;111;111]%N).
    split; [vm_compute; discriminate|]. intros lv. destruct lv; vm_compute; discriminate.
Qed.
Theorem C14_dry_run_req : C14_dry_run_statement req_writer_guard.
Proof. exact (C14_dry_run_all req_writer_guard). Qed.
Print Assumptions C14_dry_run_req.
Theorem C14_dry_run_cfg : C14_dry_run_statement cfg_writer_guard.
Proof. exact (C14_dry_run_all cfg_writer_guard). Qed.
Print Assumptions C14_dry_run_cfg.

(* ------------------------------------------------------------------------------------------------ *)
(** ** The writers' reported diff reproduces the file they write (premise [HW] of Proofs/RunDiff.v / C03_run_diffs_compose)

    [W_manifest] (Model/ManifestRun.v) packages the requirements.txt and setup.cfg writers of Model/Manifest.v as the
    writer oracle of the orchestration model, inside the decidable guard the refutations above need: LF manifest (no
    "\r"), requirement strings without line boundary, and for setup.cfg the newline-separated list whose rewritten
    lines are LF-clean (no inline list, no glued last line, no phantom line).  The diff is diff.py's create_diff over
    difflib's opcodes of (lines read after the `+= "\n"` repair, lines written): [matcher] is the difflib oracle and its
    contract (it is a script between the two line lists) stays a premise, as in C03.  pyproject.toml / setup.py:
    [W_manifest] answers None - NOTHING is proved for them (differential only). *)
From CM Require Import Model.ManifestRun Proofs.ManifestRunFacts.
From CM Require Model.Run Spec.DiffSpec Proofs.RunDiff.

Theorem C14_writer_diff_roundtrip : forall matcher line_of defined_of lv,
  (forall a b, Diff.a_of (matcher a b) = a /\ Diff.b_of (matcher a b) = b) ->
  forall k b ds b' d chs,
    W_manifest matcher line_of defined_of lv k (Some b) ds = Some (b', d, chs) -> RunDiff.clean b ->
    Diff.apply_udiff d b = Some (DiffSpec.norm_nl b') /\ RunDiff.clean b'.
Proof. intros matcher line_of defined_of lv Hv k b ds b' d chs H Hc. exact (W_manifest_roundtrip matcher line_of defined_of lv Hv k b ds b' d chs H Hc). Qed.
Print Assumptions C14_writer_diff_roundtrip.

(** the oracle is the C14 model of the two writers (same new content, same change line numbers), not a second model *)
Theorem C14_writer_oracle_is_model : forall matcher line_of defined_of lv b ds b' d chs,
  (W_manifest matcher line_of defined_of lv Types_Run.SReqTxt (Some b) ds = Some (b', d, chs) ->
     exists nums, req_add_to_file DryGuarded false b (mdeps line_of ds) = (WSome nums, b') /\ chs = changes_of nums) /\
  (W_manifest matcher line_of defined_of lv Types_Run.SSetupCfg (Some b) ds = Some (b', d, chs) ->
     cfg_add_to_file lv DryGuarded false b (defined_of b) (mdeps line_of ds) = (WSome [], b')).
Proof.
  intros. split; [apply W_manifest_req_is_model|apply W_manifest_cfg_is_model].
Qed.
Print Assumptions C14_writer_oracle_is_model.

(** Non-vacuity: inside the guard the oracle answers (here with a one-hunk matcher), for both formats and both setup.cfg variants. *)
Example C14_writer_diff_roundtrip_example :
  let matcher := fun a b : list str => {| Diff.gap0 := []; Diff.hunks := [([Diff.SRep a b], [])] |} in
  let line_of := fun n : str => n ++ [61;61;49;46;51;46;49]%N in
  let defined_of := fun _ : str => Some [10;102;111;111;10;98;97;114;62;61;49]%N in
  let cfg := [91;111;112;116;105;111;110;115;93;10;105;110;115;116;97;108;108;95;114;101;113;117;105;114;101;115;32;61;10;32;32;32;32;102;111;111;10;32;32;32;32;98;97;114;62;61;49;10;10;91;120;93;10;97;61;49]%N in
  (exists d chs, W_manifest matcher line_of defined_of LastLineTerminated Types_Run.SReqTxt (Some [102;111;111;61;61;49;46;48;10;98;97;114]%N) [[115;101;99;117;114;105;116;121]%N]
                 = Some ([102;111;111;61;61;49;46;48;10;98;97;114;10;115;101;99;117;114;105;116;121;61;61;49;46;51;46;49;10]%N, d, chs)) /\
  (exists d chs, W_manifest matcher line_of defined_of LastLineTerminated Types_Run.SSetupCfg (Some cfg) [[115;101;99;117;114;105;116;121]%N]
                 = Some ([91;111;112;116;105;111;110;115;93;10;105;110;115;116;97;108;108;95;114;101;113;117;105;114;101;115;32;61;10;32;32;32;32;102;111;111;10;32;32;32;32;98;97;114;62;61;49;10;32;32;32;32;115;101;99;117;114;105;116;121;61;61;49;46;51;46;49;10;10;91;120;93;10;97;61;49;10]%N, d, chs)) /\
  (exists d chs, W_manifest matcher line_of defined_of LastLineAsIs Types_Run.SSetupCfg (Some cfg) [[115;101;99;117;114;105;116;121]%N]
                 = Some ([91;111;112;116;105;111;110;115;93;10;105;110;115;116;97;108;108;95;114;101;113;117;105;114;101;115;32;61;10;32;32;32;32;102;111;111;10;32;32;32;32;98;97;114;62;61;49;10;32;32;32;32;115;101;99;117;114;105;116;121;61;61;49;46;51;46;49;10;10;91;120;93;10;97;61;49]%N, d, chs)) /\
  W_manifest matcher line_of defined_of LastLineTerminated Types_Run.SReqTxt (Some [102;111;111;61;61;49;46;48;13;10;98;97;114;13;10]%N) [[115;101;99;117;114;105;116;121]%N] = None.
Proof. vm_compute. repeat split; eexists; eexists; reflexivity. Qed.
