import libcst as cst

from codemodder.codemods.utils_mixin import AncestorPatternsMixin, NameResolutionMixin
from core_codemods.api import Metadata, ReviewGuidance, SimpleCodemod


class StrConcatInSeqLiteral(SimpleCodemod, NameResolutionMixin, AncestorPatternsMixin):
    metadata = Metadata(
        name="str-concat-in-sequence-literals",
        summary="Convert Implicit String Concat Inside Sequence into Individual Elements",
        review_guidance=ReviewGuidance.MERGE_AFTER_CURSORY_REVIEW,
        references=[],
    )
    change_description = "Convert implicit string concat into individual elements."

    def leave_List(self, original_node: cst.List, updated_node: cst.List) -> cst.List:
        return self.process_node_elements(original_node, updated_node)

    def leave_Tuple(
        self, original_node: cst.Tuple, updated_node: cst.Tuple
    ) -> cst.Tuple:
        return self.process_node_elements(original_node, updated_node)

    def leave_Set(self, original_node: cst.Set, updated_node: cst.Set) -> cst.Set:
        return self.process_node_elements(original_node, updated_node)

    def process_node_elements(
        self, original_node: cst.CSTNode, updated_node: cst.CSTNode
    ) -> cst.CSTNode:
        if not self.filter_by_path_includes_or_excludes(
            self.node_position(original_node)
        ):
            return updated_node
        return updated_node.with_changes(
            elements=self._process_elements(original_node, updated_node)
        )

    def _process_elements(
        self, original_node: cst.List, updated_node: cst.List
    ) -> list[cst.Element]:
        # Work on the updated elements so that rewrites already made to nested
        # sequences are kept; positions come from the original node.
        new_elements = []
        prev_comma = None
        for element in updated_node.elements:
            match element.value:
                case cst.ConcatenatedString():
                    self.report_change(original_node)
                    flattened_parts = self._flatten_concatenated_strings(element.value)
                    for part in flattened_parts:
                        # the very last element should only have a comma if the last element
                        # of the original list had a comma
                        if (
                            element == updated_node.elements[-1]
                            and part == flattened_parts[-1]
                        ):
                            new_elements.append(
                                cst.Element(value=part, comma=element.comma)
                            )
                        else:
                            new_elements.append(
                                cst.Element(
                                    value=part, comma=prev_comma or element.comma
                                )
                            )
                case _:
                    prev_comma = element.comma
                    new_elements.append(element)
        return new_elements

    def _flatten_concatenated_strings(
        self, concat_node: cst.ConcatenatedString, parts=None
    ):
        if parts is None:
            parts = []

        for node in concat_node.left, concat_node.right:
            match node:
                case cst.ConcatenatedString():
                    self._flatten_concatenated_strings(node, parts)
                case _:
                    parts.append(node)
        return parts
