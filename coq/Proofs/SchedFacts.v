(** Lemmas for C11: schedule independence, merge order, pool bound, registry order, path order. *)
From CM Require Import Base.Dict Proofs.DictFacts Model.Sched Spec.SchedSpec.
From Coq Require Import Permutation Sorted Arith FinFun.

(* ------------------------------------------------------------------------------------------------ *)
(** * List update *)
Lemma length_upd {A} (l : list A) i x : length (upd l i x) = length l.
Proof. revert i. induction l as [|y r IH]; intros [|j]; simpl; auto. Qed.

Lemma nth_error_upd_same {A} (l : list A) i x : i < length l -> nth_error (upd l i x) i = Some x.
Proof.
  revert i. induction l as [|y r IH]; intros [|j] H; simpl in *; try lia; auto.
  apply IH. lia.
Qed.

Lemma nth_error_upd_other {A} (l : list A) i j x : i <> j -> nth_error (upd l i x) j = nth_error l j.
Proof.
  revert i j. induction l as [|y r IH]; intros [|i] [|j] H; simpl; auto; try congruence.
Qed.

Lemma nth_error_lt {A} (l : list A) i x : nth_error l i = Some x -> i < length l.
Proof. intros H. apply nth_error_Some. congruence. Qed.

Lemma nth_error_ex {A} (l : list A) i : i < length l -> exists x, nth_error l i = Some x.
Proof. intros H. destruct (nth_error l i) eqn:E; eauto. apply nth_error_None in E. lia. Qed.

(* ------------------------------------------------------------------------------------------------ *)
(** * Interleavings *)
Lemma il_cons_nil {A} (ls : list (list A)) tr : interleaving ls tr -> interleaving ([] :: ls) tr.
Proof.
  induction 1 as [ls Hall | ls i x l tr Hn _ IH].
  - apply il_nil. intros l [<-|Hin]; auto.
  - apply il_pick with (i := S i) (l := l); simpl; auto.
Qed.

Lemma interleaving_concat {A} (ls : list (list A)) : interleaving ls (concat ls).
Proof.
  induction ls as [|l ls IH]; simpl.
  - apply il_nil. intros l [].
  - induction l as [|x l IHl]; simpl.
    + now apply il_cons_nil.
    + apply il_pick with (i := 0) (l := l); simpl; auto.
Qed.

Lemma ev_eqb_eq a b : ev_eqb a b = true -> a = b.
Proof. destruct a, b; simpl; try discriminate; intros H; apply Nat.eqb_eq in H; now subst. Qed.

Lemma check_il_sound tr : forall ls, check_il ls tr = true -> interleaving ls tr.
Proof.
  induction tr as [|e r IH]; intros ls H; simpl in H.
  - apply il_nil. intros l Hin. rewrite forallb_forall in H. specialize (H l Hin). now destruct l.
  - destruct (nth_error ls (ev_task e)) as [[|x l]|] eqn:E; try discriminate.
    apply andb_true_iff in H. destruct H as [He Hr]. apply ev_eqb_eq in He. subst x.
    eapply il_pick; eauto.
Qed.

Lemma nth_error_tasks n i : i < n -> nth_error (tasks n) i = Some (task_evs i).
Proof.
  intros H. unfold tasks. rewrite nth_error_map.
  assert (E : nth_error (seq 0 n) i = Some i).
  { rewrite (nth_error_nth' (seq 0 n) 0) by (now rewrite seq_length). now rewrite seq_nth. }
  now rewrite E.
Qed.

Lemma length_tasks n : length (tasks n) = n.
Proof. unfold tasks. now rewrite map_length, seq_length. Qed.

(* ------------------------------------------------------------------------------------------------ *)
(** * The invariant of a run of the tasks under an arbitrary interleaving *)
Section Exec.
  Variable T : transformer.
  Variable fnd : path -> findings.
  Variable files : list path.
  Variable fs0 : fsys.
  Hypothesis Hnd : List.NoDup files.

  Let c0 (p : path) := lookup fs0 p.
  Let o0 (p : path) := T p (fnd p) (c0 p).
  Let stp := step TaskLocal files T fnd.

  Definition phase_ok (i : nat) (p : path) (rem : list ev) (st : state) : Prop :=
    (rem = [Read i; Compute i; Write i] /\ lookup (st_fs st) p = c0 p) \/
    (rem = [Compute i; Write i] /\ lookup (st_fs st) p = c0 p /\ dget Nat.eqb i (st_rd st) = Some (c0 p)) \/
    (rem = [Write i] /\ lookup (st_fs st) p = c0 p /\ dget Nat.eqb i (st_out st) = Some (o0 p)) \/
    (rem = [] /\ lookup (st_fs st) p = final_content T fnd fs0 p /\ dget Nat.eqb i (st_out st) = Some (o0 p)).

  Definition Inv (ls : list (list ev)) (st : state) : Prop :=
    length ls = length files /\
    (forall i p rem, nth_error files i = Some p -> nth_error ls i = Some rem -> phase_ok i p rem st) /\
    (forall p, ~ In p files -> lookup (st_fs st) p = c0 p).

  Definition Final (st : state) : Prop :=
    (forall i p, nth_error files i = Some p ->
       lookup (st_fs st) p = final_content T fnd fs0 p /\ dget Nat.eqb i (st_out st) = Some (o0 p)) /\
    (forall p, ~ In p files -> lookup (st_fs st) p = c0 p).

  Lemma phase_ok_frame j q rem st st' :
    phase_ok j q rem st ->
    lookup (st_fs st') q = lookup (st_fs st) q ->
    dget Nat.eqb j (st_rd st') = dget Nat.eqb j (st_rd st) ->
    dget Nat.eqb j (st_out st') = dget Nat.eqb j (st_out st) ->
    phase_ok j q rem st'.
  Proof.
    intros H Hf Hr Ho. unfold phase_ok in *. rewrite Hf, Hr, Ho. exact H.
  Qed.

  Lemma lookup_write_same fs p c : lookup (write fs p c) p = Some c.
  Proof. unfold lookup, write. apply dget_dset_same. apply str_eqb_spec. Qed.
  Lemma lookup_write_other fs p q c : q <> p -> lookup (write fs p c) q = lookup fs q.
  Proof. intros H. unfold lookup, write. apply dget_dset_other; auto. apply str_eqb_spec. Qed.

  Lemma files_distinct i j p q : nth_error files i = Some p -> nth_error files j = Some q -> i <> j -> p <> q.
  Proof.
    intros Hi Hj Hne Heq. subst q. apply Hne.
    eapply (proj1 (NoDup_nth_error files)); eauto.
    - eapply nth_error_lt; eauto.
    - congruence.
  Qed.

  Lemma Inv_step ls st i x l :
    Inv ls st -> nth_error ls i = Some (x :: l) -> Inv (upd ls i l) (stp st x).
  Proof.
    intros (Hlen & Hph & Hout) Hn.
    assert (Hi : i < length ls) by (eapply nth_error_lt; eauto).
    destruct (nth_error_ex files i) as [p Hp]; [lia|].
    pose proof (Hph i p _ Hp Hn) as Hcur.
    (* the three shapes of the step, each touching only task i and (for Write) only the file p *)
    assert (Hstep :
      phase_ok i p l (stp st x) /\
      (forall q, q <> p -> lookup (st_fs (stp st x)) q = lookup (st_fs st) q) /\
      (forall j, j <> i -> dget Nat.eqb j (st_rd (stp st x)) = dget Nat.eqb j (st_rd st)) /\
      (forall j, j <> i -> dget Nat.eqb j (st_out (stp st x)) = dget Nat.eqb j (st_out st))).
    { unfold phase_ok in Hcur.
      destruct Hcur as [[E Hf] | [[E (Hf & Hr)] | [[E (Hf & Ho)] | [E _]]]]; try discriminate.
      - (* Read *)
        injection E as -> ->. unfold stp, step, rd_slot. rewrite Hp.
        split; [|split; [|split]]; simpl; auto.
        + right. left. simpl. repeat split; auto. rewrite Hf. apply dget_dset_same. apply Nat.eqb_spec.
        + intros j Hj. apply dget_dset_other; auto. apply Nat.eqb_spec.
      - (* Compute *)
        injection E as -> ->. unfold stp, step, rd_slot. rewrite Hp, Hr.
        split; [|split; [|split]]; simpl; auto.
        + right. right. left. simpl. repeat split; auto. apply dget_dset_same. apply Nat.eqb_spec.
        + intros j Hj. apply dget_dset_other; auto. apply Nat.eqb_spec.
      - (* Write *)
        injection E as -> ->. unfold stp, step, rd_slot. rewrite Hp, Ho.
        assert (Hfc : final_content T fnd fs0 p = match fst (o0 p) with Some c => Some c | None => c0 p end) by reflexivity.
        destruct (o0 p) as [[c'|] r] eqn:Eo.
        + split; [|split; [|split]]; simpl; auto.
          * right. right. right. simpl. repeat split; auto; try (rewrite Eo; exact Ho).
            rewrite lookup_write_same. now rewrite Hfc.
          * intros q Hq. now apply lookup_write_other.
        + split; [|split; [|split]]; simpl; auto.
          right. right. right. simpl. repeat split; auto; try (rewrite Eo; exact Ho). now rewrite Hfc. }
    destruct Hstep as (Hnew & Hfs & Hrd & Hot).
    split; [now rewrite length_upd|]. split.
    - intros j q rem Hq Hrem.
      destruct (Nat.eq_dec j i) as [->|Hne].
      + rewrite nth_error_upd_same in Hrem by exact Hi. injection Hrem as <-.
        assert (q = p) by congruence. subst q. exact Hnew.
      + rewrite nth_error_upd_other in Hrem by auto.
        eapply phase_ok_frame; [eapply Hph; eauto| | |]; auto.
        apply Hfs. eapply files_distinct; eauto.
    - intros q Hq. rewrite Hfs; auto.
      intros ->. apply Hq. eapply nth_error_In; eauto.
  Qed.

  Lemma Inv_run ls tr : interleaving ls tr -> forall st, Inv ls st -> Final (fold_left stp tr st).
  Proof.
    induction 1 as [ls Hall | ls i x l tr Hn _ IH]; intros st HI; simpl.
    - destruct HI as (Hlen & Hph & Hout). split; auto.
      intros i p Hp.
      destruct (nth_error_ex ls i) as [rem Hrem]; [rewrite Hlen; eapply nth_error_lt; eauto|].
      assert (rem = []) by (apply Hall; eapply nth_error_In; eauto). subst rem.
      destruct (Hph i p [] Hp Hrem) as [[E _] | [[E _] | [[E _] | [_ H]]]]; try discriminate. exact H.
    - apply IH. now apply Inv_step.
  Qed.

  Lemma Inv_init : Inv (tasks (length files)) (init fs0).
  Proof.
    split; [apply length_tasks|]. split.
    - intros i p rem Hp Hrem. rewrite nth_error_tasks in Hrem by (eapply nth_error_lt; eauto).
      injection Hrem as <-. left. split; reflexivity.
    - reflexivity.
  Qed.

  Lemma exec_final tr : interleaving (tasks (length files)) tr -> Final (exec TaskLocal files T fnd fs0 tr).
  Proof. intros H. unfold exec. eapply Inv_run; eauto. apply Inv_init. Qed.

  Lemma Final_fs st : Final st -> forall p, lookup (st_fs st) p = spec_fs files T fnd fs0 p.
  Proof.
    intros [Hin Hout] p. unfold spec_fs. destruct (mem_str p files) eqn:E.
    - apply mem_str_In in E. apply In_nth_error in E. destruct E as [i Hi]. now apply (Hin i p).
    - apply Hout. intros HIn. apply mem_str_In in HIn. congruence.
  Qed.

  Lemma Final_res st : Final st -> forall i p, nth_error files i = Some p -> res_of st i = snd (o0 p).
  Proof. intros [Hin _] i p Hp. unfold res_of. destruct (Hin i p Hp) as [_ ->]. now destruct (o0 p). Qed.
End Exec.

Lemma map_seq_ext {A B} (f : nat -> B) (g : A -> B) (l : list A) :
  (forall i x, nth_error l i = Some x -> f i = g x) -> map f (seq 0 (length l)) = map g l.
Proof.
  induction l as [|x l IH] using rev_ind; intros H; [reflexivity|].
  rewrite app_length. simpl. rewrite Nat.add_1_r, seq_S, !map_app. simpl. f_equal.
  - apply IH. intros i y Hy. apply H. rewrite nth_error_app1; auto. eapply nth_error_lt; eauto.
  - f_equal. apply H. rewrite nth_error_app2 by lia. now rewrite Nat.sub_diag.
Qed.

(** Every interleaving ends in the state the specification describes. *)
Lemma exec_spec T fnd files fs0 tr :
  List.NoDup files -> interleaving (tasks (length files)) tr ->
  (forall p, lookup (st_fs (exec TaskLocal files T fnd fs0 tr)) p = spec_fs files T fnd fs0 p) /\
  merged MapInputOrder (length files) tr (exec TaskLocal files T fnd fs0 tr) = spec_merged files T fnd fs0.
Proof.
  intros Hnd Hil. pose proof (exec_final T fnd files fs0 Hnd tr Hil) as HF. split.
  - now apply Final_fs.
  - unfold merged, spec_merged, collect_order. f_equal.
    apply map_seq_ext. intros i p Hp. eapply Final_res; eauto.
Qed.

Lemma sequential_interleaving n : interleaving (tasks n) (sequential n).
Proof. apply interleaving_concat. Qed.

Lemma schedule_free T fnd files fs0 tr :
  List.NoDup files -> interleaving (tasks (length files)) tr ->
  let st := exec TaskLocal files T fnd fs0 tr in
  let sq := exec TaskLocal files T fnd fs0 (sequential (length files)) in
  (forall p, lookup (st_fs st) p = lookup (st_fs sq) p) /\
  merged MapInputOrder (length files) tr st = merged MapInputOrder (length files) (sequential (length files)) sq /\
  (forall p, ~ In p files -> lookup (st_fs st) p = lookup fs0 p).
Proof.
  intros Hnd Hil st sq.
  destruct (exec_spec T fnd files fs0 tr Hnd Hil) as [Hfs Hm].
  destruct (exec_spec T fnd files fs0 _ Hnd (sequential_interleaving _)) as [Hfs' Hm'].
  repeat split.
  - intros p. unfold st, sq. now rewrite Hfs, Hfs'.
  - unfold st, sq. now rewrite Hm, Hm'.
  - intros p Hp. unfold st. rewrite Hfs. unfold spec_fs.
    destruct (mem_str p files) eqn:E; auto. apply mem_str_In in E. contradiction.
Qed.

(** Sibling independence *)
Lemma lookup_only_file fs f : lookup (only_file fs f) f = lookup fs f.
Proof.
  unfold only_file. destruct (lookup fs f) eqn:E; [|reflexivity].
  unfold lookup. simpl. now rewrite str_eqb_refl.
Qed.

Lemma sibling_free T D files fs0 f i tr tr1 :
  List.NoDup files -> nth_error files i = Some f -> sibling_independent D ->
  interleaving (tasks (length files)) tr -> interleaving (tasks 1) tr1 ->
  let st := run_codemod TaskLocal files T D fs0 tr in
  let st1 := run_codemod TaskLocal [f] T D (only_file fs0 f) tr1 in
  lookup (st_fs st) f = lookup (st_fs st1) f /\ res_of st i = res_of st1 0.
Proof.
  intros Hnd Hi HD Hil Hil1 st st1.
  assert (Hnd1 : List.NoDup [f]) by (constructor; [intros []|constructor]).
  pose proof (exec_final T (D fs0) files fs0 Hnd tr Hil) as HF.
  pose proof (exec_final T (D (only_file fs0 f)) [f] (only_file fs0 f) Hnd1 tr1 Hil1) as HF1.
  assert (HDf : D (only_file fs0 f) f = D fs0 f) by (apply HD; apply lookup_only_file).
  subst st st1. unfold run_codemod. split.
  - destruct HF as [HF _]. destruct HF1 as [HF1 _].
    destruct (HF i f Hi) as [-> _]. destruct (HF1 0 f eq_refl) as [-> _].
    unfold final_content. now rewrite HDf, lookup_only_file.
  - rewrite (Final_res _ _ _ _ _ HF i f Hi), (Final_res _ _ _ _ _ HF1 0 f eq_refl).
    now rewrite HDf, lookup_only_file.
Qed.

(* ------------------------------------------------------------------------------------------------ *)
(** * The pool *)
Lemma busy_le_len ws : busy_of ws <= length ws.
Proof. induction ws as [|[j|] r IH]; simpl; lia. Qed.

Lemma busy_upd_take : forall ws k i, nth_error ws k = Some None -> busy_of (upd ws k (Some i)) = S (busy_of ws).
Proof.
  induction ws as [|[j|] r IH]; intros [|k] i H; simpl in *; try discriminate; auto;
    try (now rewrite (IH k i H)).
Qed.

Lemma busy_upd_done : forall ws k j, nth_error ws k = Some (Some j) -> S (busy_of (upd ws k None)) = busy_of ws.
Proof.
  induction ws as [|[j'|] r IH]; intros [|k] j H; simpl in *; try discriminate; auto;
    try (now rewrite (IH k j H)).
Qed.

(** one step keeps the number of threads within the bound (only Spawn adds one, and only below the bound) *)
Lemma pool_step_threads b p e p' :
  pool_step b p e = Some p' -> (N.of_nat (length (p_workers p)) <= b)%N -> (N.of_nat (length (p_workers p')) <= b)%N.
Proof.
  destruct e as [i| |k i|k]; simpl; intros H Hb.
  - injection H as <-. exact Hb.
  - destruct (N.ltb_spec (N.of_nat (length (p_workers p))) b); [|discriminate].
    injection H as <-. simpl. rewrite app_length. simpl. lia.
  - destruct (nth_error (p_workers p) k) as [[j|]|]; try discriminate.
    destruct (mem_nat i (p_queue p)); [|discriminate]. injection H as <-. simpl. now rewrite length_upd.
  - destruct (nth_error (p_workers p) k) as [[j|]|]; try discriminate.
    injection H as <-. simpl. now rewrite length_upd.
Qed.

Lemma pool_run_threads b tr : forall p p',
  pool_run b p tr = Some p' -> (N.of_nat (length (p_workers p)) <= b)%N -> (N.of_nat (length (p_workers p')) <= b)%N.
Proof.
  induction tr as [|e r IH]; intros p p' H Hb; simpl in H.
  - injection H as <-. exact Hb.
  - destruct (pool_step b p e) as [q|] eqn:E; [|discriminate].
    eapply IH; eauto. eapply pool_step_threads; eauto.
Qed.

Lemma pool_run_app b pre : forall post p p'',
  pool_run b p (pre ++ post) = Some p'' -> exists p', pool_run b p pre = Some p' /\ pool_run b p' post = Some p''.
Proof.
  induction pre as [|e pre IH]; intros post p p'' H; simpl in *.
  - eauto.
  - destruct (pool_step b p e) as [q|]; [|discriminate]. now apply IH.
Qed.

(** files in flight never exceed the bound, after any prefix of any execution of the pool *)
Lemma pool_inflight_le b pre post p'' :
  pool_run b pool_init (pre ++ post) = Some p'' ->
  exists p', pool_run b pool_init pre = Some p' /\ (N.of_nat (busy p') <= b)%N.
Proof.
  intros H. destruct (pool_run_app b pre post pool_init p'' H) as [p' [Hpre _]].
  exists p'. split; auto.
  assert (Ht : (N.of_nat (length (p_workers p')) <= b)%N) by (eapply pool_run_threads; eauto; simpl; lia).
  pose proof (busy_le_len (p_workers p')). unfold busy. lia.
Qed.

(** the counter read off the events is the number of busy workers, hence bounded too *)
Lemma peak_from_le b tr : forall p p',
  pool_run b p tr = Some p' -> (N.of_nat (length (p_workers p)) <= b)%N ->
  (N.of_nat (peak_from (busy p) tr) <= b)%N.
Proof.
  induction tr as [|e r IH]; intros p p' H Hb; simpl in *.
  - pose proof (busy_le_len (p_workers p)). unfold busy. lia.
  - destruct (pool_step b p e) as [q|] eqn:E; [|discriminate].
    pose proof (pool_step_threads b p e q E Hb) as Hq.
    specialize (IH q p' H Hq).
    pose proof (busy_le_len (p_workers p)) as Hbl.
    destruct e as [i| |k i|k]; simpl in E.
    + injection E as <-. exact IH.
    + destruct (N.ltb_spec (N.of_nat (length (p_workers p))) b); [|discriminate].
      injection E as <-. unfold busy in *. simpl in *.
      assert (Hb' : busy_of (p_workers p ++ [None]) = busy_of (p_workers p)).
      { clear. induction (p_workers p) as [|[j|] r IHr]; simpl; auto. }
      rewrite Hb' in IH. exact IH.
    + destruct (nth_error (p_workers p) k) as [[j|]|] eqn:En; try discriminate.
      destruct (mem_nat i (p_queue p)); [|discriminate]. injection E as <-.
      unfold busy in *. simpl in *. rewrite (busy_upd_take _ _ _ En) in IH. lia.
    + destruct (nth_error (p_workers p) k) as [[j|]|] eqn:En; try discriminate.
      injection E as <-. unfold busy in *. simpl in *.
      pose proof (busy_upd_done _ _ _ En) as Hd.
      assert (Hp : pred (busy_of (p_workers p)) = busy_of (upd (p_workers p) k None)) by lia.
      rewrite Hp. lia.
Qed.

Lemma peak_le b tr p' : pool_run b pool_init tr = Some p' -> (N.of_nat (peak tr) <= b)%N.
Proof. intros H. apply (peak_from_le b tr pool_init p' H). simpl. lia. Qed.

(* ------------------------------------------------------------------------------------------------ *)
(** * Hash containers: what depends on the hash and what does not *)
Section Hashed.
  Context {A : Type} (eqb : A -> A -> bool) (h : A -> N).
  (** __hash__ is consistent with __eq__ *)
  Hypothesis h_eq : forall a b, eqb a b = true -> h a = h b.

  Lemma mem_hashed_plain k l : mem_hashed eqb h k l = existsb (fun e => eqb e k) l.
  Proof.
    unfold mem_hashed. induction l as [|e l IH]; simpl; [reflexivity|]. rewrite IH. f_equal.
    destruct (eqb e k) eqn:E; [|now rewrite andb_false_r].
    rewrite (h_eq e k E), N.eqb_refl. reflexivity.
  Qed.

  (** dict.fromkeys does not depend on the hash *)
  Lemma fromkeys_from_plain seq : forall acc, fromkeys_from eqb h acc seq = dedup_from eqb acc seq.
  Proof. induction seq as [|k r IH]; intros acc; simpl; [reflexivity|]. rewrite mem_hashed_plain. destruct (existsb _ acc); apply IH. Qed.
  Lemma dict_fromkeys_plain seq : dict_fromkeys eqb h seq = dedup_from eqb [] seq.
  Proof. apply fromkeys_from_plain. Qed.
End Hashed.

Lemma NoDup_slots m : List.NoDup (slots m).
Proof.
  unfold slots. apply FinFun.Injective_map_NoDup; [|apply seq_NoDup].
  intros a b H. now apply Nat2N.inj.
Qed.

Lemma In_slots m i : (i < m)%N -> In i (slots m).
Proof.
  intros H. unfold slots. apply in_map_iff. exists (N.to_nat i). split; [apply N2Nat.id|].
  apply in_seq. lia.
Qed.

Lemma flat_map_app_perm {A B} (f g : A -> list B) l :
  Permutation (flat_map (fun i => g i ++ f i) l) (flat_map g l ++ flat_map f l).
Proof.
  induction l as [|x l IH]; simpl; [constructor|].
  rewrite <- !app_assoc. apply Permutation_app_head.
  eapply perm_trans; [apply Permutation_app_head; exact IH|].
  rewrite !app_assoc. apply Permutation_app_tail. apply Permutation_app_comm.
Qed.

Lemma flat_map_single {B} (x : B) s l :
  List.NoDup l -> In s l -> flat_map (fun i => if N.eqb i s then [x] else []) l = [x].
Proof.
  induction 1 as [|y l Hy Hnd IH]; intros Hin; simpl; [destruct Hin|].
  destruct (N.eqb_spec y s) as [->|Hne].
  - simpl. f_equal.
    assert (Hz : forall l', ~ In s l' -> flat_map (fun i => if N.eqb i s then [x] else []) l' = []).
    { induction l' as [|z l' IHl]; simpl; auto. intros Hn. destruct (N.eqb_spec z s) as [->|]; [exfalso; apply Hn; now left|].
      apply IHl. intros H'. apply Hn. now right. }
    now apply Hz.
  - destruct Hin as [->|Hin]; [congruence|]. simpl. now apply IH.
Qed.

(** iteration over a set yields every element exactly once, whatever the hash and the table size *)
Lemma slot_iter_perm {A} (h : A -> N) (m : N) (l : list A) : (0 < m)%N -> Permutation (slot_iter h m l) l.
Proof.
  intros Hm. unfold slot_iter. induction l as [|x l IH]; simpl.
  - assert (E : forall L : list N, flat_map (fun _ : N => @nil A) L = []) by (induction L; simpl; auto). rewrite E. constructor.
  - eapply perm_trans.
    + apply Permutation_refl' . apply flat_map_ext. intros i.
      instantiate (1 := fun i => (if N.eqb i (h x mod m) then [x] else []) ++ List.filter (fun e => N.eqb (h e mod m) i) l).
      simpl. rewrite (N.eqb_sym (h x mod m) i). destruct (N.eqb i (h x mod m)); reflexivity.
    + eapply perm_trans; [apply flat_map_app_perm|].
      rewrite (flat_map_single x (h x mod m) (slots m) (NoDup_slots m)); [|apply In_slots; apply N.mod_lt; lia].
      simpl. now apply perm_skip.
Qed.

Lemma ep_hash_eq h a b : ep_eqb a b = true -> ep_hash h a = ep_hash h b.
Proof. unfold ep_eqb, ep_hash. intros H. apply N.eqb_eq in H. now rewrite H. Qed.

Lemma iter_order_deterministic h m eps : iter_order Deterministic h m eps = dedup_eps eps.
Proof. unfold iter_order, dedup_eps. apply dict_fromkeys_plain. apply ep_hash_eq. Qed.

Lemma iter_order_overset_perm h m eps : (0 < m)%N -> Permutation (iter_order OverSet h m eps) (dedup_eps eps).
Proof.
  intros Hm. unfold iter_order, set_iter. rewrite (dict_fromkeys_plain ep_eqb (ep_hash h) (ep_hash_eq h)).
  now apply slot_iter_perm.
Qed.

(* ------------------------------------------------------------------------------------------------ *)
(** * Order of the matched paths *)
Lemma str_leb_refl a : str_leb a a = true.
Proof. induction a as [|x a IH]; simpl; auto. now rewrite N.ltb_irrefl. Qed.

Lemma str_leb_total a : forall b, str_leb a b = true \/ str_leb b a = true.
Proof.
  induction a as [|x a IH]; intros [|y b]; simpl; auto.
  destruct (N.ltb_spec x y), (N.ltb_spec y x); auto; try lia.
Qed.

Lemma str_leb_antisym a : forall b, str_leb a b = true -> str_leb b a = true -> a = b.
Proof.
  induction a as [|x a IH]; intros [|y b]; simpl; auto; try discriminate.
  destruct (N.ltb_spec x y), (N.ltb_spec y x); try discriminate; try lia.
  intros H1 H2. assert (x = y) by lia. subst. f_equal. auto.
Qed.

Lemma str_leb_trans a : forall b c, str_leb a b = true -> str_leb b c = true -> str_leb a c = true.
Proof.
  induction a as [|x a IH]; intros [|y b] [|z c]; simpl; auto; try discriminate.
  destruct (N.ltb_spec x y), (N.ltb_spec y z), (N.ltb_spec x z); auto; try lia;
    destruct (N.ltb_spec y x), (N.ltb_spec z y), (N.ltb_spec z x); auto; try discriminate; try lia.
  apply IH.
Qed.

Definition sorted_paths (l : list str) : Prop := StronglySorted (fun a b => str_leb a b = true) l.

Lemma insert_sorted_perm x l : Permutation (x :: l) (insert_sorted x l).
Proof.
  induction l as [|y r IH]; simpl; auto.
  destruct (str_leb x y); auto.
  eapply perm_trans; [apply perm_swap|]. now apply perm_skip.
Qed.

Lemma insert_sorted_sorted x l : sorted_paths l -> sorted_paths (insert_sorted x l).
Proof.
  unfold sorted_paths. induction 1 as [|y r Hs IH Hall]; simpl.
  - constructor; constructor.
  - destruct (str_leb x y) eqn:E.
    + constructor; [constructor; auto|]. constructor; auto.
      eapply Forall_impl; [|exact Hall]. intros z Hz. eapply str_leb_trans; eauto.
    + constructor; auto.
      assert (Hyx : str_leb y x = true) by (destruct (str_leb_total x y); congruence).
      eapply Permutation_Forall; [apply insert_sorted_perm|]. constructor; auto.
Qed.

Lemma sort_paths_perm l : Permutation l (sort_paths l).
Proof.
  induction l as [|x l IH]; simpl; auto.
  eapply perm_trans; [apply perm_skip; exact IH|]. apply insert_sorted_perm.
Qed.

Lemma sort_paths_sorted l : sorted_paths (sort_paths l).
Proof. induction l as [|x l IH]; simpl; [constructor|]. now apply insert_sorted_sorted. Qed.

Lemma sorted_perm_eq l : forall l', sorted_paths l -> sorted_paths l' -> Permutation l l' -> l = l'.
Proof.
  unfold sorted_paths. induction l as [|x l IH]; intros l' Hs Hs' HP.
  - apply Permutation_nil in HP. now subst.
  - destruct l' as [|y l']; [apply Permutation_sym, Permutation_nil in HP; discriminate|].
    inversion Hs as [|? ? Hsl Hall]; subst. inversion Hs' as [|? ? Hsl' Hall']; subst.
    assert (Hxy : str_leb x y = true).
    { assert (Hin : In y (x :: l)) by (eapply Permutation_in; [apply Permutation_sym; exact HP|now left]).
      destruct Hin as [->|Hin]; [apply str_leb_refl|]. rewrite Forall_forall in Hall. auto. }
    assert (Hyx : str_leb y x = true).
    { assert (Hin : In x (y :: l')) by (eapply Permutation_in; [exact HP|now left]).
      destruct Hin as [->|Hin]; [apply str_leb_refl|]. rewrite Forall_forall in Hall'. auto. }
    assert (x = y) by (now apply str_leb_antisym). subst y.
    f_equal. apply IH; auto. eapply Permutation_cons_inv; eauto.
Qed.

Lemma sort_paths_perm_eq l l' : Permutation l l' -> sort_paths l = sort_paths l'.
Proof.
  intros HP. apply sorted_perm_eq; try apply sort_paths_sorted.
  eapply perm_trans; [apply Permutation_sym, sort_paths_perm|].
  eapply perm_trans; [exact HP|apply sort_paths_perm].
Qed.

Lemma match_order_sorted_free (h h' : str -> N) (m m' : N) l l' :
  (0 < m)%N -> (0 < m')%N -> Permutation l l' ->
  match_order SortedPaths h m l = match_order SortedPaths h' m' l'.
Proof.
  intros Hm Hm' HP. simpl. apply sort_paths_perm_eq.
  eapply perm_trans; [apply slot_iter_perm; exact Hm|].
  eapply perm_trans; [exact HP|]. apply Permutation_sym. now apply slot_iter_perm.
Qed.
