import libcst as cst

from codemodder.codemods.utils import is_assigned_to_True, is_django_settings_file
from core_codemods.api import Metadata, Reference, ReviewGuidance, SimpleCodemod


class DjangoSessionCookieSecureOff(SimpleCodemod):
    metadata = Metadata(
        name="django-session-cookie-secure-off",
        summary="Secure Setting for Django `SESSION_COOKIE_SECURE` flag",
        review_guidance=ReviewGuidance.MERGE_AFTER_CURSORY_REVIEW,
        references=[
            Reference(
                url="https://owasp.org/www-community/controls/SecureCookieAttribute"
            ),
            Reference(
                url="https://docs.djangoproject.com/en/4.2/ref/settings/#session-cookie-secure"
            ),
        ],
    )
    change_description = "Sets Django's `SESSION_COOKIE_SECURE` flag if off or missing."
    detector_pattern = """
        rules:
          - id: django-session-cookie-secure-off
            # This pattern creates one finding with no text for settings.py file.
            pattern-regex: ^
            paths:
              include:
               - settings.py
        """

    def __init__(self, *args, **kwargs):
        super().__init__(*args, **kwargs)
        self.is_django_settings_file = is_django_settings_file(
            self.file_context.file_path
        )
        self.flag_correctly_set = False

    def visit_Module(self, _: cst.Module) -> bool:
        """
        Only visit module with this codemod if it's a settings.py file.
        """
        return self.is_django_settings_file

    def leave_Module(
        self, original_node: cst.Module, updated_node: cst.Module
    ) -> cst.Module:
        """
        Handle case for `SESSION_COOKIE_SECURE`  is missing from settings.py
        """
        if not self.is_django_settings_file:
            return updated_node

        if self.flag_correctly_set or len(self.file_context.codemod_changes):
            # Nothing to do at the end of the module if
            # `SESSION_COOKIE_SECURE = True` or if assigned to
            # something else and we changed it in `leave_Assign`.
            return updated_node

        self.add_change(original_node, self.change_description, start=False)
        final_line = cst.parse_statement("SESSION_COOKIE_SECURE = True")
        new_body = tuple(updated_node.body) + (final_line,)
        return updated_node.with_changes(body=new_body)

    def leave_Assign(
        self, original_node: cst.Assign, updated_node: cst.Assign
    ) -> cst.Assign:
        """
        Handle case for `SESSION_COOKIE_SECURE = not True` in settings.py
        """
        pos_to_match = self.node_position(original_node)
        if is_session_cookie_secure(
            original_node
        ) and self.filter_by_path_includes_or_excludes(pos_to_match):
            if is_assigned_to_True(original_node):
                self.flag_correctly_set = True
                return updated_node

            # SESSION_COOKIE_SECURE = anything other than True
            self.add_change(original_node, self.change_description)
            return updated_node.with_changes(value=cst.Name("True"))
        return updated_node


def is_session_cookie_secure(original_node: cst.Assign):
    if len(original_node.targets) > 1:
        return False

    target_var = original_node.targets[0].target
    return (
        isinstance(target_var, cst.Name) and target_var.value == "SESSION_COOKIE_SECURE"
    )
