(** Types of the argument-list model (Model/Args.v) that tools/translate.py also emits into Generated/Tables.v
    (the NewArg lists of the hardening codemods). *)
From CM Require Export Base.Str.
From Coq Require Import String Ascii.

(** Python source text of identifiers/keywords as [str]. *)
Definition S_ (x : string) : str := List.map N_of_ascii (list_ascii_of_string x).
Arguments S_ x%string_scope.

(** One argument of a call.  [star]: 0 none, 1 `*`, 2 `**`.  [sp]: opaque tag of the `=` token with its whitespace
    (libcst [Arg.equal]); [lay]: opaque tag of the comma / trailing whitespace ([Arg.comma], whitespace_after_arg, whitespace_after_star);
    tag 0 is what libcst uses for a freshly built [cst.Arg]. *)
Record argT (E : Type) := mkArg { kw : option str; star : N; sp : N; lay : N; value : E }.
Arguments mkArg {E} kw star sp lay value.
Arguments kw {E} a. Arguments star {E} a. Arguments sp {E} a. Arguments lay {E} a. Arguments value {E} a.

(** Expressions: enough for nested calls.  [EConst] carries the source text of any other expression (literals,
    and everything the codemods treat as opaque).  [ECall m f args]: [m] is the detector's verdict on this node
    (node_is_selected(original_node)). *)
Inductive expr :=
| EName (s : str)
| EAttr (e : expr) (a : str)
| EConst (s : str)
| ECall (m : bool) (f : expr) (args : list (argT expr)).
Definition arg := argT expr.

(** NewArg = namedtuple("NewArg", ["name", "value", "add_if_missing"]); [value] already parsed (cst.parse_expression). *)
Record newarg := mkNew { na_name : str; na_value : expr; na_add : bool }.


(** Shape of a source fragment of the argument-list kernel: the one form the model was written against. *)
Inductive args_variant := ArgsAsWritten.

(** harden_pyyaml.HardenPyyamlCallMixin.update_call: how the Loader argument is located. *)
Inductive pyyaml_variant :=
| PyyamlByIndex        (* [*args[:1], args[1].with_changes(value=SafeLoader)]: position 1 whatever it is; the rest dropped *)
| PyyamlByParameter.   (* the argument that binds Loader (keyword anywhere, else second plain positional), else appended *)

(** codemodder/utils/utils.py positional_to_keyword: what happens at a starred argument. *)
Inductive p2k_variant :=
| P2kRaisesOnStar    (* as written: arg.with_changes(keyword=...) on `*a` / `**k` raises a libcst validation error (file untouched) *)
| P2kCarriesOver.    (* from the first starred argument on, every argument is carried over unchanged *)
