(** C09 — a multi-codemod run equals running the same codemods one at a time, in order.
    Full statement: for every project and codemod sequence K1..Kn, the batch run leaves the same tree and reports the
    same per-codemod change sets, failures and dependency updates as the chain of single-codemod invocations on the
    evolving tree; no codemod's outcome depends on state left by, or analysis precomputed for, another one.
    Model: Model/Run.v.  The batch run shares ONE execution context: aggregates keyed by codemod id, package stores
    mutated in memory, cached file lists, and a semgrep prefilter computed once on the INITIAL tree.
    - [C09_batch_eq_chain_conditional]: a CONDITIONAL lemma, not the property: batch = chain (final file system
      syntactically equal; row i of the batch report = the row of the i-th single run) under hypotheses that assume the
      prefilter and store channels away.  What it does prove unconditionally is that the aggregates are keyed by id and
      that one context serves a sequence as well as fresh ones once detection and stores agree.  Hypotheses:
        H_prefilter_stable  ([prefilter_stable]: the stale prefilter leads each codemod to the same effective detection
                             as a fresh one taken on the tree it actually sees),
        H_stores_reparse    (a fresh parse of the manifests gives what the in-memory stores became),
        distinct codemod ids, and both try blocks present (an aborting batch stops; a chain would go on).
    - [C09_refuted_without_H]: an abstract pair where K1's rewrite creates a match of semgrep-detected K2 in a file the
      prefilter had not flagged: the batch run leaves that file unfixed, the chain fixes it.  Met by the real codemod
      set: add-requests-timeouts > url-sandbox (finding class kf_stale_prefilter:add-requests-timeouts>url-sandbox).
    - [C09_results_keyed]: with distinct ids the row of a codemod is what its own step recorded; nothing is mixed.
    - [C09_cache_irrelevant]: no run creates or deletes a path, so the cached file lists equal their recomputation.
    - [C09_prefilter_stable_from_overlap], [C09_batch_eq_chain_overlap_partial]: H_prefilter_stable is DERIVED from a
      decidable condition on the ORDERED pairs of the sequence ([no_stale_pair] over the rule-overlap table
      [stale_pairs_known], one pair on the real codemod set) plus the per-pair semantic contract [create_free] (a rewrite
      of K1 never creates a match of K2's rule in a file that had none), which the harness measures.  _partial: the
      contract and H_stores_reparse remain premises.
    H_stores_reparse is discharged from the writers' models at the end of this file: fully for requirements.txt
    (C09_stores_reparse_requirements_txt, C09_batch_eq_chain_manifest), for setup.cfg under two configparser-level premises;
    pyproject.toml / setup.py stay differential-only. *)
From CM Require Import Base.Dict Model.Run Spec.RunSpec Proofs.RunFacts Proofs.RunSteps Proofs.C09Facts Proofs.C09Overlap Proofs.RunTables Generated.Tables.

Theorem C09_batch_eq_chain_conditional :
  forall (tb : run_tables) (tree : Type) parse code T S R diff W fsel (cfg : config) (pstores : fsys -> list store)
         (Ks : list codemod) (fs : fsys),
    all_files cfg <> [] -> NoDup (map cid Ks) ->
    (forall K, In K Ks -> tries_present tb (cpipe K) = true) ->
    stores_reparse tb tree parse code T S R diff W fsel cfg pstores Ks ->
    prefilter_stable tb tree parse code T S R diff W fsel cfg pstores (prefilter_of S cfg Ks fs) Ks fs ->
    exists s',
      run tb tree parse code T S R diff W fsel cfg Ks fs (pstores fs) = Ok s' /\
      s_fs s' = chain_fs tb tree parse code T S R diff W fsel cfg pstores Ks fs /\
      Forall2 (fun K r => exists t, r = Ok t /\ row_of K s' = row_of K t) Ks
              (chain tb tree parse code T S R diff W fsel cfg pstores Ks fs).
Proof. exact batch_eq_chain. Qed.
Print Assumptions C09_batch_eq_chain_conditional.

Theorem C09_refuted_without_H :
  forall tb : run_tables,
  exists s, w9_run tb [w9_K1; w9_K2] w9_fs [] = Ok s /\
            NoDup (map cid [w9_K1; w9_K2]) /\
            lookup (s_fs s) [97%N] = Some [1%N] /\
            lookup (chain_fs tb bytes toy_parse toy_code w9_T toy_S toy_R toy_diff toy_W toy_fsel w9_cfg (fun _ => [])
                             [w9_K1; w9_K2] w9_fs) [97%N] = Some [2%N] /\
            ~ prefilter_stable tb bytes toy_parse toy_code w9_T toy_S toy_R toy_diff toy_W toy_fsel w9_cfg (fun _ => [])
                (prefilter_of toy_S w9_cfg [w9_K1; w9_K2] w9_fs) [w9_K1; w9_K2] w9_fs.
Proof.
  intros tb. unfold w9_run. cbn [chain_fs prefilter_stable].
  rewrite !(run_agree tb (canon_libcst tb) (canon_libcst_agree tb)).
  unfold canon_libcst, all_guards. cbn [List.filter].
  destruct (has_guard TryParse (t_libcst tb)), (has_guard TryTransform (t_libcst tb)), (has_guard IfNoChanges (t_libcst tb)),
           (has_guard IfNoDiff (t_libcst tb)), (has_guard IfNotDryWrite (t_libcst tb)), (t_diff tb);
    (eexists; split; [vm_compute; reflexivity|]; split; [repeat constructor; simpl; intuition discriminate|];
     split; [vm_compute; reflexivity|]; split; [vm_compute; reflexivity|]; intros [_ [H _]]; revert H; vm_compute; discriminate).
Qed.
Print Assumptions C09_refuted_without_H.

Theorem C09_results_keyed :
  forall (tb : run_tables) (tree : Type) parse code T S R diff W fsel (cfg : config) pre K rest s s1 s',
    ~ In (cid K) (map cid rest) ->
    apply_codemod tb tree parse code T S R diff fsel cfg pre K s = Ok s1 ->
    apply_codemods tb tree parse code T S R diff W fsel cfg pre rest (process_dependencies tb W cfg (cid K) s1) = Ok s' ->
    row_of K s' = row_of K (process_dependencies tb W cfg (cid K) s1) /\
    forall K', In K' rest -> cid K' <> cid K /\
               agg_of (cid K') (process_dependencies tb W cfg (cid K) s1) = agg_of (cid K') s.
Proof. exact results_keyed. Qed.
Print Assumptions C09_results_keyed.

Theorem C09_cache_irrelevant :
  forall (tb : run_tables) (tree : Type) parse code T S R diff W fsel (cfg : config),
    (forall k ds, W k None ds = None) ->
    forall (X : Type) (list_files : fsys -> X) Ks fs stores,
      (forall a b, dom_eq a b -> list_files a = list_files b) ->
      list_files (final_fs (run tb tree parse code T S R diff W fsel cfg Ks fs stores)) = list_files fs.
Proof.
  intros tb tree parse code T S R diff W fsel cfg HW X lf Ks fs stores Hl.
  exact (cache_irrelevant tb tree parse code T S R diff W fsel cfg (fun _ => []) HW X lf Ks fs stores Hl).
Qed.
Print Assumptions C09_cache_irrelevant.


(** ---- H_prefilter_stable from the rule-overlap table (decidable per ordered pair) ---- *)
Definition stale_pairs_known : list (str * str) :=
  [([112; 105; 120; 101; 101; 58; 112; 121; 116; 104; 111; 110; 47; 97; 100; 100; 45; 114; 101; 113; 117; 101; 115; 116; 115; 45; 116; 105; 109; 101; 111; 117; 116; 115]%N, [112; 105; 120; 101; 101; 58; 112; 121; 116; 104; 111; 110; 47; 117; 114; 108; 45; 115; 97; 110; 100; 98; 111; 120]%N)].    (* add-requests-timeouts > url-sandbox *)

Theorem C09_prefilter_stable_from_overlap :
  forall (tb : run_tables) (tree : Type) parse code T S R diff W fsel (cfg : config) (pstores : fsys -> list store)
         (stale : list (str * str)),
    (forall K1 K2, pair_listed stale K1 K2 = false -> is_semgrep K2 = true -> create_free tree parse code T S K1 K2) ->
    scan_all cfg = scope0 cfg ->
    (forall K, has_guard IfNoChanges (guards_of tb (cpipe K)) = true) ->
    (forall fs st, In st (pstores fs) -> ~ In (st_path st) (scope0 cfg)) ->
    forall Ks fs, NoDup (map cid Ks) -> no_stale_pair stale Ks = true ->
      prefilter_stable tb tree parse code T S R diff W fsel cfg pstores (prefilter_of S cfg Ks fs) Ks fs.
Proof. exact prefilter_stable_from_overlap. Qed.
Print Assumptions C09_prefilter_stable_from_overlap.

Theorem C09_batch_eq_chain_overlap_partial :
  forall (tb : run_tables) (tree : Type) parse code T S R diff W fsel (cfg : config) (pstores : fsys -> list store)
         (stale : list (str * str)),
    (forall K1 K2, pair_listed stale K1 K2 = false -> is_semgrep K2 = true -> create_free tree parse code T S K1 K2) ->
    scan_all cfg = scope0 cfg ->
    (forall K, has_guard IfNoChanges (guards_of tb (cpipe K)) = true) ->
    (forall fs st, In st (pstores fs) -> ~ In (st_path st) (scope0 cfg)) ->
    forall Ks fs,
      all_files cfg <> [] -> NoDup (map cid Ks) ->
      (forall K, In K Ks -> tries_present tb (cpipe K) = true) ->
      stores_reparse tb tree parse code T S R diff W fsel cfg pstores Ks ->
      no_stale_pair stale Ks = true ->
      exists s', run tb tree parse code T S R diff W fsel cfg Ks fs (pstores fs) = Ok s' /\
                 s_fs s' = chain_fs tb tree parse code T S R diff W fsel cfg pstores Ks fs /\
                 Forall2 (fun K r => exists t, r = Ok t /\ row_of K s' = row_of K t) Ks
                         (chain tb tree parse code T S R diff W fsel cfg pstores Ks fs).
Proof. exact batch_eq_chain_overlap. Qed.
Print Assumptions C09_batch_eq_chain_overlap_partial.

(** the condition is decidable and about the ORDER: url-sandbox before add-requests-timeouts is fine, the converse is listed *)
Definition k_timeouts : codemod := {| cid := [112; 105; 120; 101; 101; 58; 112; 121; 116; 104; 111; 110; 47; 97; 100; 100; 45; 114; 101; 113; 117; 101; 115; 116; 115; 45; 116; 105; 109; 101; 111; 117; 116; 115]%N; cpipe := PLibcst; cdet := DSemgrep; cbase := FindAndFix; cavail := true |}.
Definition k_url_sandbox : codemod := {| cid := [112; 105; 120; 101; 101; 58; 112; 121; 116; 104; 111; 110; 47; 117; 114; 108; 45; 115; 97; 110; 100; 98; 111; 120]%N; cpipe := PLibcst; cdet := DSemgrep; cbase := FindAndFix; cavail := true |}.
Example C09_overlap_decides_by_order :
  no_stale_pair stale_pairs_known [k_url_sandbox; k_timeouts] = true /\
  no_stale_pair stale_pairs_known [k_timeouts; k_url_sandbox] = false.
Proof. vm_compute. split; reflexivity. Qed.

(** Non-vacuity: the hypotheses of [C09_batch_eq_chain_conditional] hold for a concrete two-codemod sequence touching the same
    file one after the other (K2's semgrep rule already matches a flagged file, and K1 creates no new match). *)
Example C09_example_hyps :
  let fs := [([97%N], [6%N; 6%N]); ([98%N], [1%N])] in
  prefilter_stable tables_pinned bytes toy_parse toy_code w9_T toy_S toy_R toy_diff toy_W toy_fsel w9_cfg (fun _ => [])
    (prefilter_of toy_S w9_cfg [w9_K2; w9_K1] fs) [w9_K2; w9_K1] fs /\
  NoDup (map cid [w9_K2; w9_K1]) /\
  lookup (final_fs (w9_run tables_pinned [w9_K2; w9_K1] fs [])) [97%N] = Some [1%N; 6%N] /\
  lookup (final_fs (w9_run tables_pinned [w9_K2; w9_K1] fs [])) [98%N] = Some [2%N].
Proof. vm_compute. repeat split; try reflexivity; repeat constructor; simpl; intuition discriminate. Qed.

(* ------------------------------------------------------------------------------------------------------------------ *)
(** ** H_stores_reparse discharged for the modelled manifest writers (added by the C14 engineer;
    Model/ManifestRun.v, Proofs/ManifestNames.v, Proofs/ManifestReparse.v, Proofs/ManifestReparseInst.v).
    The writer oracle is [W_manifest] (the requirements.txt / setup.cfg line surgery of Model/Manifest.v, C14) and the
    stores of a fresh invocation are read off the manifests by the parser model ([pstores_of covers_m names_m ms]):
      - requirements.txt: a store is offered for a non-empty text whose only line boundary is "\n"; the names are
        str.splitlines + _clean_lines + packaging on every cleaned line.  The ONLY oracle fact used is
        [line_contract]: packaging parses a requirement line the writer appends back to the name it was written for
        (no line boundary inside, not dropped by _clean_lines) - tested by harness/c14.py on every dependency;
      - setup.cfg: the names come from configparser + packaging, so "the writer can update every store the parser
        offers" and "a fresh parse sees the old names followed by the written ones" stay the two explicit premises
        [Hcfg_writable] / [Hcfg_names] (take [cfg_covers := fun _ => false] for projects without setup.cfg: see
        C09_stores_reparse_requirements_txt);
      - pyproject.toml / setup.py: no store is offered by this model - NOTHING is proved for them.
    Needed besides: a real run ([dry_run = false]: in a dry run `add` records the names but nothing is written),
    distinct manifest paths, and no manifest among the files a codemod may rewrite. *)
From CM Require Import Base.Types_Manifest Model.ManifestRun Proofs.ManifestNames Proofs.ManifestReparse Proofs.ManifestReparseInst
  Proofs.RunWritesFacts.

Theorem C09_stores_reparse_manifest :
  forall matcher line_of defined_of (lv : cfg_last_line) req_cname cfg_covers cfg_names,
    (forall n, line_contract req_cname line_of n = true) ->
    (forall b ds, cfg_covers b = true -> ds <> [] -> exists r, W_manifest matcher line_of defined_of lv SSetupCfg (Some b) ds = Some r) ->
    (forall b ds b' d chs, cfg_covers b = true -> W_manifest matcher line_of defined_of lv SSetupCfg (Some b) ds = Some (b', d, chs) ->
                           cfg_covers b' = true /\ cfg_names b' = cfg_names b ++ ds) ->
    forall (tb : run_tables) (tree : Type) parse code T S R diff fsel (cfg : config) (ms : list (skind * path)),
      dry_run cfg = false -> NoDup (map snd ms) ->
      (forall K p, In p (map snd ms) -> ~ In p (scope fsel cfg K)) ->
      forall Ks, stores_reparse tb tree parse code T S R diff (W_manifest matcher line_of defined_of lv) fsel cfg
                                (pstores_of (covers_m cfg_covers) (names_m req_cname cfg_names) ms) Ks.
Proof.
  intros matcher line_of defined_of lv req_cname cfg_covers cfg_names Hl Hw Hn tb tree parse code T S R diff fsel cfg ms.
  exact (stores_reparse_manifest matcher line_of defined_of lv req_cname cfg_covers cfg_names Hl Hw Hn tb tree parse code T S R diff fsel cfg ms).
Qed.
Print Assumptions C09_stores_reparse_manifest.

(** projects whose manifests are requirements.txt files: no premise about the stores is left *)
Theorem C09_stores_reparse_requirements_txt :
  forall matcher line_of defined_of (lv : cfg_last_line) req_cname,
    (forall n, line_contract req_cname line_of n = true) ->
    forall (tb : run_tables) (tree : Type) parse code T S R diff fsel (cfg : config) (ms : list (skind * path)),
      dry_run cfg = false -> NoDup (map snd ms) ->
      (forall K p, In p (map snd ms) -> ~ In p (scope fsel cfg K)) ->
      forall Ks, stores_reparse tb tree parse code T S R diff (W_manifest matcher line_of defined_of lv) fsel cfg
                                (pstores_of (covers_m (fun _ => false)) (names_m req_cname (fun _ => [])) ms) Ks.
Proof.
  intros matcher line_of defined_of lv req_cname Hl.
  apply (C09_stores_reparse_manifest matcher line_of defined_of lv req_cname (fun _ => false) (fun _ => [])); [exact Hl| |]; intros; discriminate.
Qed.
Print Assumptions C09_stores_reparse_requirements_txt.

(** [C09_batch_eq_chain_conditional] with H_stores_reparse discharged (H_prefilter_stable remains its premise) *)
Theorem C09_batch_eq_chain_manifest :
  forall matcher line_of defined_of (lv : cfg_last_line) req_cname,
    (forall n, line_contract req_cname line_of n = true) ->
    forall (tb : run_tables) (tree : Type) parse code T S R diff fsel (cfg : config) (ms : list (skind * path))
           (Ks : list codemod) (fs : fsys),
      let W := W_manifest matcher line_of defined_of lv in
      let pstores := pstores_of (covers_m (fun _ => false)) (names_m req_cname (fun _ => [])) ms in
      dry_run cfg = false -> NoDup (map snd ms) ->
      (forall K p, In p (map snd ms) -> ~ In p (scope fsel cfg K)) ->
      all_files cfg <> [] -> NoDup (map cid Ks) ->
      (forall K, In K Ks -> tries_present tb (cpipe K) = true) ->
      prefilter_stable tb tree parse code T S R diff W fsel cfg pstores (prefilter_of S cfg Ks fs) Ks fs ->
      exists s',
        run tb tree parse code T S R diff W fsel cfg Ks fs (pstores fs) = Run.Ok s' /\
        s_fs s' = chain_fs tb tree parse code T S R diff W fsel cfg pstores Ks fs /\
        Forall2 (fun K r => exists t, r = Run.Ok t /\ row_of K s' = row_of K t) Ks
                (chain tb tree parse code T S R diff W fsel cfg pstores Ks fs).
Proof.
  intros matcher line_of defined_of lv req_cname Hl tb tree parse code T S R diff fsel cfg ms Ks fs W pstores Hdry Hnd Hsc Hall HndK Ht Hpre.
  apply C09_batch_eq_chain_conditional; auto.
  apply (C09_stores_reparse_requirements_txt matcher line_of defined_of lv req_cname Hl); assumption.
Qed.
Print Assumptions C09_batch_eq_chain_manifest.

(** Non-vacuity: a requirements.txt the parser model offers, the dependency line contract for a concrete oracle, and the
    store a fresh parse gives before and after the write. *)
Example C09_stores_reparse_example :
  let line_of := fun n : str => n ++ [61; 61; 49]%N in                       (* n ++ "==1" *)
  let req_cname := fun l : str => Some (Manifest.before_char 61 l) in         (* the text before "=" *)
  let text := [102; 111; 111; 61; 61; 50; 10; 98; 97; 114]%N in               (* "foo==2\nbar" *)
  let sec := [115; 101; 99]%N in                                              (* "sec" *)
  line_contract req_cname line_of sec = true /\
  covers_m (fun _ => false) SReqTxt text = true /\
  names_req req_cname text = [[102; 111; 111]%N; [98; 97; 114]%N] /\
  (forall matcher, exists b' d chs,
      W_manifest matcher line_of (fun _ => None) LastLineTerminated SReqTxt (Some text) [sec] = Some (b', d, chs) /\
      names_req req_cname b' = [[102; 111; 111]%N; [98; 97; 114]%N; sec]).
Proof. vm_compute. repeat split. intros matcher. eexists; eexists; eexists. split; reflexivity. Qed.
