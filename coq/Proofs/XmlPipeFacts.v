(** Lemmas about Model/XmlPipe.v: the two escaping functions of the serializer are decodable in any context,
    the transformers edit exactly their targets at the event level, apply()'s guards. *)
From CM Require Import Model.XmlPipe Spec.XmlPipeSpec Proofs.DictFacts.
From Coq Require Import Lia.

(** ** escape / unescape *)
Lemma unescape_app a b : unescape (a ++ b) = fold_right ent_step (unescape b) a.
Proof. unfold unescape. apply fold_right_app. Qed.

Lemma unescape_flat_map (e : N -> str) :
  (forall c acc, fold_right ent_step acc (e c) = c :: acc) -> forall s, unescape (flat_map e s) = s.
Proof.
  intros He. induction s as [|c s IH]; [reflexivity|].
  cbn [flat_map]. rewrite unescape_app, IH. apply He.
Qed.

Lemma ent_step_plain c acc : c <> 38%N -> ent_step c acc = c :: acc.
Proof. intros H. unfold ent_step. apply N.eqb_neq in H. now rewrite H. Qed.

Lemma esc_char_step c acc : fold_right ent_step acc (esc_char c) = c :: acc.
Proof.
  unfold esc_char.
  destruct (N.eqb_spec c 38) as [->|H1]; [reflexivity|].
  destruct (N.eqb_spec c 62) as [->|H2]; [reflexivity|].
  destruct (N.eqb_spec c 60) as [->|H3]; [reflexivity|].
  cbn [fold_right]. now apply ent_step_plain.
Qed.

Lemma qesc_char_step c acc : fold_right ent_step acc (qesc_char c) = c :: acc.
Proof.
  unfold qesc_char.
  destruct (N.eqb_spec c 10) as [->|H1]; [reflexivity|].
  destruct (N.eqb_spec c 13) as [->|H2]; [reflexivity|].
  destruct (N.eqb_spec c 9) as [->|H3]; [reflexivity|].
  apply esc_char_step.
Qed.

Lemma quot_qesc_char_step c acc : fold_right ent_step acc (flat_map quot_char (qesc_char c)) = c :: acc.
Proof.
  unfold qesc_char, esc_char.
  destruct (N.eqb_spec c 10) as [->|H1]; [reflexivity|].
  destruct (N.eqb_spec c 13) as [->|H2]; [reflexivity|].
  destruct (N.eqb_spec c 9) as [->|H3]; [reflexivity|].
  destruct (N.eqb_spec c 38) as [->|H4]; [reflexivity|].
  destruct (N.eqb_spec c 62) as [->|H5]; [reflexivity|].
  destruct (N.eqb_spec c 60) as [->|H6]; [reflexivity|].
  cbn [flat_map]. unfold quot_char.
  destruct (N.eqb_spec c 34) as [->|H7]; [reflexivity|].
  cbn [app fold_right]. now apply ent_step_plain.
Qed.

Lemma unescape_escape s : unescape (escape s) = s.
Proof. apply unescape_flat_map, esc_char_step. Qed.

Lemma escape_inj a b : escape a = escape b -> a = b.
Proof. intros H. rewrite <- (unescape_escape a), <- (unescape_escape b). now f_equal. Qed.

Lemma esc_char_no_markup c x : In x (esc_char c) -> x <> 60%N /\ x <> 62%N.
Proof.
  unfold esc_char.
  destruct (N.eqb_spec c 38); [|destruct (N.eqb_spec c 62); [|destruct (N.eqb_spec c 60)]]; simpl; intros H;
    repeat (destruct H as [<-|H]; [split; (discriminate || congruence)|]); destruct H.
Qed.

Lemma escape_no_markup s : ~ In 60%N (escape s) /\ ~ In 62%N (escape s).
Proof.
  split; intros H; apply in_flat_map in H; destruct H as [c [_ H]]; apply esc_char_no_markup in H; destruct H; congruence.
Qed.

Lemma escape_id s : no_specials s = true -> escape s = s.
Proof.
  induction s as [|c s IH]; [reflexivity|]. cbn [no_specials forallb]. intros H.
  apply andb_true_iff in H. destruct H as [Hc Hs]. cbn [escape flat_map]. fold (escape s). rewrite (IH Hs).
  apply negb_true_iff in Hc. apply orb_false_iff in Hc. destruct Hc as [Hc H60]. apply orb_false_iff in Hc.
  destruct Hc as [H38 H62]. unfold esc_char. now rewrite H38, H62, H60.
Qed.

Lemma escape_length_ge s : (List.length s <= List.length (escape s))%nat.
Proof.
  induction s as [|c s IH]; [apply le_n|]. cbn [escape flat_map]. fold (escape s). rewrite app_length. cbn [List.length].
  assert (1 <= List.length (esc_char c))%nat; [|lia].
  unfold esc_char. destruct (c =? 38)%N; [|destruct (c =? 62)%N; [|destruct (c =? 60)%N]]; simpl; lia.
Qed.

Lemma escape_changes s : no_specials s = false -> escape s <> s.
Proof.
  induction s as [|c s IH]; [discriminate|]. cbn [no_specials forallb]. intros H E.
  cbn [escape flat_map] in E. fold (escape s) in E.
  pose proof (escape_length_ge s) as Hl.
  apply andb_false_iff in H. destruct H as [H|H].
  - apply negb_false_iff in H. assert (Hlen : List.length (esc_char c ++ escape s) = List.length (c :: s)) by now rewrite E.
    rewrite app_length in Hlen. cbn [List.length] in Hlen.
    assert (2 <= List.length (esc_char c))%nat; [|lia].
    unfold esc_char. destruct (c =? 38)%N; [simpl; lia|]. destruct (c =? 62)%N; [simpl; lia|].
    destruct (c =? 60)%N; [simpl; lia|]. discriminate.
  - assert (Hc : esc_char c = [c]).
    { destruct (no_specials [c]) eqn:Ec.
      - apply escape_id in Ec. cbn in Ec. now rewrite app_nil_r in Ec.
      - exfalso. assert (Hlen : List.length (esc_char c ++ escape s) = List.length (c :: s)) by now rewrite E.
        rewrite app_length in Hlen. cbn [List.length] in Hlen.
        assert (2 <= List.length (esc_char c))%nat; [|lia].
        cbn in Ec. rewrite andb_true_r in Ec. apply negb_false_iff in Ec.
        unfold esc_char. destruct (c =? 38)%N; [simpl; lia|]. destruct (c =? 62)%N; [simpl; lia|].
        destruct (c =? 60)%N; [simpl; lia|]. discriminate. }
    rewrite Hc in E. inversion E. now apply IH.
Qed.

(** ** quoteattr / unquote *)
Lemma take_until_app q d rest : has_char q d = false -> take_until q (d ++ q :: rest) = Some (d, rest).
Proof.
  induction d as [|c d IH]; cbn [has_char existsb app take_until]; intros H.
  - now rewrite N.eqb_refl.
  - apply orb_false_iff in H. destruct H as [Hc Hd]. rewrite N.eqb_sym, Hc. fold (has_char q d) in Hd. now rewrite (IH Hd).
Qed.

Lemma has_quot_flat_map d : has_char 34 (flat_map quot_char d) = false.
Proof.
  induction d as [|c d IH]; [reflexivity|]. cbn [flat_map]. unfold has_char in *. rewrite existsb_app, IH, orb_false_r.
  unfold quot_char. destruct (N.eqb_spec c 34) as [->|H]; [reflexivity|]. cbn [existsb]. rewrite orb_false_r.
  apply N.eqb_neq. congruence.
Qed.

Lemma flat_map_flat_map {A B C} (f : B -> list C) (g : A -> list B) l :
  flat_map f (flat_map g l) = flat_map (fun x => flat_map f (g x)) l.
Proof. induction l as [|x l IH]; [reflexivity|]. cbn [flat_map]. now rewrite flat_map_app, IH. Qed.

Lemma unquote_quoteattr v rest : unquote (quoteattr v ++ rest) = Some (v, rest).
Proof.
  unfold quoteattr. set (data := flat_map qesc_char v).
  assert (Hd : unescape data = v) by apply unescape_flat_map, qesc_char_step.
  destruct (has_char 34 data) eqn:H34.
  - destruct (has_char 39 data) eqn:H39.
    + cbn [app unquote N.eqb Pos.eqb orb]. rewrite <- app_assoc. cbn [app].
      rewrite take_until_app by apply has_quot_flat_map.
      unfold data. rewrite flat_map_flat_map, (unescape_flat_map _ quot_qesc_char_step). reflexivity.
    + cbn [app unquote N.eqb Pos.eqb orb]. rewrite <- app_assoc. cbn [app]. rewrite take_until_app by exact H39.
      now rewrite Hd.
  - cbn [app unquote N.eqb Pos.eqb orb]. rewrite <- app_assoc. cbn [app]. rewrite take_until_app by exact H34.
    now rewrite Hd.
Qed.

Lemma quoteattr_inj a b : quoteattr a = quoteattr b -> a = b.
Proof.
  intros H. pose proof (unquote_quoteattr a []) as Ha. pose proof (unquote_quoteattr b []) as Hb.
  rewrite H in Ha. rewrite Ha in Hb. congruence.
Qed.

(** ** dict union used for the attributes *)
Lemma str_eqb_reflect a b : reflect (a = b) (str_eqb a b).
Proof. apply str_eqb_spec. Qed.

Lemma dkeys_dset {V} k (v : V) d :
  dkeys (dset str_eqb k v d) = if dhas str_eqb k d then dkeys d else dkeys d ++ [k].
Proof.
  unfold dhas, dkeys. induction d as [|[k' v'] r IH]; cbn [dset dget map]; [reflexivity|].
  destruct (str_eqb_spec k k') as [->|Hne]; cbn [map fst]; [reflexivity|].
  rewrite IH. destruct (dget str_eqb k r); reflexivity.
Qed.

Lemma dkeys_dupdate {V} (m a : dict str V) :
  exists extra, dkeys (dupdate str_eqb a m) = dkeys a ++ extra /\ forall k, In k extra -> dhas str_eqb k a = false.
Proof.
  revert a. induction m as [|[k v] m IH]; intros a; cbn [dupdate].
  - exists []. split; [now rewrite app_nil_r|intros k []].
  - destruct (IH (dset str_eqb k v a)) as [extra [He Hx]]. rewrite dkeys_dset in He.
    assert (Hhas : forall k', dhas str_eqb k' (dset str_eqb k v a) = false -> dhas str_eqb k' a = false).
    { intros k' H. unfold dhas in *. destruct (str_eqb_spec k' k) as [->|Hne].
      - rewrite (dget_dset_same str_eqb str_eqb_reflect) in H. discriminate.
      - now rewrite (dget_dset_other str_eqb str_eqb_reflect) in H. }
    destruct (dhas str_eqb k a) eqn:E.
    + exists extra. split; [exact He|]. intros k' Hin. apply Hhas, Hx, Hin.
    + exists (k :: extra). split; [now rewrite He, <- app_assoc|].
      intros k' [<-|Hin]; [exact E|]. apply Hhas, Hx, Hin.
Qed.

Lemma dget_dupdate_absent {V} k (a m : dict str V) :
  dget str_eqb k m = None -> dget str_eqb k (dupdate str_eqb a m) = dget str_eqb k a.
Proof.
  intros H. rewrite (dget_dupdate str_eqb str_eqb_reflect).
  apply (dget_rev_some_iff str_eqb str_eqb_reflect) in H. now rewrite H.
Qed.

Lemma dget_dupdate_present {V} k (a m : dict str V) :
  dget str_eqb k m <> None -> exists v, In (k, v) m /\ dget str_eqb k (dupdate str_eqb a m) = Some v.
Proof.
  intros H. rewrite (dget_dupdate str_eqb str_eqb_reflect).
  destruct (dget str_eqb k (rev m)) as [v|] eqn:E.
  - exists v. split; [|reflexivity]. apply in_rev.
    clear H. induction (rev m) as [|[k' v'] r IH]; [discriminate|]. cbn [dget] in E.
    destruct (str_eqb_spec k k') as [->|Hne]; [inversion E; now left|right; now apply IH].
  - apply (proj1 (dget_rev_some_iff str_eqb str_eqb_reflect k m)) in E. contradiction.
Qed.

(** ** the transformers at the event level *)
Section Steps.
  Variable fc : list xresult.

  Definition model_attr_event amap results line_only (pe : pevent) : event :=
    match attr_target amap results line_only pe with
    | Some (n, a, new) => StartElement n (dupdate str_eqb a new)
    | None => pe_ev pe
    end.

  Lemma attr_step_eq amap results lo pe :
    attr_step fc amap results lo pe =
    ([model_attr_event amap results lo pe],
     match attr_target amap results lo pe with Some _ => [spec_change fc (pe_line pe)] | None => [] end).
  Proof.
    unfold attr_step, model_attr_event, attr_target. destruct (pe_ev pe); try reflexivity.
    destruct (match_result results lo (pe_line pe) (pe_col pe)); [|reflexivity].
    destruct (dget str_eqb name amap); reflexivity.
  Qed.

  Lemma run_attr_eq amap results lo evs :
    run_steps (attr_step fc amap results lo) evs =
    (map (model_attr_event amap results lo) evs, changes_attr fc amap results lo evs).
  Proof.
    unfold run_steps, changes_attr. f_equal.
    - induction evs as [|pe r IH]; [reflexivity|]. cbn [flat_map map]. rewrite IH, attr_step_eq. reflexivity.
    - induction evs as [|pe r IH]; [reflexivity|]. cbn [flat_map]. rewrite IH, attr_step_eq. reflexivity.
  Qed.

  Lemma new_step_eq news pe :
    new_step fc news pe =
    (flat_map add_new_element (new_children news pe) ++ [pe_ev pe],
     map (fun _ => spec_change fc (pe_line pe)) (new_children news pe)).
  Proof. unfold new_step, new_children. destruct (pe_ev pe); reflexivity. Qed.

  Lemma run_new_eq news evs :
    run_steps (new_step fc news) evs = (retarget_new news evs, changes_new fc news evs).
  Proof.
    unfold run_steps, retarget_new, changes_new. f_equal.
    - induction evs as [|pe r IH]; [reflexivity|]. cbn [flat_map]. now rewrite IH, new_step_eq.
    - induction evs as [|pe r IH]; [reflexivity|]. cbn [flat_map]. now rewrite IH, new_step_eq.
  Qed.
End Steps.

(** nesting *)
Lemma nest_app a : forall st b, nest st (a ++ b) = match nest st a with Some st' => nest st' b | None => None end.
Proof.
  induction a as [|e a IH]; intros st b; [reflexivity|].
  destruct e; cbn [app nest]; try apply IH.
  destruct st as [|top st]; [reflexivity|]. destruct (str_eqb top name); [apply IH|reflexivity].
Qed.

Scheme new_element_ind2 := Induction for new_element Sort Prop
  with ne_content_ind2 := Induction for ne_content Sort Prop.

Lemma add_new_element_balanced ne : forall st, nest st (add_new_element ne) = Some st.
Proof.
  induction ne using new_element_ind2
    with (P0 := fun c => forall st, nest st (match c with NEText s => [Characters s] | NENested e => add_new_element e end) = Some st).
  - intros st. cbn [add_new_element nest]. rewrite nest_app, IHne. cbn [nest]. now rewrite str_eqb_refl.
  - intros st. reflexivity.
  - exact IHne.
Qed.

Lemma children_balanced l : forall st, nest st (flat_map add_new_element l) = Some st.
Proof.
  induction l as [|ne l IH]; intros st; [reflexivity|]. cbn [flat_map]. now rewrite nest_app, add_new_element_balanced.
Qed.

Lemma retarget_new_nest news evs : forall st st',
  nest st (map pe_ev evs) = Some st' -> nest st (retarget_new news evs) = Some st'.
Proof.
  unfold retarget_new. induction evs as [|pe r IH]; intros st st' H; [exact H|].
  cbn [flat_map map] in *. rewrite <- app_assoc, nest_app, children_balanced. cbn [app].
  destruct (pe_ev pe) eqn:E; cbn [nest] in *; try (apply IH; exact H).
  destruct st as [|top st]; [discriminate|]. destruct (str_eqb top name); [apply IH; exact H|discriminate].
Qed.

Lemma new_children_only_at_end news pe :
  new_children news pe <> [] -> exists n, pe_ev pe = EndElement n /\ forall ne, In ne (new_children news pe) -> In ne news /\ ne_parent ne = n.
Proof.
  unfold new_children. destruct (pe_ev pe); try congruence. intros _. exists name. split; [reflexivity|].
  intros ne H. apply filter_In in H. destruct H as [H1 H2]. split; [exact H1|]. now apply str_eqb_eq.
Qed.

(** ** apply *)
Section ApplyFacts.
  Variable fc : list xresult.
  Context {D : Type} (mkdiff : str -> str -> D) (dempty : D -> bool).

  Lemma xml_apply_guards g step original parse :
    let dry := xml_apply fc mkdiff dempty g step true original parse in
    let real := xml_apply fc mkdiff dempty g step false original parse in
    xo_file dry = original /\ xo_ret dry = xo_ret real /\ xo_failed dry = xo_failed real /\ xo_unfixed dry = xo_unfixed real /\
    (xo_ret real = None -> xo_file real = original) /\
    (parse = None -> xo_ret real = None /\ xo_failed real = true /\
                     xo_unfixed real = map (fun f => (f, 0%N)) (xall_findings fc)) /\
    (forall evs, parse = Some evs ->
       xo_failed real = false /\ xo_unfixed real = [] /\
       (xo_ret real = None <->
          snd (run_steps step evs) = [] \/
          guard_hits dempty g (mkdiff original (universal_newlines (emit_all (fst (run_steps step evs))))) = true) /\
       forall cs, xo_ret real = Some cs ->
                  xcs_changes cs = snd (run_steps step evs) /\
                  xo_file real = universal_newlines (emit_all (fst (run_steps step evs))) /\
                  xcs_diff cs = mkdiff original (xo_file real) /\
                  guard_hits dempty g (xcs_diff cs) = false).
  Proof.
    intros dry real. subst dry real. unfold xml_apply. destruct parse as [evs|].
    - destruct (run_steps step evs) as [out changes] eqn:E. destruct changes as [|c cs'].
      + cbn [xo_file xo_ret xo_failed xo_unfixed].
        split; [reflexivity|]. split; [reflexivity|]. split; [reflexivity|]. split; [reflexivity|].
        split; [reflexivity|]. split; [discriminate|].
        intros evs' H'. inversion H'; subst evs'. rewrite E. cbn [snd fst].
        split; [reflexivity|]. split; [reflexivity|]. split; [split; [intros _; left; reflexivity | reflexivity]|]. discriminate.
      + destruct (guard_hits dempty g (mkdiff original (universal_newlines (emit_all out)))) eqn:G.
        * cbn [xo_file xo_ret xo_failed xo_unfixed].
          split; [reflexivity|]. split; [reflexivity|]. split; [reflexivity|]. split; [reflexivity|].
          split; [reflexivity|]. split; [discriminate|].
          intros evs' H'. inversion H'; subst evs'. rewrite E. cbn [snd fst].
          split; [reflexivity|]. split; [reflexivity|]. split; [split; [intros _; right; exact G | reflexivity]|]. discriminate.
        * cbn [xo_file xo_ret xo_failed xo_unfixed].
          split; [reflexivity|]. split; [reflexivity|]. split; [reflexivity|]. split; [reflexivity|].
          split; [discriminate|]. split; [discriminate|].
          intros evs' H'. inversion H'; subst evs'. rewrite E. cbn [snd fst].
          split; [reflexivity|]. split; [reflexivity|].
          split; [split; [discriminate | intros [H0|H0]; [discriminate | rewrite G in H0; discriminate]]|].
          intros cs0 H0. inversion H0; subst cs0. cbn [xcs_changes xcs_diff]. repeat split; try reflexivity. exact G.
    - cbn [xo_file xo_ret xo_failed xo_unfixed].
      split; [reflexivity|]. split; [reflexivity|]. split; [reflexivity|]. split; [reflexivity|].
      split; [reflexivity|]. split; [intros _; repeat split; reflexivity|]. discriminate.
  Qed.
End ApplyFacts.

(** ** the statements of Properties/C19.v (XML half) *)
Lemma xml_attr_events_preserved :
  forall fc amap results lo evs,
    let out := fst (run_steps (attr_step fc amap results lo) evs) in
    let changes := snd (run_steps (attr_step fc amap results lo) evs) in
    List.length out = List.length evs /\
    (forall i pe, nth_error evs i = Some pe ->
        match attr_target amap results lo pe with
        | None => nth_error out i = Some (pe_ev pe)
        | Some (n, a, new) =>
            exists a', nth_error out i = Some (StartElement n a') /\
              (forall k, dget str_eqb k new = None -> dget str_eqb k a' = dget str_eqb k a) /\
              (forall k, dget str_eqb k new <> None -> exists v, In (k, v) new /\ dget str_eqb k a' = Some v) /\
              (exists extra, dkeys a' = dkeys a ++ extra /\ forall k, In k extra -> dhas str_eqb k a = false)
        end) /\
    changes = changes_attr fc amap results lo evs.
Proof.
  intros fc amap results lo evs out changes. subst out changes. rewrite run_attr_eq. cbn [fst snd].
  split; [apply map_length|]. split; [|reflexivity].
  intros i pe H. rewrite nth_error_map, H. cbn [option_map]. unfold model_attr_event.
  destruct (attr_target amap results lo pe) as [[[n a] new]|]; [|reflexivity].
  exists (dupdate str_eqb a new). split; [reflexivity|]. split; [|split].
  - intros k. apply dget_dupdate_absent.
  - intros k. apply dget_dupdate_present.
  - apply dkeys_dupdate.
Qed.

Lemma xml_new_events_preserved :
  forall fc news evs,
    let out := fst (run_steps (new_step fc news) evs) in
    let changes := snd (run_steps (new_step fc news) evs) in
    out = retarget_new news evs /\ changes = changes_new fc news evs /\
    (forall pe, new_children news pe <> [] ->
        exists n, pe_ev pe = EndElement n /\
                  forall ne, In ne (new_children news pe) -> In ne news /\ ne_parent ne = n) /\
    (forall l st, nest st (flat_map add_new_element l) = Some st) /\
    (forall st st', nest st (map pe_ev evs) = Some st' -> nest st out = Some st').
Proof.
  intros fc news evs out changes. subst out changes. rewrite run_new_eq. cbn [fst snd].
  split; [reflexivity|]. split; [reflexivity|]. split; [apply new_children_only_at_end|].
  split; [apply children_balanced|apply retarget_new_nest].
Qed.

(** ** the whole of apply() with the UTF-8 re-read (table-indexed on [xml_diff_guard]) *)
Definition xml_failure_out {D} (fc : list xresult) (original : str) : xapply_out (D := D) :=
  {| xo_ret := None; xo_file := original; xo_failed := true;
     xo_unfixed := map (fun f => (f, 0%N)) (xall_findings fc) |}.

Definition xml_reread_statement (g : xml_diff_guard) : Prop :=
  (* a document that re-reads as UTF-8: the re-read plays no part *)
  (forall fc D (mkdiff : str -> str -> D) dempty step dry original parse,
      xml_apply_file fc mkdiff dempty g step dry original parse true = Some (xml_apply fc mkdiff dempty g step dry original parse)) /\
  (* no edit (or no parse): the re-read is never reached *)
  (forall fc D (mkdiff : str -> str -> D) dempty step dry original,
      xml_apply_file fc mkdiff dempty g step dry original None false = Some (xml_apply fc mkdiff dempty g step dry original None) /\
      forall evs, snd (run_steps step evs) = [] ->
        xml_apply_file fc mkdiff dempty g step dry original (Some evs) false =
        Some {| xo_ret := None; xo_file := original; xo_failed := false; xo_unfixed := [] |}) /\
  match g with
  | DiffGuardRereadTry =>
      (* an edited document that is not UTF-8: failure recorded, file untouched, nothing escapes *)
      (forall fc D (mkdiff : str -> str -> D) dempty step dry original evs,
          snd (run_steps step evs) <> [] ->
          xml_apply_file fc mkdiff dempty g step dry original (Some evs) false = Some (xml_failure_out fc original)) /\
      (forall fc D (mkdiff : str -> str -> D) dempty step dry original parse ok,
          xml_apply_file fc mkdiff dempty g step dry original parse ok <> None)
  | NoDiffGuard | DiffGuard =>
      exists fc step original evs,
        xml_apply_file fc (fun _ _ => tt) (fun _ => false) g step false original (Some evs) false = None
  end.

Definition w_xml_evs : list pevent :=
  [ {| pe_line := 1; pe_col := 0; pe_ev := StartElement [101%N] [] |};
    {| pe_line := 1; pe_col := 0; pe_ev := EndElement [101%N] |} ].
Definition w_xml_step := attr_step [] [([101%N], [([122%N], [57%N])])] None false.

Lemma xml_reread_all g : xml_reread_statement g.
Proof.
  unfold xml_reread_statement. split; [reflexivity|]. split.
  - intros fc D mkdiff dempty step dry original. split; [reflexivity|].
    intros evs H. unfold xml_apply_file, xml_apply. rewrite H.
    destruct (run_steps step evs) as [out changes] eqn:E. cbn [snd] in H. subst changes. reflexivity.
  - destruct g.
    + exists [], w_xml_step, [], w_xml_evs. vm_compute. reflexivity.
    + exists [], w_xml_step, [], w_xml_evs. vm_compute. reflexivity.
    + split.
      * intros fc D mkdiff dempty step dry original evs H. unfold xml_apply_file.
        destruct (snd (run_steps step evs)); [congruence|reflexivity].
      * intros fc D mkdiff dempty step dry original parse ok. unfold xml_apply_file.
        destruct ok; [discriminate|]. destruct parse as [evs|]; [|discriminate].
        destruct (snd (run_steps step evs)); discriminate.
Qed.
