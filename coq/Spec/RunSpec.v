(** Reference notions used by the statements of C04 / C09 / C10 and the lifting lemmas, and a small concrete
    instance of the oracles ("toy") used for the [_refuted] witnesses and the non-vacuity [Example]s. *)
From CM Require Export Base.Dict Model.Run.

(** options differing only in --dry-run *)
Definition with_dry (b : bool) (cfg : config) : config :=
  {| dry_run := b; all_files := all_files cfg; ff_paths := ff_paths cfg; scan_all := scan_all cfg |}.

(** paths named by the change sets that the per-file phase of a codemod yields *)
Definition changed_paths (outs : list fres) : list path :=
  flat_map (fun r => match r with FCtx c => map cs_path (fc_cs c) | FCrash => [] end) outs.

(** pointwise equality of two file systems *)
Definition fs_eq (a b : fsys) : Prop := forall p, lookup a p = lookup b p.

(** ---- toy oracles: trees are the bytes themselves ----
    content starting with 255: undecodable;  1 :: r  ->  rewritten to 2 :: r (one change);
    3 :: r -> rewritten to 4 :: r and the dependency "d" is requested;  7 :: _ -> the transformer raises;
    6 :: r -> rewritten to 1 :: r (creates work for a later codemod);  anything else: no change. *)
Definition toy_parse (k : pipe_kind) (b : bytes) : option bytes :=
  match b with 255%N :: _ => None | _ => Some b end.
Definition toy_code (k : pipe_kind) (t : bytes) : bytes := t.
Definition toy_dep : dep := [100%N].
Definition toy_T (K : codemod) (t : bytes) (fi : option (list finding)) : outcome bytes :=
  match t with
  | 1%N :: r => Changed (2%N :: r) [(1%N, match fi with Some l => l | None => [] end)] []
  | 3%N :: r => Changed (4%N :: r) [(1%N, [])] [toy_dep]
  | 6%N :: r => Changed (1%N :: r) [(1%N, [])] []
  | 7%N :: _ => Raise
  | _ => NoChange
  end.
(** the toy semgrep rule of every codemod flags files whose content starts with 1 *)
Definition toy_S (K : codemod) (p : path) (b : bytes) : list finding :=
  match b with 1%N :: _ => [[102%N]] | _ => [] end.
Definition toy_R (K : codemod) : list (path * list finding) := [].
Definition toy_diff (a b : bytes) : str := if str_eqb a b then [] else a ++ [0%N] ++ b.
(** the toy writer appends the requested names; its diff shows the content it started from *)
Definition toy_W (k : skind) (c : option bytes) (ds : list dep) : option (bytes * str * list change) :=
  match c with
  | Some b => Some (b ++ concat ds, b ++ [0%N] ++ b ++ concat ds, [(1%N, [])])
  | None => None
  end.
Definition toy_fsel (K : codemod) (p : path) : bool := true.

Definition toy_codemod (id : N) (k : pipe_kind) (d : det_kind) : codemod :=
  {| cid := [id]; cpipe := k; cdet := d; cbase := FindAndFix; cavail := true |}.
Definition toy_cfg (dry : bool) (files : list path) : config :=
  {| dry_run := dry; all_files := files; ff_paths := files; scan_all := files |}.
Definition toy_run (tb : run_tables) (cfg : config) := run tb bytes toy_parse toy_code toy_T toy_S toy_R toy_diff toy_W toy_fsel cfg.

(** the table value of the pinned tree, used by the non-vacuity [Example]s (which must not depend on the current source) *)
Definition tables_pinned : run_tables :=
  {| t_libcst := [TryParse; TryTransform; IfNoChanges; IfNoDiff; IfNotDryWrite];
     t_regex := [IfNoChanges; IfNotDryWrite];
     t_xml := [TryTransform; IfNoChanges; IfNotDryWrite];
     t_writers := [(SReqTxt, true); (SToml, true); (SSetupPy, true); (SSetupCfg, true)];
     t_diff := FromTrees |}.
