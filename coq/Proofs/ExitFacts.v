(** C20: the space of worlds is finite; every statement about "all worlds" is decided by a sweep over the complete
    enumeration [all_worlds] (completeness proved below), for ANY value of the generated tables. *)
From CM Require Import Model.Exit Spec.ExitSpec.

Definition bools : list bool := [true; false].
Definition argparses : list argparse_outcome := [Args; ParseErr; EarlyExit0].
Definition sarifs : list sarif_outcome := [SarifOk; SarifDuplicate; SarifNotFound; SarifMalformed].

Lemma in_bools b : In b bools. Proof. destruct b; simpl; auto. Qed.
Lemma in_argparses a : In a argparses. Proof. destruct a; simpl; auto. Qed.
Lemma in_sarifs s : In s sarifs. Proof. destruct s; simpl; auto. Qed.

(** nominal values first, so that the first counterexample found differs from the nominal run in few fields *)
Definition all_worlds : list world :=
  flat_map (fun a => flat_map (fun bw => flat_map (fun bl => flat_map (fun d => flat_map (fun s =>
  flat_map (fun m1 => flat_map (fun m2 => flat_map (fun m3 => flat_map (fun m4 => flat_map (fun ai =>
  flat_map (fun o => flat_map (fun wr => flat_map (fun wp => map (fun ut =>
    {| w_argparse := a; w_bad_workers := negb bw; w_bad_line := negb bl; w_dir_exists := d; w_sarif := s;
       w_miss_issues := negb m1; w_miss_hotspots := negb m2; w_miss_dd := negb m3; w_miss_contrast := negb m4;
       w_ai_consistent := ai; w_output := o; w_write_ok := wr; w_write_partial := negb wp; w_unreadable_target := negb ut |})
  bools) bools) bools) bools) bools) bools) bools) bools) bools) sarifs) bools) bools) bools) argparses.

Lemma negb_negb_in b : exists b', In b' bools /\ negb b' = b.
Proof. exists (negb b). split; [apply in_bools | apply negb_involutive]. Qed.

Lemma all_worlds_complete : forall w, In w all_worlds.
Proof.
  intros [a bw bl d s m1 m2 m3 m4 ai o wr wp ut]. unfold all_worlds.
  apply in_flat_map. exists a. split; [apply in_argparses|].
  apply in_flat_map. exists (negb bw). split; [apply in_bools|].
  apply in_flat_map. exists (negb bl). split; [apply in_bools|].
  apply in_flat_map. exists d. split; [apply in_bools|].
  apply in_flat_map. exists s. split; [apply in_sarifs|].
  apply in_flat_map. exists (negb m1). split; [apply in_bools|].
  apply in_flat_map. exists (negb m2). split; [apply in_bools|].
  apply in_flat_map. exists (negb m3). split; [apply in_bools|].
  apply in_flat_map. exists (negb m4). split; [apply in_bools|].
  apply in_flat_map. exists ai. split; [apply in_bools|].
  apply in_flat_map. exists o. split; [apply in_bools|].
  apply in_flat_map. exists wr. split; [apply in_bools|].
  apply in_flat_map. exists (negb wp). split; [apply in_bools|].
  apply in_map_iff. exists (negb ut). split; [|apply in_bools].
  now rewrite !negb_involutive.
Qed.


(** generic sweep: a decidable property of worlds holds of all worlds in [scope], or the sweep returns a counterexample *)
Definition counterexamples (scope ok : world -> bool) : list world :=
  filter (fun w => scope w && negb (ok w)) all_worlds.

Lemma sweep (scope ok : world -> bool) :
  match counterexamples scope ok with
  | [] => forall w, scope w = true -> ok w = true
  | w0 :: _ => scope w0 = true /\ ok w0 = false
  end.
Proof.
  destruct (counterexamples scope ok) as [|w0 r] eqn:E.
  - intros w Hs. destruct (ok w) eqn:Hok; [reflexivity|].
    assert (Hin : In w (counterexamples scope ok)).
    { apply filter_In. split; [apply all_worlds_complete|]. now rewrite Hs, Hok. }
    rewrite E in Hin. destruct Hin.
  - assert (Hin : In w0 (counterexamples scope ok)) by (rewrite E; now left).
    apply filter_In in Hin. destruct Hin as [_ H]. apply andb_true_iff in H. destruct H as [H1 H2].
    apply negb_true_iff in H2. auto.
Qed.

(** ** the exit table *)
(** the outcome is the documented status, and a complete report is there iff one is due *)
Definition conforms (w : world) (o : outcome) : Prop :=
  exists r, o = Exit (documented w) r /\ report_conforms w r = true.
Definition agrees (T : exit_tables) (w : world) : bool :=
  match run_exit T w with Exit z r => Z.eqb z (documented w) && report_conforms w r | Crash => false end.
Lemma agrees_conforms T w : agrees T w = true <-> conforms w (run_exit T w).
Proof.
  unfold agrees, conforms. destruct (run_exit T w) as [z r|].
  - rewrite andb_true_iff, Z.eqb_eq. split.
    + intros [-> H]. now exists r.
    + intros (r' & E & H). injection E as -> ->. auto.
  - split; [discriminate|]. intros (r & E & _). discriminate.
Qed.
Definition exit_counterexamples (T : exit_tables) : list world := counterexamples in_scope (agrees T).

Definition exit_table_statement (T : exit_tables) : Prop :=
  match exit_counterexamples T with
  | [] => forall w, in_scope w = true -> conforms w (run_exit T w)
  | w0 :: _ => in_scope w0 = true /\ ~ conforms w0 (run_exit T w0)
  end.
Lemma exit_table_all T : exit_table_statement T.
Proof.
  unfold exit_table_statement, exit_counterexamples. pose proof (sweep in_scope (agrees T)) as H.
  destruct (counterexamples in_scope (agrees T)) as [|w0 r].
  - intros w Hs. apply agrees_conforms. now apply H.
  - destruct H as [H1 H2]. split; [exact H1|]. intros E. apply agrees_conforms in E. congruence.
Qed.

(** ** a non-zero status is never returned for a run whose report was written *)
Definition report_rule_ok (T : exit_tables) (w : world) : bool :=
  match run_exit T w with Exit z RFull => Z.eqb z 0 | _ => true end.
Definition report_counterexamples (T : exit_tables) : list world := counterexamples (fun _ => true) (report_rule_ok T).
Definition nonzero_no_report_statement (T : exit_tables) : Prop :=
  match report_counterexamples T with
  | [] => forall w z r, run_exit T w = Exit z r -> z <> 0%Z -> r <> RFull
  | w0 :: _ => exists z, run_exit T w0 = Exit z RFull /\ z <> 0%Z
  end.
Lemma nonzero_no_report_all T : nonzero_no_report_statement T.
Proof.
  unfold nonzero_no_report_statement, report_counterexamples. pose proof (sweep (fun _ => true) (report_rule_ok T)) as H.
  destruct (counterexamples (fun _ => true) (report_rule_ok T)) as [|w0 r0].
  - intros w z r E Hz. specialize (H w eq_refl). unfold report_rule_ok in H. rewrite E in H.
    destruct r; try discriminate. apply Z.eqb_eq in H. contradiction.
  - destruct H as [_ H]. unfold report_rule_ok in H. destruct (run_exit T w0) as [z [| |]|]; try discriminate.
    exists z. split; [reflexivity|]. now apply Z.eqb_neq.
Qed.

(** ** an exception escapes only on the input classes listed as known findings *)
Definition crash_input (T : exit_tables) (w : world) : bool :=
  w_bad_line w || match w_sarif w with SarifMalformed => true | _ => false end
  || (w_bad_workers w && negb (t_workers_validated T))
  || (w_unreadable_target w && negb (t_semgrep_filtered T)).
Definition no_other_crash_ok (T : exit_tables) (w : world) : bool :=
  match run_exit T w with Crash => crash_input T w | _ => true end.
Definition crash_counterexamples (T : exit_tables) : list world := counterexamples (fun _ => true) (no_other_crash_ok T).
Definition crash_only_statement (T : exit_tables) : Prop :=
  match crash_counterexamples T with
  | [] => forall w, run_exit T w = Crash -> crash_input T w = true
  | w0 :: _ => run_exit T w0 = Crash /\ crash_input T w0 = false
  end.
Lemma crash_only_all T : crash_only_statement T.
Proof.
  unfold crash_only_statement, crash_counterexamples. pose proof (sweep (fun _ => true) (no_other_crash_ok T)) as H.
  destruct (counterexamples (fun _ => true) (no_other_crash_ok T)) as [|w0 r0].
  - intros w E. specialize (H w eq_refl). unfold no_other_crash_ok in H. now rewrite E in H.
  - destruct H as [_ H]. unfold no_other_crash_ok in H. destruct (run_exit T w0); [discriminate|]. auto.
Qed.

(** ** consequences of a clean sweep: the order in which the conditions are consulted *)
Definition nominal : world :=
  {| w_argparse := Args; w_bad_workers := false; w_bad_line := false; w_dir_exists := true; w_sarif := SarifOk;
     w_miss_issues := false; w_miss_hotspots := false; w_miss_dd := false; w_miss_contrast := false;
     w_ai_consistent := true; w_output := true; w_write_ok := true; w_write_partial := false; w_unreadable_target := false |}.

Lemma documented_order :
  (* arguments are judged before anything on disk is consulted *)
  (forall w, w_argparse w = ParseErr -> documented w = 3%Z) /\
  (forall w, w_argparse w = EarlyExit0 -> documented w = 0%Z) /\
  (* the "1" conditions come before the AI-client configuration and the report *)
  (forall w, w_argparse w = Args -> w_bad_workers w = false -> w_bad_line w = false ->
     (w_dir_exists w = false \/ sarif_refused (w_sarif w) = true \/
      w_miss_issues w = true \/ w_miss_hotspots w = true \/ w_miss_dd w = true \/ w_miss_contrast w = true) ->
     documented w = 1%Z) /\
  (* the AI-client configuration comes before the report *)
  (forall w, w_argparse w = Args -> w_bad_workers w = false -> w_bad_line w = false -> w_dir_exists w = true ->
     sarif_refused (w_sarif w) = false -> w_miss_issues w = false -> w_miss_hotspots w = false -> w_miss_dd w = false ->
     w_miss_contrast w = false -> w_ai_consistent w = false -> documented w = 3%Z) /\
  (* status 2 means exactly: everything else was fine and the report could not be written *)
  (forall w, documented w = 2%Z <->
     w_argparse w = Args /\ w_bad_workers w = false /\ w_bad_line w = false /\ w_dir_exists w = true /\
     sarif_refused (w_sarif w) = false /\ w_miss_issues w = false /\ w_miss_hotspots w = false /\ w_miss_dd w = false /\
     w_miss_contrast w = false /\ w_ai_consistent w = true /\ w_output w = true /\ w_write_ok w = false).
Proof.
  split; [|split; [|split; [|split]]].
  - intros w H. unfold documented. now rewrite H.
  - intros w H. unfold documented. now rewrite H.
  - intros [a bw bl d s m1 m2 m3 m4 ai o wr wp ut]; simpl. intros -> -> ->.
    destruct d, s, m1, m2, m3, m4; simpl; intuition congruence.
  - intros [a bw bl d s m1 m2 m3 m4 ai o wr wp ut]; simpl. intros Ha Hbw Hbl Hd Hs H1 H2 H3 H4 Hai. subst.
    destruct s; simpl in *; try discriminate; reflexivity.
  - intros [a bw bl d s m1 m2 m3 m4 ai o wr wp ut]; simpl. split.
    + destruct a; simpl; try discriminate; destruct bw; simpl; try discriminate; destruct bl; simpl; try discriminate;
      destruct d; simpl; try discriminate; destruct s; simpl; try discriminate;
      destruct m1; simpl; try discriminate; destruct m2; simpl; try discriminate; destruct m3; simpl; try discriminate;
      destruct m4; simpl; try discriminate; destruct ai; simpl; try discriminate; destruct o; simpl; try discriminate;
      destruct wr; simpl; try discriminate; intros _; repeat split; reflexivity.
    + intros (-> & -> & -> & -> & Hs & -> & -> & -> & -> & -> & -> & ->). destruct s; simpl in *; try discriminate; reflexivity.
Qed.

(** ** the individual defects, for every value of the other tables *)
Definition mkT (chain : list (guard_id * Z)) (used : bool) (code : Z) (groups : list result_group) (validated filtered : bool) : exit_tables :=
  {| t_chain := chain; t_write_used := used; t_argparse_code := code; t_groups := groups; t_workers_validated := validated;
     t_semgrep_filtered := filtered |}.

Definition w_unwritable : world :=
  {| w_argparse := Args; w_bad_workers := false; w_bad_line := false; w_dir_exists := true; w_sarif := SarifOk;
     w_miss_issues := false; w_miss_hotspots := false; w_miss_dd := false; w_miss_contrast := false;
     w_ai_consistent := true; w_output := true; w_write_ok := false; w_write_partial := false; w_unreadable_target := false |}.
(** open() succeeds, the write does not (disk full): a truncated file stays behind *)
Definition w_partial : world :=
  {| w_argparse := Args; w_bad_workers := false; w_bad_line := false; w_dir_exists := true; w_sarif := SarifOk;
     w_miss_issues := false; w_miss_hotspots := false; w_miss_dd := false; w_miss_contrast := false;
     w_ai_consistent := true; w_output := true; w_write_ok := false; w_write_partial := true; w_unreadable_target := false |}.
Definition w_contrast_missing : world :=
  {| w_argparse := Args; w_bad_workers := false; w_bad_line := false; w_dir_exists := true; w_sarif := SarifOk;
     w_miss_issues := false; w_miss_hotspots := false; w_miss_dd := false; w_miss_contrast := true;
     w_ai_consistent := true; w_output := true; w_write_ok := true; w_write_partial := false; w_unreadable_target := false |}.
Definition w_workers : world :=
  {| w_argparse := Args; w_bad_workers := true; w_bad_line := false; w_dir_exists := true; w_sarif := SarifOk;
     w_miss_issues := false; w_miss_hotspots := false; w_miss_dd := false; w_miss_contrast := false;
     w_ai_consistent := true; w_output := true; w_write_ok := true; w_write_partial := false; w_unreadable_target := false |}.
Definition w_line : world :=
  {| w_argparse := Args; w_bad_workers := false; w_bad_line := true; w_dir_exists := true; w_sarif := SarifOk;
     w_miss_issues := false; w_miss_hotspots := false; w_miss_dd := false; w_miss_contrast := false;
     w_ai_consistent := true; w_output := true; w_write_ok := true; w_write_partial := false; w_unreadable_target := false |}.
Definition w_malformed : world :=
  {| w_argparse := Args; w_bad_workers := false; w_bad_line := false; w_dir_exists := true; w_sarif := SarifMalformed;
     w_miss_issues := false; w_miss_hotspots := false; w_miss_dd := false; w_miss_contrast := false;
     w_ai_consistent := true; w_output := true; w_write_ok := true; w_write_partial := false; w_unreadable_target := false |}.

Lemma no_missing_groups w groups :
  w_miss_issues w = false -> w_miss_hotspots w = false -> w_miss_dd w = false ->
  (w_miss_contrast w = false \/ existsb (group_eqb GrContrast) groups = false) ->
  existsb (group_missing w) groups = false.
Proof.
  intros H1 H2 H3 H4. induction groups as [|g groups IH]; simpl; [reflexivity|].
  destruct g; simpl; rewrite ?H1, ?H2, ?H3; simpl.
  - apply IH. destruct H4 as [H4|H4]; [now left|right]. simpl in H4. exact H4.
  - apply IH. destruct H4 as [H4|H4]; [now left|right]. simpl in H4. exact H4.
  - apply IH. destruct H4 as [H4|H4]; [now left|right]. simpl in H4. exact H4.
  - destruct H4 as [H4|H4]; [rewrite H4; simpl; apply IH; now left | simpl in H4; discriminate].
Qed.

(** pinned form: the status of write_report is dropped, an unwritable --output ends with status 0 *)
Lemma unwritable_dropped chain code groups validated filtered : forall r,
  run_exit (mkT chain false code groups validated filtered) w_unwritable <> Exit (documented w_unwritable) r.
Proof.
  intros r. unfold run_exit, mkT; simpl. rewrite andb_false_r.
  destruct (chain_canonical chain); [|discriminate].
  unfold run_body; simpl. rewrite (no_missing_groups w_unwritable groups) by (auto; now left). simpl. discriminate.
Qed.

(** a missing --contrast-vulnerabilities-xml file is not looked at unless its list reaches the existence loop *)
Lemma contrast_unchecked chain used code groups validated filtered :
  existsb (group_eqb GrContrast) groups = false -> forall r,
  run_exit (mkT chain used code groups validated filtered) w_contrast_missing <> Exit (documented w_contrast_missing) r.
Proof.
  intros Hg r. unfold run_exit, mkT; simpl. rewrite andb_false_r.
  destruct (chain_canonical chain); [|discriminate].
  unfold run_body; simpl. rewrite (no_missing_groups w_contrast_missing groups) by (auto; now right). simpl. discriminate.
Qed.

(** --max-workers 0 passes [type=int] and ThreadPoolExecutor raises later *)
Lemma workers_unvalidated chain used code groups filtered :
  run_exit (mkT chain used code groups false filtered) w_workers = Crash.
Proof.
  unfold run_exit, mkT; simpl. destruct (chain_canonical chain); [|reflexivity].
  unfold run_body; simpl. now rewrite (no_missing_groups w_workers groups) by (auto; now left).
Qed.

(** the two input classes left as known findings crash for every value of the tables *)
Lemma crash_inputs T : run_exit T w_line = Crash /\ run_exit T w_malformed = Crash.
Proof.
  destruct T as [chain used code groups validated filtered]. unfold run_exit; simpl. rewrite andb_false_r.
  destruct (chain_canonical chain); [|split; reflexivity].
  unfold run_body; simpl. split; [|reflexivity].
  now rewrite (no_missing_groups w_line groups) by (auto; now left).
Qed.

(** pinned form on a partial write: status 0 while only a truncated file exists *)
Lemma partial_dropped chain code groups validated filtered :
  chain_canonical chain = true ->
  run_exit (mkT chain false code groups validated filtered) w_partial = Exit 0 RPartial.
Proof.
  intros Hc. unfold run_exit, mkT; simpl. rewrite andb_false_r, Hc.
  unfold run_body; simpl. now rewrite (no_missing_groups w_partial groups) by (auto; now left).
Qed.

(** a file without the owner-read bit handed to semgrep: the scan fails as a whole and the exception escapes *)
Definition w_unreadable : world :=
  {| w_argparse := Args; w_bad_workers := false; w_bad_line := false; w_dir_exists := true; w_sarif := SarifOk;
     w_miss_issues := false; w_miss_hotspots := false; w_miss_dd := false; w_miss_contrast := false;
     w_ai_consistent := true; w_output := true; w_write_ok := true; w_write_partial := false; w_unreadable_target := true |}.
Lemma unreadable_unfiltered chain used code groups validated :
  run_exit (mkT chain used code groups validated false) w_unreadable = Crash.
Proof.
  unfold run_exit, mkT; simpl. rewrite andb_false_r. destruct (chain_canonical chain); [|reflexivity].
  unfold run_body; simpl. now rewrite (no_missing_groups w_unreadable groups) by (auto; now left).
Qed.
