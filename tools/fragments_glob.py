# Fragments of the path / line filtering logic (C05, C13).  exec'd inside tools/translate.py.
# Model: coq/Model/Glob.v, coq/Model/LineFilter.v; table types: coq/Base/Types_Glob.v.

TABLE_IMPORTS.append("From CM Require Import Base.Types_Glob.")


def _str_list_literal(value):
    if not isinstance(value, list) or not all(isinstance(x, str) for x in value):
        raise Unrecognised("not a list of string literals")
    return value


def _default_list(name):
    def fn(tree, repo):
        node = find_assign(tree, name)
        if node is None:
            raise Unrecognised(f"module-level name {name} not found")
        try:
            return _str_list_literal(ast.literal_eval(node))
        except Unrecognised:
            raise
        except Exception as e:
            raise Unrecognised(f"{name} is not a literal: {e}")
    return fn


custom("default_included_paths", "src/codemodder/code_directory.py", ["C05"],
       "default_included_paths", "list str", ["**.py", "**/*.py"], _default_list("DEFAULT_INCLUDED_PATHS"),
       printer=coq_str_list, doc="DEFAULT_INCLUDED_PATHS")
custom("default_excluded_paths", "src/codemodder/code_directory.py", ["C05"],
       "default_excluded_paths", "list str",
       ["test/**", "tests/**", "**/__test__/**", "**/__tests__/**", "conftest.py", "build/**", "dist/**", "venv/**",
        "**/site-packages/**", ".venv/**", ".tox/**", ".nox/**", ".eggs/**", ".git/**", ".mypy_cache/**",
        ".pytest_cache/**", ".hypothesis/**", ".coverage*"],
       _default_list("DEFAULT_EXCLUDED_PATHS"), printer=coq_str_list, doc="DEFAULT_EXCLUDED_PATHS")

shape("code_directory_fns", "src/codemodder/code_directory.py", ["C05", "C13"],
      "code_directory_shape", "as_written", "AsWritten",
      ["file_line_patterns", "filter_files", "files_for_directory", "match_files"],
      doc="file_line_patterns / filter_files / files_for_directory / match_files as modelled in Model/Glob.v")

shape("context_paths", "src/codemodder/context.py", ["C05"],
      "context_paths_shape", "as_written", "AsWritten",
      ["CodemodExecutionContext.included_paths", "CodemodExecutionContext.files_to_analyze",
       "CodemodExecutionContext.filter_paths"],
      doc="included_paths / files_to_analyze / filter_paths (user excludes as they are)")

shape("ff_exclude_sentinel", "src/codemodder/context.py", ["C05"],
      "ff_exclude_sentinel", "exclude_sentinel_form", "FileLevelOrNone",
      ["CodemodExecutionContext.find_and_fix_paths"],
      doc="find_and_fix_paths: `self.path_exclude or None` (a list of `path:line` patterns only switches the default excludes off) "
          "/ the file-level patterns `or None`")

shape("manifest_locations", "src/codemodder/project_analysis/file_parsers/base_parser.py", ["C05"],
      "manifest_locations", "manifest_loc_form", "SkipSymlinks",
      ["BaseParser.find_file_locations"],
      doc="BaseParser.find_file_locations: every rglob hit / symlinks skipped")


def _manifest_exclusion_parts(tree):
    """context.py: the helper `_writable_package_stores` (absent on the pinned tree) and the expression whose value
    `process_dependencies` binds to store_list (the stores it may write)."""
    parts = []
    helper = find_def(tree, "CodemodExecutionContext._writable_package_stores")
    parts.append("helper=" + (norm_dump(helper) if helper is not None else "<absent>"))
    pd = find_def(tree, "CodemodExecutionContext.process_dependencies")
    if pd is None:
        raise Unrecognised("CodemodExecutionContext.process_dependencies not found")
    bound = [n for n in ast.walk(pd) if isinstance(n, ast.NamedExpr) and isinstance(n.target, ast.Name) and n.target.id == "store_list"]
    bound += [n for n in ast.walk(pd) if isinstance(n, ast.Assign) and len(n.targets) == 1 and isinstance(n.targets[0], ast.Name)
              and n.targets[0].id == "store_list"]
    if len(bound) != 1:
        raise Unrecognised(f"process_dependencies binds store_list {len(bound)} times")
    parts.append("store_list=" + norm_dump(bound[0].value))
    return "\n".join(parts)


def _manifest_exclusion(tree, repo):
    got = _manifest_exclusion_parts(tree)
    for f in sorted((SHAPES / "manifest_exclusion").glob("*.py")):
        if _manifest_exclusion_parts(ast.parse(f.read_text())) == got:
            return f.stem.split("__")[0]
    raise Unrecognised("the stores process_dependencies may write (store_list / _writable_package_stores) match no known variant")


custom("manifest_exclusion", "src/codemodder/context.py", ["C05"],
       "manifest_exclusion", "manifest_excl_form", "FileLevelExcludes", _manifest_exclusion,
       doc="process_dependencies: every parsed package store may be written / stores matched by a file-level exclude are skipped")

shape("get_files_to_analyze", "src/codemodder/codemods/base_codemod.py", ["C05"],
      "get_files_to_analyze_shape", "as_written", "AsWritten",
      ["FindAndFixCodemod.get_files_to_analyze", "RemediationCodemod.get_files_to_analyze"],
      doc="FindAndFixCodemod / RemediationCodemod .get_files_to_analyze")

shape("registry_default_include", "src/codemodder/registry.py", ["C05"],
      "registry_default_include_shape", "as_written", "AsWritten",
      ["CodemodRegistry.default_include_paths", "CodemodRegistry.add_codemod_collection"],
      doc="registry.default_include_paths = {*ext, **/*ext for each default extension}")

shape("line_filter", "src/codemodder/codemods/base_visitor.py", ["C13"],
      "line_filter_rule", "lf_rule", "ExcludeThenInclude",
      ["UtilsMixin.filter_by_path_includes_or_excludes", "UtilsMixin.node_is_selected", "UtilsMixin.lineno_for_node",
       "match_line"],
      doc="filter_by_path_includes_or_excludes (as written: a non-empty exclusion list shadows the inclusion list; repaired: excluded never, "
          "included only) / node_is_selected / lineno_for_node / match_line")

shape("line_filter_copy", "src/core_codemods/remove_unused_imports.py", ["C13"],
      "line_filter_copy_rule", "lf_rule", "ExcludeThenInclude",
      ["RemoveUnusedImports.filter_by_path_includes_or_excludes", "match_line"],
      doc="the copy of the line filter in remove_unused_imports.py: must be the same decision rule")

shape("report_change", "src/codemodder/codemods/libcst_transformer.py", ["C13"],
      "report_change_shape", "as_written", "AsWritten",
      ["LibcstResultTransformer.add_change", "LibcstResultTransformer.add_change_from_position",
       "LibcstResultTransformer.lineno_for_node", "LibcstResultTransformer.report_change",
       "LibcstResultTransformer.report_change_for_line"],
      doc="report_change: lineNumber = start line of node_position(node)")


# --- base_codemod._process_file: which path form the `path:line` patterns are matched against -------------------
def _line_pattern_parts(tree):
    """The parts of base_codemod.py that decide the line lists handed to the transformer:
    the helper `_file_line_patterns` (absent on the pinned tree), and in `_process_file` the two assignments
    to line_exclude / line_include and the FileContext(...) construction that passes them on."""
    parts = []
    helper = find_def(tree, "_file_line_patterns")
    parts.append("helper=" + (norm_dump(helper) if helper is not None else "<absent>"))
    pf = find_def(tree, "BaseCodemod._process_file")
    if pf is None:
        raise Unrecognised("BaseCodemod._process_file not found")
    wanted = {"line_exclude": None, "line_include": None, "file_context": None}
    for s in ast.walk(pf):
        if isinstance(s, ast.Assign) and len(s.targets) == 1 and isinstance(s.targets[0], ast.Name) \
                and s.targets[0].id in wanted:
            if wanted[s.targets[0].id] is not None:
                raise Unrecognised(f"{s.targets[0].id} assigned more than once in _process_file")
            wanted[s.targets[0].id] = norm_dump(s.value)
    for k, v in wanted.items():
        if v is None:
            raise Unrecognised(f"no assignment to {k} in _process_file")
        parts.append(f"{k}={v}")
    return "\n".join(parts)


def _line_pattern_path_form(tree, repo):
    got = _line_pattern_parts(tree)
    for f in sorted((SHAPES / "line_pattern_path_form").glob("*.py")):
        if _line_pattern_parts(ast.parse(f.read_text())) == got:
            return f.stem.split("__")[0]
    raise Unrecognised("_file_line_patterns / the line_exclude, line_include, FileContext(...) statements of "
                       "_process_file match no known variant")


custom("line_pattern_path_form", "src/codemodder/codemods/base_codemod.py", ["C13", "C05"],
       "line_pattern_path_form", "path_form", "Both", _line_pattern_path_form,
       doc="_process_file: path:line patterns matched against the path as passed only (pinned) / also the target-relative path (18b42d9)")
