(** C15 — the positive branches are the ones taken on the CURRENT source: the premises [strict] / [good_pipe] of the laws hold
    of the values extracted into Generated/Tables.v, and the laws instantiated at those values.
    This file compiles only when the extracted tables are the guarded ones (Properties/C15.v compiles for every value);
    harness/c15.py reports a broken tie when it does not. *)
From CM Require Import Model.Report Model.ReportTables Spec.ReportSpec Proofs.ReportFacts Proofs.ReportTheorems Generated.Tables.
From Coq Require Import Lia.

Example C15_tables_positive :
  strict the_validators /\ good_pipe the_tables PLibcst /\ good_pipe the_tables (PXml [120%N]) /\
  good_pipe the_tables (PRegex [120%N]).
Proof.
  split; [split; [exists 1%Z; split; [reflexivity|lia]|reflexivity]|].
  split; [reflexivity|]. split; [split; [reflexivity|discriminate]|]. exact I.
Qed.
Print Assumptions C15_tables_positive.

(** the laws at the extracted tables: no table premise left, only the oracle contracts [run_ok].  (Whether a regex-pipeline
    file can abort the run, in which case no report is written, is [C15_regex_pipeline]; [run_ok] excludes such files.) *)
Theorem C15_here :
  forall iv nf runs,
    (forall r, In r runs -> run_ok the_tables r) ->
    schema_ok (to_json (report the_rtables iv nf runs)) = true /\
    (forall res, In res (ct_results (report the_rtables iv nf runs)) -> forallb changeset_ok (rs_changeset res) = true) /\
    report_opt the_rtables iv nf runs = Some (report the_rtables iv nf runs).
Proof.
  intros iv nf runs Hr. destruct C15_tables_positive as [HS _].
  split; [apply schema_ok_all; assumption|]. split.
  - intros res Hin. destruct (changesets_wellformed_all the_rtables iv nf runs res HS Hr Hin) as [H _]. exact H.
  - unfold report_opt. replace (existsb (run_aborts (t_pipe the_rtables)) runs) with false; [now rewrite andb_false_r|].
    symmetry. apply not_true_is_false. intros H. apply existsb_exists in H as [r [Hin H]]. unfold run_aborts in H.
    destruct (Hr r Hin) as [_ [HF _]]. unfold files_of in HF.
    destruct (cr_files r) as [fs|]; [|discriminate]. apply existsb_exists in H as [f [Hf H]].
    rewrite Forall_forall in HF. destruct (HF f Hf) as [_ Hpre].
    destruct (cr_pipe r); cbn in H; try discriminate; destruct Hpre as [Hab _]; cbn in Hab; rewrite Hab in H; discriminate.
Qed.
Print Assumptions C15_here.

(** the premises are satisfiable at the extracted tables: the example runs of Proofs/ReportTheorems.v, regex included *)
Example C15_here_nonvacuous :
  (forall r, In r (ex_runs ++ w_regex_runs) -> run_ok the_tables r) /\
  exists res, In res (ct_results (report the_rtables w_iv false (ex_runs ++ w_regex_runs))) /\ rs_changeset res <> [].
Proof.
  split.
  - intros r Hin. apply in_app_iff in Hin as [Hin|Hin].
    + exact (ex_runs_ok report_xml_apply r Hin).
    + exact (w_regex_runs_ok report_libcst_apply report_xml_apply r Hin).
  - eexists. split; [left; reflexivity|vm_compute; discriminate].
Qed.
