def load_registered_codemods(ep_filter: Optional[Callable[[EntryPoint], bool]] = None):
    registry = CodemodRegistry()
    logger.debug("loading registered codemod collections")

    # de-duplicate but keep a deterministic order (a set would be ordered by hash seed)
    for entry_point in dict.fromkeys(entry_points().select(group="codemods")):
        if ep_filter and not ep_filter(entry_point):
            logger.debug(
                '- skipping codemod collection "%s" from "%s as requested"',
                entry_point.name,
                entry_point.module,
            )
            continue

        logger.debug(
            '- loading codemod collection "%s" from "%s"',
            entry_point.name,
            entry_point.module,
        )
        collection = entry_point.load()
        registry.add_codemod_collection(collection)
    return registry
