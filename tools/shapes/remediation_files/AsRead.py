# src/codemodder/codemods/base_codemod.py at the commit the model was written against (shape reference; not executed)
class RemediationCodemod:
    def get_files_to_analyze(
        self,
        context: CodemodExecutionContext,
        results: ResultSet | None,
    ) -> list[Path]:
        """
        Get the list of files to analyze based on which files have findings associated with the requested rules

        Using `context.files_to_analyze` includes all files in the directory. These paths are filtered by locations that are
        associated with findings for the requested rules. Finally these paths are filtered according to user-provided `path_include`
        and `path_exclude` settings using `context.filter_paths`.
        """
        return context.filter_paths(
            [
                path
                for path in context.files_to_analyze
                if path.suffix in (self.default_extensions or [])
                and any(
                    results.results_for_rule_and_file(context, rule_id, path)
                    for rule_id in self.requested_rules
                )
            ]
            if results
            else []
        )

    def apply(self, context: CodemodExecutionContext) -> None:
        self._apply(context, self.requested_rules)

