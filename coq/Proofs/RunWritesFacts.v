(** Frame property of the whole-run model (Model/Run.v), used by C05: which paths of the file system a run can
    write.  Every write of [Run.run] is either [process_file] on a path handed over by [files_to_analyze]
    (so: a path of [ff_paths cfg] / [all_files cfg] accepted by [fsel]), or [try_stores] on the path of one of the
    dependency manifests ([st_path] of a package store).  Nothing else is ever written. *)
From CM Require Import Model.Run.

Definition agree_outside (P : path -> Prop) (a b : fsys) : Prop := forall p, ~ P p -> lookup b p = lookup a p.

Lemma agree_refl P a : agree_outside P a a.
Proof. intros p _. reflexivity. Qed.
Lemma agree_trans P a b c : agree_outside P a b -> agree_outside P b c -> agree_outside P a c.
Proof. intros H1 H2 p Hp. rewrite (H2 p Hp). apply H1. exact Hp. Qed.
Lemma agree_weaken (P Q : path -> Prop) a b : (forall p, P p -> Q p) -> agree_outside P a b -> agree_outside Q a b.
Proof. intros HPQ H p Hq. apply H. intros Hp. apply Hq. apply HPQ. exact Hp. Qed.

Lemma lookup_fwrite_other fs q b p : p <> q -> lookup (fwrite fs q b) p = lookup fs p.
Proof.
  intros Hne. unfold lookup, fwrite. simpl. destruct (str_eqb p q) eqn:E; [| reflexivity].
  apply str_eqb_eq in E. congruence.
Qed.

Definition rr_state (r : run_result) : state := match r with Ok s => s | Aborted s => s end.

Section Frame.
  Variable tb : run_tables.
  Variable tree : Type.
  Variable parse : pipe_kind -> bytes -> option tree.
  Variable code : pipe_kind -> tree -> bytes.
  Variable T : codemod -> tree -> option (list finding) -> outcome tree.
  Variable S : codemod -> path -> bytes -> list finding.
  Variable R : codemod -> list (path * list finding).
  Variable diff : bytes -> bytes -> str.
  Variable W : skind -> option bytes -> list dep -> option (bytes * str * list change).
  Variable fsel : codemod -> path -> bool.
  Variable cfg : config.

  Notation process_file := (process_file tb tree parse code T diff cfg).
  Notation map_files := (map_files tb tree parse code T diff cfg).
  Notation files_to_analyze := (files_to_analyze fsel cfg).
  Notation apply_codemod := (apply_codemod tb tree parse code T S R diff fsel cfg).
  Notation try_stores := (try_stores tb W cfg).
  Notation process_dependencies := (process_dependencies tb W cfg).
  Notation apply_codemods := (apply_codemods tb tree parse code T S R diff W fsel cfg).
  Notation run := (run tb tree parse code T S R diff W fsel cfg).

  (** the source files codemod K may be handed *)
  Definition scope (K : codemod) : list path :=
    List.filter (fsel K) (match cbase K with FindAndFix => ff_paths cfg | Remediation => all_files cfg end).

  Lemma files_to_analyze_scope K results q : In q (files_to_analyze K results) -> In q (scope K).
  Proof.
    unfold Run.files_to_analyze, scope. destruct (cbase K).
    - intros H. exact H.
    - destruct results as [r |]; [| intros []]. rewrite !filter_In. intros [Hin Hb].
      apply Bool.andb_true_iff in Hb. split; [exact Hin | apply Hb].
  Qed.

  Lemma process_file_frame K results fs p0 : agree_outside (fun q => q = p0) fs (snd (process_file K results fs p0)).
  Proof.
    intros p Hp. unfold Run.process_file. simpl.
    destruct (snd (file_step tb tree parse code T diff cfg K results p0 (lookup fs p0))); [| reflexivity].
    apply lookup_fwrite_other. exact Hp.
  Qed.

  Lemma map_files_frame K results : forall files fs,
    agree_outside (fun q => In q files) fs (snd (map_files K results fs files)).
  Proof.
    induction files as [| p0 rest IH]; intros fs; simpl.
    - apply agree_refl.
    - apply (agree_trans _ fs (snd (process_file K results fs p0))).
      + apply (agree_weaken (fun q => q = p0)); [intros q ->; left; reflexivity | apply process_file_frame].
      + apply (agree_weaken (fun q => In q rest)); [intros q Hq; right; exact Hq | apply IH].
  Qed.

  Lemma process_results_fs id : forall outs s,
    s_fs (rr_state (process_results id outs s)) = s_fs s /\ s_stores (rr_state (process_results id outs s)) = s_stores s.
  Proof.
    induction outs as [| o outs IH]; intros s; simpl; [split; reflexivity |].
    destruct o as [| c]; simpl; [split; reflexivity |]. destruct (IH (merge_ctx id c s)) as [H1 H2].
    rewrite H1, H2. split; reflexivity.
  Qed.

  Lemma apply_codemod_frame pre K s :
    agree_outside (fun q => In q (scope K)) (s_fs s) (s_fs (rr_state (apply_codemod pre K s)))
    /\ s_stores (rr_state (apply_codemod pre K s)) = s_stores s.
  Proof.
    unfold Run.apply_codemod.
    destruct (negb (cavail K)); [split; [apply agree_refl | reflexivity] |].
    destruct ((match cdet K with DSemgrep => true | _ => false end) && negb (is_nil pre) && negb (dhas str_eqb (cid K) pre));
      [split; [apply agree_refl | reflexivity] |].
    set (results := detect S R cfg K pre (s_fs s)).
    assert (Hmain : forall files, (forall q, In q files -> In q (scope K)) ->
       agree_outside (fun q => In q (scope K)) (s_fs s)
         (s_fs (rr_state (process_results (cid K) (fst (map_files K results (s_fs s) files))
            {| s_fs := snd (map_files K results (s_fs s) files); s_cs := s_cs s; s_fail := s_fail s; s_deps := s_deps s;
               s_unf := s_unf s; s_upd := s_upd s; s_stores := s_stores s |})))
       /\ s_stores (rr_state (process_results (cid K) (fst (map_files K results (s_fs s) files))
            {| s_fs := snd (map_files K results (s_fs s) files); s_cs := s_cs s; s_fail := s_fail s; s_deps := s_deps s;
               s_unf := s_unf s; s_upd := s_upd s; s_stores := s_stores s |})) = s_stores s).
    { intros files Hsub.
      destruct (process_results_fs (cid K) (fst (map_files K results (s_fs s) files))
                  {| s_fs := snd (map_files K results (s_fs s) files); s_cs := s_cs s; s_fail := s_fail s; s_deps := s_deps s;
                     s_unf := s_unf s; s_upd := s_upd s; s_stores := s_stores s |}) as [H1 H2].
      rewrite H1, H2. simpl. split; [| reflexivity].
      apply (agree_weaken (fun q => In q files)); [exact Hsub | apply map_files_frame]. }
    destruct results as [[| r0 rs] |] eqn:Er.
    - split; [apply agree_refl | reflexivity].
    - destruct (files_to_analyze K (Some (r0 :: rs))) as [| f fs'] eqn:Ef; [split; [apply agree_refl | reflexivity] |].
      apply Hmain. intros q Hq. apply (files_to_analyze_scope K (Some (r0 :: rs))). rewrite Ef. exact Hq.
    - destruct (files_to_analyze K None) as [| f fs'] eqn:Ef; [split; [apply agree_refl | reflexivity] |].
      apply Hmain. intros q Hq. apply (files_to_analyze_scope K None). rewrite Ef. exact Hq.
  Qed.

  Lemma try_stores_frame ds : forall stores fs,
    agree_outside (fun q => In q (map st_path stores)) fs (snd (fst (try_stores ds fs stores)))
    /\ map st_path (fst (fst (try_stores ds fs stores))) = map st_path stores.
  Proof.
    induction stores as [| st rest IH]; intros fs; simpl.
    - split; [apply agree_refl | reflexivity].
    - destruct (attempt W ds fs st) as [[[b' d] chs] |].
      + simpl. split; [| reflexivity].
        destruct (writer_guarded tb (st_kind st) && dry_run cfg); [apply agree_refl |].
        intros p Hp. apply lookup_fwrite_other. intros ->. apply Hp. left. reflexivity.
      + destruct (IH fs) as [H1 H2]. simpl. split.
        * apply (agree_weaken (fun q => In q (map st_path rest))); [intros q Hq; right; exact Hq | exact H1].
        * rewrite H2. reflexivity.
  Qed.

  Lemma process_dependencies_frame id s :
    agree_outside (fun q => In q (map st_path (s_stores s))) (s_fs s) (s_fs (process_dependencies id s))
    /\ map st_path (s_stores (process_dependencies id s)) = map st_path (s_stores s).
  Proof.
    unfold Run.process_dependencies. destruct (dgetl id (s_deps s)) as [| d0 ds]; [split; [apply agree_refl | reflexivity] |].
    destruct (s_stores s) as [| st rest] eqn:Es; [simpl; split; [apply agree_refl | reflexivity] |].
    destruct (try_stores_frame (d0 :: ds) (st :: rest) (s_fs s)) as [H1 H2].
    destruct (snd (try_stores (d0 :: ds) (s_fs s) (st :: rest))); simpl; split; assumption.
  Qed.

  (** Every path whose content a sequence of codemods changes is a source file in the scope of one of them, or the
      path of a dependency manifest. *)
  Lemma apply_codemods_frame pre : forall Ks s,
    agree_outside (fun q => (exists K, In K Ks /\ In q (scope K)) \/ In q (map st_path (s_stores s)))
                  (s_fs s) (s_fs (rr_state (apply_codemods pre Ks s))).
  Proof.
    induction Ks as [| K rest IH]; intros s; simpl; [apply agree_refl |].
    destruct (apply_codemod_frame pre K s) as [Hfs Hst].
    destruct (apply_codemod pre K s) as [s' | s'] eqn:Ea; simpl in *.
    - destruct (process_dependencies_frame (cid K) s') as [Hd1 Hd2].
      specialize (IH (process_dependencies (cid K) s')).
      apply (agree_trans _ (s_fs s) (s_fs s')).
      + apply (agree_weaken (fun q => In q (scope K))); [| exact Hfs].
        intros q Hq. left. exists K. split; [left; reflexivity | exact Hq].
      + apply (agree_trans _ (s_fs s') (s_fs (process_dependencies (cid K) s'))).
        * apply (agree_weaken (fun q => In q (map st_path (s_stores s')))); [| exact Hd1].
          intros q Hq. right. rewrite <- Hst. exact Hq.
        * apply (agree_weaken (fun q => (exists K0, In K0 rest /\ In q (scope K0)) \/
                                        In q (map st_path (s_stores (process_dependencies (cid K) s'))))); [| exact IH].
          intros q [[K0 [HK0 Hq]] | Hq].
          -- left. exists K0. split; [right; exact HK0 | exact Hq].
          -- right. rewrite Hd2, Hst in Hq. exact Hq.
    - apply (agree_weaken (fun q => In q (scope K))); [| exact Hfs].
      intros q Hq. left. exists K. split; [left; reflexivity | exact Hq].
  Qed.

  Theorem run_frame Ks fs stores p :
    lookup (final_fs (run Ks fs stores)) p <> lookup fs p ->
    (exists K, In K Ks /\ In p (scope K)) \/ (exists st, In st stores /\ st_path st = p).
  Proof.
    intros Hne.
    assert (Hdec : forall P : Prop, (~ ~ P -> P) -> (~ P -> False) -> P) by (intros P H1 H2; apply H1; exact H2).
    assert (Hfs : final_fs (run Ks fs stores) = s_fs (rr_state (run Ks fs stores))) by (destruct (run Ks fs stores); reflexivity).
    rewrite Hfs in Hne. unfold Run.run in Hne.
    destruct (all_files cfg) as [| a0 al]; [simpl in Hne; congruence |].
    pose proof (apply_codemods_frame (prefilter_of S cfg Ks fs) Ks (init_state fs stores)) as Hframe.
    simpl in Hframe.
    (* decide membership constructively: both disjuncts are decidable *)
    destruct (existsb (fun K => mem_str p (scope K)) Ks) eqn:E1.
    - left. apply existsb_exists in E1. destruct E1 as [K [HK Hm]]. exists K. split; [exact HK | apply mem_str_In; exact Hm].
    - destruct (mem_str p (map st_path stores)) eqn:E2.
      + right. apply mem_str_In in E2. apply in_map_iff in E2. destruct E2 as [st [Hp Hin]]. exists st. split; assumption.
      + exfalso. apply Hne. apply Hframe. intros [[K [HK Hq]] | Hq].
        * assert (existsb (fun K0 => mem_str p (scope K0)) Ks = true).
          { apply existsb_exists. exists K. split; [exact HK | apply mem_str_In; exact Hq]. }
          congruence.
        * apply mem_str_In in Hq. congruence.
  Qed.
End Frame.
