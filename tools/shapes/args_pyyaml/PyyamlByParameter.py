class HardenPyyamlCallMixin:
    def update_call(
        self: CodemodProtocol,
        original_node: cst.Call,
        updated_node: cst.Call,
        maybe_aliased_name: str | None = None,
    ) -> cst.Call:
        module_name = maybe_aliased_name or YAML_MODULE_NAME
        if not maybe_aliased_name:
            self.add_needed_import(YAML_MODULE_NAME)

        updated_node = cast(cst.Call, updated_node)  # satisfy the type checker
        safe_loader = self.parse_expression(f"{module_name}.SafeLoader")
        new_args = list(updated_node.args)
        # The loader is either given by keyword (anywhere) or as the second positional argument
        loader_idx = next(
            (
                idx
                for idx, arg in enumerate(new_args)
                if arg.keyword is not None and arg.keyword.value == "Loader"
            ),
            None,
        )
        if loader_idx is None and len(new_args) > 1:
            if all(arg.keyword is None and arg.star == "" for arg in new_args[:2]):
                loader_idx = 1
        if loader_idx is not None:
            # This is the case where the arg is present but a bad value
            new_args[loader_idx] = new_args[loader_idx].with_changes(value=safe_loader)
        else:
            # This is the case where the arg is not present
            # Note that this case is deprecated in PyYAML 5.1 since the default is unsafe
            new_args.append(
                cst.Arg(
                    keyword=cst.Name("Loader"),
                    value=safe_loader,
                    equal=cst.AssignEqual(
                        whitespace_before=cst.SimpleWhitespace(""),
                        whitespace_after=cst.SimpleWhitespace(""),
                    ),
                )
            )
        return self.update_arg_target(updated_node, new_args)
