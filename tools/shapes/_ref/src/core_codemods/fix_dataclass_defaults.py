import libcst as cst

from codemodder.codemods.base_visitor import UtilsMixin
from codemodder.codemods.utils_mixin import NameAndAncestorResolutionMixin
from core_codemods.api import Metadata, Reference, ReviewGuidance, SimpleCodemod


class FixDataclassDefaults(SimpleCodemod, NameAndAncestorResolutionMixin, UtilsMixin):
    metadata = Metadata(
        name="fix-dataclass-defaults",
        summary="Replace `dataclass` Mutable Default Values with Call to `field`",
        review_guidance=ReviewGuidance.MERGE_WITHOUT_REVIEW,
        references=[
            Reference(
                url="https://docs.python.org/3/library/dataclasses.html#mutable-default-values"
            )
        ],
    )
    change_description = (
        "Replace `dataclass` mutable default values with call to `field`"
    )

    def leave_AnnAssign(
        self, original_node: cst.Assign, updated_node: cst.Assign
    ) -> cst.CSTNode:
        if not self.filter_by_path_includes_or_excludes(
            self.node_position(original_node)
        ):
            return updated_node

        maybe_classdef = self.find_immediate_class_def(original_node)
        if not (
            self._has_dataclass_decorator(maybe_classdef) if maybe_classdef else False
        ):
            return updated_node

        match original_node.value:
            case cst.List(elements=[]) | cst.Dict(elements=[]) | cst.Tuple(elements=[]):
                return self.field_with_default_factory(original_node, updated_node)
            case (
                cst.List(elements=[_, *_])
                | cst.Dict(elements=[_, *_])
                | cst.Tuple(elements=[_, *_])
            ):
                return self.field_with_default_factory(
                    original_node, updated_node, empty=False
                )
            case cst.Call(func=cst.Name(value="set"), args=[]):
                return self.field_with_default_factory(original_node, updated_node)
            case cst.Call(func=cst.Name(value="set"), args=[_, *_]):
                return self.field_with_default_factory(
                    original_node, updated_node, empty=False
                )
        return updated_node

    def field_with_default_factory(
        self,
        original_node: cst.List | cst.Tuple | cst.Dict | cst.Call,
        updated_node: cst.List | cst.Tuple | cst.Dict | cst.Call,
        empty=True,
    ):
        self.add_needed_import("dataclasses", "field")
        self.report_change(original_node)
        value = original_node.value
        if empty:
            expr = (
                "field(default_factory=set)"
                if isinstance(value, cst.Call)
                else f"field(default_factory={type(value).__name__.lower()})"
            )
            return updated_node.with_changes(value=cst.parse_expression(expr))

        expr = f"field(default_factory=lambda: {self.code(value).strip()})"
        return updated_node.with_changes(value=cst.parse_expression(expr))

    def _has_dataclass_decorator(self, node: cst.ClassDef) -> bool:
        for decorator in node.decorators:
            if self.find_base_name(decorator.decorator) == "dataclasses.dataclass":
                return True
        return False
