"""C04 — --dry-run never touches the project and predicts the real run.

Implementation side: the real console entry point on generated projects; a recursive snapshot (names, types, bytes hash,
link targets, modes) of the target before/after every `--dry-run` invocation; the CodeTF of the dry run against the CodeTF
of a real run on a copy (normalised for elapsed/directory/commandLine).
Model side: coq/Model/Run.v evaluated (vm_compute) with the oracle values observed in the REAL run (what the transformer
did to each file, what the manifest writer did) and asked to predict the DRY run (file system and report rows)."""
from __future__ import annotations

import base64
import json
from pathlib import Path

from harness import core
from harness import run_common as rc

META = {
    "rule": "generated projects (2-4 python files with trigger snippets, a decoy symlink and sub-directories) x "
            "{libcst-only codemods, each dependency-adding codemod} x {requirements.txt, pyproject.toml, setup.py, setup.cfg, "
            "two manifests, no manifest} x option combinations (--max-workers, --path-include/--path-exclude, --verbose); "
            "every case = one dry run + one real run on a copy; non-trivial = the real run changes at least one file; "
            "distinct by (codemod, manifest kinds, options, project text)",
    "trusted": ["os.walk/os.readlink/hashlib snapshot of the target directory (core.snapshot)",
                "the CodeTF file is what the properties mean by 'the report'"],
    "assumptions": [
        "oracle: a transformer's outcome on a file depends on that file's text and findings only (observed in the real run, replayed in the dry run)",
        "oracle: each manifest writer's result is a function of the manifest's current text and the new requirement names",
        "not modelled: mtime/atime, files outside the target directory, OS write errors",
    ],
}

KF_MANIFEST = "kf_dry_manifest_also_rewritten"

OPTIONS = [[], [], ["--max-workers", "2"], ["--path-exclude", "lib/*"], ["--path-include", "a.py,src/**,setup.py"],
           ["--verbose"], ["--max-workers", "4", "--path-exclude", "e.py"]]


def tob(x):
    return x if isinstance(x, bytes) else x.encode("utf-8")


def decode_project(project):
    """replay/corpus projects: text files come back as str, anything that is not UTF-8 stays bytes"""
    out = {}
    for k, v in project.items():
        b = base64.b64decode(v)
        try:
            out[k] = b.decode("utf-8") if not b.startswith(b"\xef\xbb\xbf") else b
        except UnicodeDecodeError:
            out[k] = b
    return out


def corpus_cases():
    out = []
    d = core.VERIF / "corpus" / "C04"
    for f in sorted(d.glob("*.json")) if d.is_dir() else []:
        body = json.loads(f.read_text())
        if "project" not in body:
            continue            # witnesses of the in-process probes (pipeline / write-failure) are replayed by those probes
        out.append({"name": "corpus:" + f.stem, "files": decode_project(body["project"]),
                    "codemod": body["codemod"], "options": body.get("options", []), "manifests": body.get("manifests", [])})
    return out


def gen_cases(ctx, n):
    rng = ctx.rng
    dep_adders = sorted(rc.DEPS)
    manifest_choices = [["requirements.txt"], ["pyproject.toml"], ["setup.py"], ["setup.cfg"], [], ["setup.py", "requirements.txt"],
                        ["requirements.txt", "setup.cfg"]]
    cases = []
    for i in range(n):
        # every dependency-adding codemod x every manifest kind is visited round-robin; the rest is random
        if i % 2 == 0:
            k = dep_adders[(i // 2) % len(dep_adders)]
            manifests = manifest_choices[(i // 2) % len(manifest_choices)]
        else:
            k = rng.choice(rc.LIBCST_ONLY)
            manifests = rng.choice(manifest_choices)
        if ctx.quick() and rc.det_of(k) == "DSemgrep" and rng.random() < 0.5:
            k = rng.choice([x for x in dep_adders if rc.det_of(x) == "DNone"])
        others = [rng.choice(rc.LIBCST_ONLY)]
        files = rc.gen_project(rng, [k] + others, rng.choice([2, 3, 4]), manifests)
        if "setup.py" in manifests and rng.random() < 0.5:
            # a setup.py that the codemod itself rewrites (the manifest is a python source under the target)
            files["setup.py"] = rng.choice(rc.SNIPPETS[k][1]) + files["setup.py"]
        cases.append({"name": f"gen:{i}", "files": files, "codemod": k, "options": rng.choice(OPTIONS), "manifests": manifests})
    return cases


def shaped_cases(ctx):
    """Manifest shape families: every manifest kind x layout x shape transform (no final newline, trailing blank lines,
    whitespace-only last line, CRLF, comments, requirement already declared under another spelling), the shaped manifest
    being the only manifest of the project; quick tier: the structural shapes of every layout + a seeded sample of the rest."""
    rng = ctx.rng
    adders = [k for k in sorted(rc.DEPS) if rc.det_of(k) == "DNone"]          # cheap (no semgrep run)
    fam = rc.manifest_family()
    if ctx.quick() and not getattr(ctx, "deep", False):
        must = {"no_final_newline", "crlf", "other_spelling"}
        fam = [x for x in fam if x[2] in must or rng.random() < 0.06]
    cases = []
    for i, (kind, layout, shape) in enumerate(fam):
        ks = [adders[i % len(adders)]] if ctx.quick() else [adders[i % len(adders)], rc.P + "url-sandbox"]
        for k in ks:
            files = rc.gen_project(rng, [k], 2, [])
            files[kind] = rc.shape_manifest(kind, layout, shape, rc.DEPS[k])
            cases.append({"name": f"shape:{kind}:{layout}:{shape}", "files": files, "codemod": k, "options": [], "manifests": [kind],
                          "shape": (kind, layout, shape)})
    # encoding variants: every manifest kind x encoding (x one layout in the quick tier, every layout otherwise); the manifest is
    # bytes that are NOT plain UTF-8 (UTF-16 LE/BE with BOM as PowerShell's `pip freeze >` writes, UTF-8 with BOM, latin-1 with a
    # non-ASCII comment); the dry run must leave it byte-identical and predict the real run, whatever the writer makes of it
    j = 0
    for kind, layouts in rc.MANIFEST_LAYOUTS.items():
        names = sorted(layouts)
        chosen = [names[ctx.seed % len(names)]] if (ctx.quick() and not getattr(ctx, "deep", False)) else names
        for layout in chosen:
            for enc in rc.MANIFEST_ENCODINGS:
                k = adders[j % len(adders)]
                j += 1
                files = rc.gen_project(rng, [k], 2, [])
                files[kind] = rc.encode_manifest(kind, rc.MANIFEST_LAYOUTS[kind][layout], enc)
                cases.append({"name": f"encoding:{kind}:{layout}:{enc}", "files": files, "codemod": k, "options": [], "manifests": [kind],
                              "shape": (kind, layout, "encoding=" + enc)})
    return cases


def materialise(R, case):
    a = R.fresh_dir("dry")
    core.write_tree(a, case["files"])
    (a / "docs").mkdir(exist_ok=True)
    (a / "docs" / "notes.txt").write_text("not python\n")
    core.write_tree(a, {"link_to_a.py": ("link", "a.py")})
    b = R.fresh_dir("real")
    b.rmdir()
    rc.copy_tree(a, b)
    return a, b


def norm_report(rep, root):
    """core.normalise_report + failedFiles relative to the target (they are reported as absolute paths, and the real run works on a copy)"""
    rep = core.normalise_report(rep)
    for res in rep.get("results", []):
        res["failedFiles"] = [str(Path(p).relative_to(root)) if Path(p).is_relative_to(root) else p for p in res.get("failedFiles", [])]
    return rep


def classify_report_diff(dry_rows, real_rows, manifests):
    for rows in (dry_rows, real_rows):
        for r in rows:
            for m in manifests:
                if r["changed"].count(m) >= 2:
                    return KF_MANIFEST
    return "kf_dry_report_differs"


def evaluate(ctx, R, case, a, b, before, dry, real):
    k = case["codemod"]
    after = core.snapshot(a)
    replay = {"project": core.b64tree(case["files"]), "codemod": k, "options": case["options"], "manifests": case["manifests"],
              "shape": case.get("shape")}
    ctx.count("codemod:" + k.split("/")[-1])
    ctx.count("manifests:" + ("+".join(case["manifests"]) or "none"))
    ctx.count("options:" + (" ".join(case["options"]) or "none"))
    if case.get("shape"):
        ctx.count("manifest_layout:" + case["shape"][0] + ":" + case["shape"][1])
        ctx.count("manifest_shape:" + case["shape"][2])
    if dry["rc"] != 0 or real["rc"] != 0 or not isinstance(dry["report"], dict) or not isinstance(real["report"], dict):
        ctx.violation("kf_run_failed", f"{case['name']}: dry rc={dry['rc']} real rc={real['rc']} (expected 0 and a report): {dry['stderr'][-300:]}",
                      {**replay, "observed": {"dry_rc": dry["rc"], "real_rc": real["rc"]}})
        return None
    # SPEC 1: the tree is untouched
    if after != before:
        changed = sorted(set(p for p in set(before) | set(after) if before.get(p) != after.get(p)))
        ctx.violation("kf_dry_run_writes", f"{case['name']}: --dry-run with {k} changed {changed}",
                      {**replay, "observed": {"changed_paths": changed}, "expected": "snapshot(before) == snapshot(after)"})
    # SPEC 2: report(dry) == report(real) modulo timing/paths
    nd, nr = norm_report(dry["report"], a), norm_report(real["report"], b)
    dry_rows, real_rows = rc.rows_of_report(dry["report"], a), rc.rows_of_report(real["report"], b)
    if nd != nr:
        cls = classify_report_diff(dry_rows, real_rows, case["manifests"])
        what = next((f"{x['changed']} diffs differ" for x, y in zip(dry_rows, real_rows) if x != y), "reports differ")
        ctx.violation(cls, f"{case['name']}: report(--dry-run) != report(real run) for {k}: {what}",
                      {**replay, "observed": {"dry": dry_rows, "real": real_rows}, "expected": "identical reports modulo elapsed/directory"})
    # MODEL: oracle values from the REAL run, prediction of the DRY run
    A = rc.Abstr()
    real_tree = core.read_tree(b)
    files = rc.py_files(case["files"])
    selected = set(real_rows[0]["changed"]) | set(dry_rows[0]["changed"]) if real_rows else set()
    # files excluded by options never reach the codemod: keep only the files the run could select
    # comma-separated lists (cli.CsvListAction); a repeated option replaces the earlier value
    inc = [p for i, o in enumerate(case["options"]) if o == "--path-include" for p in case["options"][i + 1].split(",")]
    exc = [p for i, o in enumerate(case["options"]) if o == "--path-exclude" for p in case["options"][i + 1].split(",")]
    import fnmatch
    sel = [f for f in files if (not inc or any(fnmatch.fnmatch(f, p) for p in inc)) and not any(fnmatch.fnmatch(f, p) for p in exc)]
    dep = rc.DEPS.get(k)
    # a manifest "received the dependency" iff the requirement's name appears in it after the real run and did not before
    # (a setup.py may also change as a plain source file)
    def occurrences(text):
        return text.lower().count(dep.lower()) if dep else 0
    manifest_changed = [m for m in case["manifests"]
                        if real_tree.get(m) != tob(case["files"][m])
                        and (not m.endswith(".py") or occurrences(real_tree.get(m, b"").decode(errors="replace"))
                             > occurrences(tob(case["files"][m]).decode(errors="replace")))]
    depid = [A.content("dep:" + dep)] if (dep and manifest_changed) else []
    T = []
    stores_paths = set(case["manifests"])
    for f in sel:
        # a setup.py that is both rewritten and given the dependency: its transformer output is the text of the source change
        # set alone, which the real tree no longer shows; the model is then fed from the dry report's row only (see below)
        if f in manifest_changed:
            continue
        if real_tree.get(f) != tob(case["files"][f]):
            T.append((A.content(case["files"][f]), A.content(real_tree[f]), depid))
    overlap = [m for m in manifest_changed if m in sel and any(m == p for r in real_rows for p in r["changed"][:-1])]
    if overlap:
        ctx.count("manifest_also_rewritten")
        return ("skip-model", bool(T))
    stores = [(rc.SKIND[m], A.path(m), []) for m in rc.STORE_ORDER if m in case["manifests"]]
    W = [(A.content(case["files"][m]), depid, A.content(real_tree[m])) for m in manifest_changed]
    hx_fs = [(A.path(p), A.content(c)) for p, c in case["files"].items()]
    ob_fs = [(A.path(p), A.content(c)) for p, c in core.read_tree(a).items() if p in case["files"]]
    ob_rows = [(A.codemod(r["codemod"]), [A.path(p) for p in r["changed"]], [A.path(p) for p in r["failed"]], [A.path(p) for p in rc.unfixed_paths(r)]) for r in dry_rows]
    # oracle: which selected sources the pipeline cannot read (UTF-8 decode + libcst parse), e.g. a setup.py stored as UTF-16
    import libcst
    hx_bad = []
    for f in sel:
        try:
            libcst.parse_module(tob(case["files"][f]).decode("utf-8"))
        except Exception:
            hx_bad.append(A.content(case["files"][f]))
    term = rc.c_hcase(True, [A.path(f) for f in sel], hx_fs, hx_bad, [rc.c_hcodemod(A, k, "DNone", T)], stores, W, dry["rc"], ob_fs, ob_rows)
    return (term, bool(T) or bool(W))


PIPELINE_PROBE = r'''
import json, shutil, sys
from pathlib import Path
from codemodder.codemods.api import Metadata, ReviewGuidance
from codemodder.codemods.base_codemod import FindAndFixCodemod
from codemodder.codemods.regex_transformer import RegexTransformerPipeline
from codemodder.codemods.xml_transformer import XMLTransformerPipeline, ElementAttributeXMLTransformer, NewElementXMLTransformer, NewElement
from codemodder.context import CodemodExecutionContext
from codemodder.project_analysis.python_repo_manager import PythonRepoManager
from codemodder.registry import load_registered_codemods
from codemodder.providers import load_providers

class Plugin(FindAndFixCodemod):
    @property
    def origin(self): return "verif"
    @property
    def docs_module_path(self): return "core_codemods.docs"

class Attr(ElementAttributeXMLTransformer):
    change_description = "harden"
    def __init__(self, out, file_context, results=None, **kw):
        super().__init__(out, file_context, name_attributes_map={"httpCookies": {"requireSSL": "true"}, "a": {"x": "1"}}, results=results)
class NewEl(NewElementXMLTransformer):
    change_description = "add"
    def __init__(self, out, file_context, results=None, **kw):
        super().__init__(out, file_context, results=results, new_elements=[NewElement(name="added", parent_name="configuration", content="v")])

FILES = json.loads(sys.argv[2])
PIPES = {
    "regex": (lambda: RegexTransformerPipeline(pattern="hello", replacement="goodbye", change_description="x"), ".txt"),
    "xml_attr": (lambda: XMLTransformerPipeline(Attr), ".xml"),
    "xml_new_element": (lambda: XMLTransformerPipeline(NewEl), ".xml"),
}
def snap(root):
    return {str(p.relative_to(root)): p.read_bytes().decode("latin-1") for p in sorted(root.rglob("*")) if p.is_file()}
def go(root, dry, pipe, ext, workers):
    cm = Plugin(metadata=Metadata(name="probe", summary="s", review_guidance=ReviewGuidance.MERGE_WITHOUT_REVIEW, description="d"),
                transformer=pipe(), default_extensions=[ext])
    ctx = CodemodExecutionContext(root, dry, False, load_registered_codemods(), load_providers(), PythonRepoManager(root), ["*" + ext], [], {}, workers)
    err = None
    try:
        cm.apply(ctx)
    except Exception as e:
        err = type(e).__name__
    return {"raised": err, "failed": sorted(str(Path(p).relative_to(root)) for p in ctx.get_failures(cm.id)),
            "changesets": [[c.path, c.diff, [[x.lineNumber, x.description] for x in c.changes]] for c in ctx.get_changesets(cm.id)]}
out = {}
base = Path(sys.argv[1])
for name, (pipe, ext) in PIPES.items():
    res = {}
    for mode in ("dry", "real"):
        root = base / (name + "_" + mode)
        root.mkdir(parents=True)
        for rel, text in FILES.items():
            if rel.endswith(ext):
                (root / rel).parent.mkdir(parents=True, exist_ok=True)
                (root / rel).write_bytes(text.encode("latin-1"))
        before = snap(root)
        r = go(root, mode == "dry", pipe, ext, 2)
        after = snap(root)
        r["touched"] = sorted(p for p in set(before) | set(after) if before.get(p) != after.get(p))
        r["before"], r["after"] = before, after
        res[mode] = r
    out[name] = res
print(json.dumps(out))
'''


def probe_files(rng):
    """generated inputs of the plugin-pipeline probes: text files with/without the regex target, XML documents with/without the
    elements the transformers change (nested, with attributes, comments, several per file), a malformed document"""
    words = ["hello world", "nothing here", "say hello twice hello", "HELLO upper", ""]
    files = {}
    for i in range(rng.choice([3, 4])):
        files[f"t{i}.txt"] = "".join(rng.choice(words) + "\n" for _ in range(rng.choice([1, 2, 4])))
    files["sub/deep.txt"] = "hello from below\n"
    cookies = ['<httpCookies requireSSL="false" httpOnlyCookies="true"/>', '<httpCookies/>', '<other k="v"/>', '<a>text</a>', '<!-- note -->']
    for i in range(rng.choice([2, 3])):
        body = "".join("    " + rng.choice(cookies) + "\n" for _ in range(rng.choice([1, 2, 3])))
        files[f"conf/web{i}.xml"] = '<?xml version="1.0" encoding="utf-8"?>\n<configuration>\n  <system.web>\n' + body + "  </system.web>\n</configuration>\n"
    files["conf/unrelated.xml"] = "<root><leaf/></root>\n"
    files["conf/broken.xml"] = "<configuration><open></configuration>\n"
    return files


def pipeline_dry_probe(ctx, files):
    import subprocess
    d = ctx.scratch / f"pipe_probe_{len(list(ctx.scratch.glob('pipe_probe_*')))}"
    d.mkdir()
    p = subprocess.run([core.PY, "-c", PIPELINE_PROBE, str(d), json.dumps(files)], env=core.cli_env(), stdout=subprocess.PIPE,
                       stderr=subprocess.PIPE, timeout=600)
    line = [l for l in p.stdout.decode().splitlines() if l.startswith("{")]
    if not line:
        raise RuntimeError("pipeline probe failed: " + p.stderr.decode()[-800:])
    return json.loads(line[-1])


def check_pipeline_probes(ctx, files, tag):
    """C04 on the regex and XML pipelines (public API, used by plugin codemods only): real classes through BaseCodemod.apply with
    dry_run=True on a scratch directory, and the same with dry_run=False on a copy."""
    out = pipeline_dry_probe(ctx, files)
    for name, r in out.items():
        ctx.count("pipeline_probe:" + name)
        changed = bool(r["real"]["changesets"])
        ctx.case({"pipeline": name, "files": sorted(files), "real_changesets": [c[0] for c in r["real"]["changesets"]]},
                 nontrivial_key=(name, json.dumps(files, sort_keys=True)) if changed else None)
        replay = {"pipeline_probe": name, "probe_files": files, "observed": r}
        if r["dry"]["touched"]:
            ctx.violation("kf_dry_run_writes", f"{tag}: {name} pipeline with dry_run=True modified {r['dry']['touched']}",
                          {**replay, "expected": "no path of the target directory differs after a dry run"})
        if (r["dry"]["changesets"], r["dry"]["failed"], r["dry"]["raised"]) != (r["real"]["changesets"], r["real"]["failed"], r["real"]["raised"]):
            ctx.violation("kf_dry_report_differs", f"{tag}: {name} pipeline: change sets / failures of the dry run differ from the real run: "
                          f"{[c[0] for c in r['dry']['changesets']]} vs {[c[0] for c in r['real']['changesets']]}",
                          {**replay, "expected": "identical change sets and failures"})
    # MODEL vs implementation on the regex / XML branches of pipeline_apply: oracle values from the real run, prediction of the dry run
    terms, names = [], []
    for name, r in out.items():
        pipe = "PRegex" if name == "regex" else "PXml"
        real, dry = r["real"], r["dry"]
        if real["raised"]:
            continue
        observed = {"changed": [c[0] for c in dry["changesets"]], "failed": dry["failed"], "raised": dry["raised"], "tree": dry["after"]}
        terms.append(rc.probe_hcase(pipe, real["before"], real["after"], real["failed"], observed, True))
        names.append(name)
    if terms:
        bad = core.eval_bad_indices(ctx, f"c04_probe_{abs(hash(tag)) % 10000}", rc.IMPORTS, "hcase", terms, ["run_model_ok", "dry_spec_ok"])
        for i in bad["run_model_ok"]:
            ctx.mismatch(f"{names[i]} pipeline (real classes, dry run) vs Model.Run.run at {('PRegex' if names[i] == 'regex' else 'PXml')}",
                         f"{tag}: the model does not predict the dry run of the {names[i]} pipeline", {"pipeline_probe": names[i], "probe_files": files, "case_term": terms[i]})
        for i in bad["dry_spec_ok"]:
            ctx.violation("kf_dry_run_writes", f"{tag}: {names[i]} pipeline: a path's content changed under dry_run=True",
                          {"pipeline_probe": names[i], "probe_files": files})
    return out


WRITE_FAILURE_PROBE = r"""
import builtins, errno, json, sys
from pathlib import Path
from codemodder.dependency import Security
from codemodder.dependency_management.requirements_txt_writer import RequirementsTxtWriter
from codemodder.dependency_management.setupcfg_writer import SetupCfgWriter
from codemodder.project_analysis.file_parsers.package_store import PackageStore, FileType
root = Path(sys.argv[1]).resolve()
real_open = builtins.open
class Failing:
    def __init__(self, f): self.f = f
    def __enter__(self): return self
    def __exit__(self, *a): self.f.close(); return False
    def writelines(self, l): raise OSError(errno.ENOSPC, "No space left on device")
    def write(self, s): raise OSError(errno.ENOSPC, "No space left on device")
def patched(path, mode="r", *a, **k):
    f = real_open(path, mode, *a, **k)
    if "w" in mode and str(path).startswith(str(root)):
        return Failing(f)
    return f
out = {}
for kind, name, cls, ft, text in [("SReqTxt", "requirements.txt", RequirementsTxtWriter, FileType.REQ_TXT, "requests\nclick\n"),
                                  ("SSetupCfg", "setup.cfg", SetupCfgWriter, FileType.SETUP_CFG, "[options]\ninstall_requires =\n    requests\n    click\n")]:
    p = root / name
    p.write_text(text)
    dry = cls(PackageStore(type=ft, file=p, dependencies=set(), py_versions=[]), root).write([Security], dry_run=True)
    intact = p.read_text() == text
    builtins.open = patched
    try:
        try:
            real = cls(PackageStore(type=ft, file=p, dependencies=set(), py_versions=[]), root).write([Security], dry_run=False)
            raised = None
        except Exception as e:
            real, raised = None, type(e).__name__
    finally:
        builtins.open = real_open
    out[kind] = {"dry_changeset": dry is not None, "dry_intact": intact, "real_changeset": real is not None, "raised": raised,
                 "after": p.read_text(), "before": text}
print(json.dumps(out))
"""


def write_failure_probe(ctx):
    """OS write error (ENOSPC injected into open(..., "w") under a scratch directory) in the two writers that swallow it, real classes"""
    import subprocess
    d = ctx.scratch / "write_failure"
    d.mkdir()
    p = subprocess.run([core.PY, "-c", WRITE_FAILURE_PROBE, str(d)], env=core.cli_env(), stdout=subprocess.PIPE, stderr=subprocess.PIPE, timeout=300)
    line = [l for l in p.stdout.decode().splitlines() if l.startswith("{")]
    if not line:
        raise RuntimeError("write-failure probe failed: " + p.stderr.decode()[-800:])
    return json.loads(line[-1])


def check_write_failure(ctx):
    tv = ctx.tables or {}
    catches = dict((k, b) for k, b in (tv.get("writer_catch_table") or []))
    out = write_failure_probe(ctx)
    ctx.count("write_failure_probe")
    ctx.notes.append(f"write-failure probe (real writer classes, injected ENOSPC): {out}")
    for kind, r in out.items():
        ctx.case({"write_failure": kind, "observed": r}, nontrivial_key=("write_failure", kind))
        # MODEL (try_stores_os with the table): a catching writer returns None and leaves the manifest empty; otherwise the error escapes
        model = {"real_changeset": False, "after": "", "raised": None} if catches.get(kind) else None
        if model is not None and (r["real_changeset"], r["after"], r["raised"]) != (model["real_changeset"], model["after"], model["raised"]):
            ctx.mismatch(f"{kind} writer under a write error vs Model.Run.try_stores_os", f"observed {r}, the model (writer_catch_table={catches}) says {model}",
                         {"write_failure_probe": kind, "observed": r})
        if model is None and not r["raised"]:
            ctx.mismatch(f"{kind} writer under a write error vs writer_catch_table", f"the table says the error escapes but {r}", {"write_failure_probe": kind})
        # SPEC: the dry run predicts the real run, and no file changes without a change set
        if r["dry_changeset"] != r["real_changeset"] or (not r["real_changeset"] and r["after"] != r["before"]):
            ctx.violation("kf_manifest_truncated_on_write_error",
                          f"{kind}: with a write error the real run returns {'a change set' if r['real_changeset'] else 'no change set'} and leaves the manifest as "
                          f"{r['after']!r} (was {r['before']!r}); the dry run {'promises' if r['dry_changeset'] else 'does not promise'} the change set",
                          {"write_failure_probe": kind, "observed": r, "theorem": "C04_write_failure_refuted",
                           "expected": "manifest unchanged when no change set is reported; report(dry) == report(real)"})


def run(ctx: core.Ctx):
    R = rc.Runner(ctx)
    n = 8 if ctx.quick() else 200
    if getattr(ctx, "deep", False):
        n *= 2
    cases = corpus_cases() + gen_cases(ctx, n) + shaped_cases(ctx)
    prepared = []
    for c in cases:
        a, b = materialise(R, c)
        prepared.append((c, a, b, core.snapshot(a)))
    jobs = []
    for c, a, b, _ in prepared:
        jobs.append(lambda c=c, a=a: R.run(a, [c["codemod"]], ["--dry-run", *c["options"]]))
        jobs.append(lambda c=c, b=b: R.run(b, [c["codemod"]], c["options"]))
    res = rc.parallel(jobs)
    terms, meta = [], []
    for i, (c, a, b, before) in enumerate(prepared):
        dry, real = res[2 * i], res[2 * i + 1]
        out = evaluate(ctx, R, c, a, b, before, dry, real)
        nontrivial = None
        if out is not None:
            term, nt = out
            nontrivial = (c["codemod"], tuple(c["manifests"]), tuple(c["options"]), json.dumps(core.b64tree(c["files"]), sort_keys=True)) if nt else None
            if term != "skip-model":
                terms.append(term)
                meta.append(c)
        ctx.case({"case": c["name"], "codemod": c["codemod"], "manifests": c["manifests"], "options": c["options"],
                  "files": sorted(c["files"])}, nontrivial_key=nontrivial, sample=nontrivial is not None)
    if terms:
        bad = core.eval_bad_indices(ctx, "c04_run", rc.IMPORTS, "hcase", terms, ["run_model_ok", "dry_spec_ok"], chunk=60)
        for i in bad["run_model_ok"]:
            c = meta[i]
            ctx.mismatch("real --dry-run vs Model.Run.run (oracle values taken from the real run)",
                         f"{c['name']}: the model does not predict the dry run of {c['codemod']}",
                         {"project": core.b64tree(c["files"]), "codemod": c["codemod"], "options": c["options"], "manifests": c["manifests"],
                          "case_term": terms[i]})
        for i in bad["dry_spec_ok"]:
            c = meta[i]
            ctx.violation("kf_dry_run_writes", f"{c['name']}: a path's content changed under --dry-run ({c['codemod']})",
                          {"project": core.b64tree(c["files"]), "codemod": c["codemod"], "options": c["options"], "manifests": c["manifests"]})
    for i in range(2 if ctx.quick() else 12):
        check_pipeline_probes(ctx, probe_files(ctx.rng), f"probe:{i}")
    check_write_failure(ctx)
    rc.audit_lifts(ctx)
    # active branch of the table-indexed statement
    tv = ctx.tables or {}
    guards_ok = all("IfNotDryWrite" in (tv.get(k) or []) for k in ("libcst_apply_guards", "regex_apply_guards", "xml_apply_guards")) \
        and all(b for _, b in (tv.get("writer_dry_guards") or [[None, False]]))
    if not guards_ok:
        ctx.notes.append("C04_dry_report_refuted_manifest reduces to True on these tables (its witness needs the dry-run guards): it proves nothing here")
        ctx.notes.append("C04_dry_run_fs is on its NEGATIVE branch for the current source (a write is not under `if not dry_run`): "
                         f"tables = { {k: tv.get(k) for k in ('libcst_apply_guards', 'regex_apply_guards', 'xml_apply_guards', 'writer_dry_guards')} }")
        if not any(v["class"] == "kf_dry_run_writes" for v in ctx.violations):
            ctx.tie_broken.append("theorem C04_dry_run_fs: negative branch active (an unguarded write in the source) and no generated project exercised it")
    else:
        ctx.notes.append("C04_dry_run_fs: positive branch active (every pipeline and every manifest writer writes under `if not dry_run`)")


def replay(ctx, body):
    if "write_failure_probe" in body:
        out = write_failure_probe(ctx)
        print("write-failure probe now:", out[body["write_failure_probe"]])
        print("recorded:", body.get("observed"))
        return 0
    if "pipeline_probe" in body:
        out = check_pipeline_probes(ctx, body["probe_files"], "replay")
        r = out[body["pipeline_probe"]]
        print("dry run touched:", r["dry"]["touched"], "| dry change sets:", [c[0] for c in r["dry"]["changesets"]],
              "| real change sets:", [c[0] for c in r["real"]["changesets"]])
        for v in ctx.violations:
            print(" -", v["class"], v["what"][:300])
        return 0 if not ctx.violations else 1
    R = rc.Runner(ctx)
    files = decode_project(body["project"])
    c = {"name": "replay", "files": files, "codemod": body["codemod"], "options": body.get("options", []), "manifests": body.get("manifests", [])}
    a, b = materialise(R, c)
    before = core.snapshot(a)
    dry = R.run(a, [c["codemod"]], ["--dry-run", *c["options"]])
    real = R.run(b, [c["codemod"]], c["options"])
    after = core.snapshot(a)
    print("tree untouched by --dry-run:", before == after)
    if isinstance(dry["report"], dict) and isinstance(real["report"], dict):
        same = norm_report(dry["report"], a) == norm_report(real["report"], b)
        print("report(dry) == report(real):", same)
        if not same:
            for x, y in zip(rc.rows_of_report(dry["report"], a), rc.rows_of_report(real["report"], b)):
                for p, d1, d2 in zip(x["changed"], x["diffs"], y["diffs"]):
                    if d1 != d2:
                        print("--- dry diff of", p)
                        print(d1)
                        print("--- real diff of", p)
                        print(d2)
        return 0 if (same and before == after) else 1
    print("rc:", dry["rc"], real["rc"])
    return 1
