from functools import cached_property
from pathlib import Path
from typing import Optional

from codemodder.project_analysis.file_parsers import (
    PyprojectTomlParser,
    RequirementsTxtParser,
    SetupCfgParser,
    SetupPyParser,
)
from codemodder.project_analysis.file_parsers.package_store import PackageStore


class PythonRepoManager:
    def __init__(self, parent_directory: Path):
        self.parent_directory = parent_directory
        self._potential_stores = [
            PyprojectTomlParser,
            SetupPyParser,
            RequirementsTxtParser,
            SetupCfgParser,
        ]

    @cached_property
    def dependencies_store(self) -> Optional[PackageStore]:
        """The location where to write new dependencies for project.
        For now just pick the first store found with order given by _potential_stores.
        """
        if self.package_stores:
            return self.package_stores[0]
        return None

    @cached_property
    def package_stores(self) -> list[PackageStore]:
        return self._parse_all_stores()

    def parse_project(self) -> list[PackageStore]:
        """Wrapper around cached-property for clarity when calling it the first time."""
        return self.package_stores

    def _parse_all_stores(self) -> list[PackageStore]:
        discovered_pkg_stores: list[PackageStore] = []
        for store in self._potential_stores:
            discovered_pkg_stores.extend(
                store(self.parent_directory).parse()  # type: ignore
            )
        return discovered_pkg_stores
