class SecureRandomTransformer:
    def on_result_found(self, original_node, updated_node):
        self.remove_unused_import(original_node)
        self.add_needed_import("secrets")

        if self.find_base_name(original_node.func) == "random.choice":
            return self.update_call_target(updated_node, "secrets")
        return self.update_call_target(updated_node, "secrets.SystemRandom()")

