def update_code(file_path, new_code):
    """
    Write the `new_code` to the `file_path`
    """
    file_path.write_bytes(new_code.encode("utf-8"))


class LibcstTransformerPipeline:
    def apply(
        self,
        context: CodemodExecutionContext,
        file_context: FileContext,
        results: list[Result] | None,
    ) -> ChangeSet | None:
        file_path = file_context.file_path

        try:
            with file_context.timer.measure("parse"):
                source_text = file_path.read_bytes().decode("utf-8")
                source_tree = cst.parse_module(source_text)
        except Exception:
            file_context.add_failure(file_path, reason := "Failed to parse file")
            logger.exception("%s %s", reason, file_path)
            return None

        tree = source_tree
        try:
            with file_context.timer.measure("transform"):
                for transformer in self.transformers:
                    tree = transformer.transform(tree, results, file_context)
        except Exception:
            file_context.add_failure(file_path, reason := "Failed to transform file")
            logger.exception("%s %s", reason, file_path)
            return None

        if not file_context.codemod_changes:
            logger.debug("No changes produced for %s", file_path)
            return None

        if not (
            diff := create_diff(
                source_text.splitlines(keepends=True),
                tree.code.splitlines(keepends=True),
            )
        ):
            logger.debug("No code diff produced for %s", file_path)
            return None

        change_set = ChangeSet(
            path=str(file_context.file_path.relative_to(context.directory)),
            diff=diff,
            changes=file_context.codemod_changes,
        )

        if not context.dry_run:
            with file_context.timer.measure("write"):
                update_code(file_context.file_path, tree.code)

        return change_set
