(** Table types of the regex / XML pipelines (tools/fragments_pipes.py emits values of these types). *)
From CM Require Export Base.Str.

(** regex_transformer.py: the argument of [file_context.get_findings_for_location(...)] in [_apply]. *)
Inductive index_form :=
| ZeroBased   (* get_findings_for_location(lineno)      -- the enumerate() index (pinned tree 245fc22) *)
| OneBased.   (* get_findings_for_location(lineno + 1)  -- the line number of the change (fix c5fc52c) *)

(** regex_transformer.py: RegexTransformerPipeline.apply (inherited by the SAST class). *)
Inductive regex_isolation :=
| NoTry              (* read/decode and self._apply(...) called bare: an exception escapes apply() (pinned tree 245fc22) *)
| TryReadTransform.  (* each in try/except Exception: add_failure(path, reason); return None (fix 49f7472) *)

(** xml_transformer.py: XMLTransformerPipeline.apply
    - returns None (and writes nothing) when create_diff is empty (fix 927c1e3), or builds the ChangeSet whatever the diff;
    - re-reads the original as UTF-8 bare (UnicodeDecodeError escapes) or inside try/except: add_failure + None (fix c634845). *)
Inductive xml_diff_guard :=
| NoDiffGuard          (* pinned tree: no `if not diff`, bare re-read *)
| DiffGuard            (* 927c1e3 only *)
| DiffGuardRereadTry.  (* 927c1e3 + c634845 *)

(** Shape of a fragment the model has exactly one reading of. *)
Inductive as_written := AsWritten.
