From CM Require Import Base.Dict.

Section DictFacts.
  Context {K V : Type} (keqb : K -> K -> bool).
  Hypothesis keqb_spec : forall a b, reflect (a = b) (keqb a b).

  Lemma keqb_refl k : keqb k k = true.
  Proof. destruct (keqb_spec k k); congruence. Qed.

  Lemma dget_dset_same k (v : V) d : dget keqb k (dset keqb k v d) = Some v.
  Proof.
    induction d as [|[k' v'] r IH]; simpl.
    - now rewrite keqb_refl.
    - destruct (keqb k k') eqn:E; simpl.
      + now rewrite keqb_refl.
      + now rewrite E.
  Qed.

  Lemma dget_dset_other k k' (v : V) d : k <> k' -> dget keqb k (dset keqb k' v d) = dget keqb k d.
  Proof.
    intros Hne. induction d as [|[k2 v2] r IH]; simpl.
    - destruct (keqb_spec k k'); congruence.
    - destruct (keqb_spec k' k2) as [->|Hne2]; simpl.
      + destruct (keqb_spec k k2); congruence.
      + destruct (keqb_spec k k2); congruence.
  Qed.

  Lemma dget_dupdate k (d o : dict K V) :
    dget keqb k (dupdate keqb d o) =
    match dget keqb k (rev o) with Some v => Some v | None => dget keqb k d end.
  Proof.
    revert d. induction o as [|[k' v'] o IH]; intros d; simpl; [reflexivity|].
    rewrite IH. clear IH.
    assert (Happ : forall l, dget keqb k (l ++ [(k', v')]) =
                         match dget keqb k l with Some x => Some x | None => if keqb k k' then Some v' else None end).
    { induction l as [|[a b] l IHl]; simpl; [reflexivity|]. destruct (keqb k a); auto. }
    rewrite Happ. destruct (dget keqb k (rev o)); [reflexivity|].
    destruct (keqb_spec k k') as [->|Hne].
    - apply dget_dset_same.
    - now apply dget_dset_other.
  Qed.

  Lemma dget_rev_some_iff k (o : dict K V) :
    dget keqb k (rev o) = None <-> dget keqb k o = None.
  Proof.
    assert (Hnone : forall l : dict K V, dget keqb k l = None <-> forall v, ~ In (k, v) l).
    { induction l as [|[a b] l IHl]; simpl.
      - split; auto.
      - destruct (keqb_spec k a) as [->|Hne].
        + split; [discriminate|]. intros H. exfalso. apply (H b). now left.
        + rewrite IHl. split.
          * intros H v [Heq|Hin]; [congruence|]. now apply (H v).
          * intros H v Hin. apply (H v). now right. }
    rewrite !Hnone. split; intros H v Hin; apply (H v).
    - apply (proj1 (in_rev o (k, v))). exact Hin.
    - apply (proj2 (in_rev o (k, v))). exact Hin.
  Qed.

  Lemma dhas_dupdate k (d o : dict K V) :
    dhas keqb k (dupdate keqb d o) = dhas keqb k d || dhas keqb k o.
  Proof.
    unfold dhas. rewrite dget_dupdate.
    destruct (dget keqb k (rev o)) eqn:E.
    - destruct (dget keqb k o) eqn:E2.
      + now rewrite orb_true_r.
      + apply (proj2 (dget_rev_some_iff k o)) in E2. congruence.
    - apply (proj1 (dget_rev_some_iff k o)) in E. rewrite E. now rewrite orb_false_r.
  Qed.

  Lemma dget_dmapk k (f : K -> V) (d : dict K V) :
    dget keqb k (dmapk f d) = if dhas keqb k d then Some (f k) else None.
  Proof.
    unfold dhas. induction d as [|[a b] r IH]; simpl; [reflexivity|].
    destruct (keqb_spec k a) as [->|Hne]; [reflexivity|]. exact IH.
  Qed.
End DictFacts.
