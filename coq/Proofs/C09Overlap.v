(** C09: H_prefilter_stable derived from a per-ordered-pair, decidable condition.
    [stale] is the rule-overlap table: ordered pairs (id of K1, id of K2) for which a rewrite made by K1 may create a match of
    the semgrep rule of K2 (measured by the harness: K2's rule run on K1's outputs; one pair on the real codemod set).
    [no_stale_pair stale Ks] is decidable and looks at the ORDERED pairs of the sequence only.  For every pair outside the
    table the semantic contract is [create_free]: K1's transformer never turns a file without a match of K2's rule into one
    with a match.  Under it (and: the detector's directory scan targets what the start-up scan targets; manifests are outside
    that scope; the pipelines return early without a reported change) the stale prefilter is harmless:
    [prefilter_stable_from_overlap], hence [batch_eq_chain_overlap]. *)
From CM Require Import Base.Dict Model.Run Spec.RunSpec Proofs.DictFacts Proofs.RunFacts Proofs.RunSteps Proofs.C10Facts Proofs.C09Facts Proofs.RunLift.

Section Overlap.
  Variable S : codemod -> path -> bytes -> list finding.
  Definition hitb (K : codemod) (fs : fsys) (p : path) : bool := negb (is_nil (findings_at S K fs p)).
  Definition is_semgrep (K : codemod) : bool := match cdet K with DSemgrep => true | _ => false end.

  Lemma scan_fst K fs F : map fst (semgrep_scan S K fs F) = List.filter (hitb K fs) F.
  Proof.
    unfold semgrep_scan, hitb. induction F as [|p r IH]; [reflexivity|]. cbn [flat_map List.filter]. rewrite map_app, IH.
    destruct (findings_at S K fs p); reflexivity.
  Qed.

  Lemma scan_filter K fs q F : (forall p, In p F -> hitb K fs p = true -> q p = true) ->
    semgrep_scan S K fs (List.filter q F) = semgrep_scan S K fs F.
  Proof.
    unfold semgrep_scan, hitb. induction F as [|p r IH]; intros H; [reflexivity|]. cbn [List.filter flat_map].
    assert (Hr : forall p0, In p0 r -> negb (is_nil (findings_at S K fs p0)) = true -> q p0 = true) by (intros; apply H; [now right|assumption]).
    destruct (q p) eqn:Eq.
    - cbn [flat_map]. now rewrite IH.
    - rewrite IH by exact Hr. destruct (findings_at S K fs p) eqn:E; [reflexivity|].
      specialize (H p (or_introl eq_refl)). rewrite E in H. simpl in H. rewrite H in Eq by reflexivity. discriminate.
  Qed.

  Lemma scan_nil K fs F : List.filter (hitb K fs) F = [] -> semgrep_scan S K fs F = [].
  Proof.
    intros H. rewrite <- scan_fst in H. destruct (semgrep_scan S K fs F); [reflexivity|discriminate].
  Qed.

  (** the prefilter dictionary, read per codemod (distinct ids) *)
  Variable cfg : config.
  Definition scope0 : list path := match ff_paths cfg with [] => scan_all cfg | l => l end.
  Definition pstep (fs : fsys) (acc : dict str (list path)) (K : codemod) : dict str (list path) :=
    match cdet K with
    | DSemgrep => match map fst (semgrep_scan S K fs scope0) with [] => acc | l => dset str_eqb (cid K) l acc end
    | _ => acc
    end.
  Lemma prefilter_fold Ks fs : prefilter_of S cfg Ks fs = fold_left (pstep fs) Ks [].
  Proof. reflexivity. Qed.

  Lemma pfold_other fs : forall l acc id, ~ In id (map cid l) -> dget str_eqb id (fold_left (pstep fs) l acc) = dget str_eqb id acc.
  Proof.
    induction l as [|K r IH]; intros acc id Hn; [reflexivity|]. cbn [fold_left]. rewrite IH by (intros H; apply Hn; now right).
    unfold pstep. destruct (cdet K); try reflexivity. destruct (map fst _); [reflexivity|].
    apply (dget_dset_other str_eqb str_eqb_spec). intros ->. apply Hn. now left.
  Qed.

  Lemma pfold_get fs : forall l acc K, NoDup (map cid l) -> In K l ->
    dget str_eqb (cid K) (fold_left (pstep fs) l acc) =
    if is_semgrep K then match List.filter (hitb K fs) scope0 with [] => dget str_eqb (cid K) acc | h => Some h end
    else dget str_eqb (cid K) acc.
  Proof.
    induction l as [|K0 r IH]; intros acc K Hnd Hin; [destruct Hin|]. inversion Hnd as [|? ? Hnotin Hnd']; subst. cbn [fold_left].
    destruct Hin as [->|Hin].
    - rewrite pfold_other by exact Hnotin. unfold pstep, is_semgrep. destruct (cdet K); try reflexivity.
      rewrite scan_fst. destruct (List.filter (hitb K fs) scope0); [reflexivity|]. apply (dget_dset_same str_eqb str_eqb_spec).
    - rewrite IH by assumption.
      assert (Hne : cid K <> cid K0). { intros He. apply Hnotin. rewrite <- He. now apply in_map. }
      assert (Hacc : dget str_eqb (cid K) (pstep fs acc K0) = dget str_eqb (cid K) acc).
      { unfold pstep. destruct (cdet K0); try reflexivity. destruct (map fst _); [reflexivity|].
        now apply (dget_dset_other str_eqb str_eqb_spec). }
      now rewrite Hacc.
  Qed.

  Variable R : codemod -> list (path * list finding).
  (** the directory scan of a detector targets what the start-up scan targets *)
  Hypothesis HF : scan_all cfg = scope0.

  Definition eff_norm (K : codemod) (fs : fsys) : option (option (list (path * list finding))) :=
    match semgrep_scan S K fs scope0 with [] => None | r => Some (Some r) end.

  Lemma filter_nil_sub K fs fs0 :
    (forall p, In p scope0 -> hitb K fs p = true -> hitb K fs0 p = true) ->
    List.filter (hitb K fs0) scope0 = [] -> List.filter (hitb K fs) scope0 = [].
  Proof.
    intros Hsub H0. destruct (List.filter (hitb K fs) scope0) as [|p l] eqn:E; [reflexivity|]. exfalso.
    assert (Hin : In p (List.filter (hitb K fs) scope0)) by (rewrite E; now left).
    apply filter_In in Hin. destruct Hin as [Hi Hh].
    assert (H1 : In p (List.filter (hitb K fs0) scope0)) by (apply filter_In; split; [exact Hi|now apply Hsub]).
    rewrite H0 in H1. destruct H1.
  Qed.

  Lemma eff_fresh K fs : is_semgrep K = true -> eff_detect S R cfg (prefilter_of S cfg [K] fs) K fs = eff_norm K fs.
  Proof.
    intros Hs. unfold eff_detect, eff_norm, detect, is_semgrep in *. destruct (cdet K) eqn:Ed; try discriminate.
    rewrite prefilter_fold. cbn [fold_left]. unfold pstep. rewrite Ed, scan_fst.
    destruct (List.filter (hitb K fs) scope0) as [|p l] eqn:Ef.
    - cbn [is_nil negb andb]. unfold dgetl. cbn [dget]. rewrite HF. reflexivity.
    - unfold dhas, dgetl. rewrite !(dget_dset_same str_eqb str_eqb_spec). cbn [negb andb is_nil]. rewrite andb_false_r.
      rewrite <- Ef. rewrite scan_filter by auto. reflexivity.
  Qed.

  Lemma eff_batch K fs fs0 pre0 : is_semgrep K = true ->
    dget str_eqb (cid K) pre0 = match List.filter (hitb K fs0) scope0 with [] => None | h => Some h end ->
    (forall p, In p scope0 -> hitb K fs p = true -> hitb K fs0 p = true) ->
    eff_detect S R cfg pre0 K fs = eff_norm K fs.
  Proof.
    intros Hs Hget Hsub. unfold eff_detect, eff_norm, detect, is_semgrep in *. destruct (cdet K) eqn:Ed; try discriminate.
    unfold dhas, dgetl. rewrite Hget. destruct (List.filter (hitb K fs0) scope0) as [|p l] eqn:E0.
    - cbn [negb andb]. rewrite andb_true_r.
      rewrite (scan_nil K fs scope0 (filter_nil_sub K fs fs0 Hsub E0)).
      destruct (is_nil pre0); cbn [negb andb]; [|reflexivity]. rewrite HF.
      now rewrite (scan_nil K fs scope0 (filter_nil_sub K fs fs0 Hsub E0)).
    - cbn [negb andb]. rewrite andb_false_r. rewrite <- E0. rewrite scan_filter by exact Hsub. reflexivity.
  Qed.

  Lemma eff_nonsemgrep K fs pre pre' : is_semgrep K = false -> eff_detect S R cfg pre K fs = eff_detect S R cfg pre' K fs.
  Proof. unfold eff_detect, detect, is_semgrep. destruct (cdet K); try discriminate; reflexivity. Qed.
End Overlap.

Section OverlapChain.
  Variable tb : run_tables.
  Variable tree : Type.
  Variable parse : pipe_kind -> bytes -> option tree.
  Variable code : pipe_kind -> tree -> bytes.
  Variable T : codemod -> tree -> option (list finding) -> outcome tree.
  Variable S : codemod -> path -> bytes -> list finding.
  Variable R : codemod -> list (path * list finding).
  Variable diff : bytes -> bytes -> str.
  Variable W : skind -> option bytes -> list dep -> option (bytes * str * list change).
  Variable fsel : codemod -> path -> bool.
  Variable cfg : config.
  Variable pstores : fsys -> list store.
  (** the rule-overlap table: ordered pairs (id of K1, id of K2) for which a rewrite of K1 may create a match of K2's rule *)
  Variable stale : list (str * str).

  Local Notation mrun := (run tb tree parse code T S R diff W fsel cfg).
  Local Notation F := (scope0 cfg).

  Definition create_free (K1 K2 : codemod) : Prop :=
    forall p b t fi t' chs ds, parse (cpipe K1) b = Some t -> T K1 t fi = Changed t' chs ds ->
      S K2 p b = [] -> S K2 p (code (cpipe K1) t') = [].
  Definition pair_listed (K1 K2 : codemod) : bool :=
    existsb (fun ab => str_eqb (fst ab) (cid K1) && str_eqb (snd ab) (cid K2)) stale.
  (** decidable, per ordered pair of the sequence: no later semgrep-detected codemod is listed against an earlier codemod *)
  Fixpoint no_stale_pair (Ks : list codemod) : bool :=
    match Ks with
    | [] => true
    | K1 :: rest => forallb (fun K2 => negb (is_semgrep K2) || negb (pair_listed K1 K2)) rest && no_stale_pair rest
    end.

  Hypothesis Hoverlap : forall K1 K2, pair_listed K1 K2 = false -> is_semgrep K2 = true -> create_free K1 K2.
  Hypothesis HF : scan_all cfg = F.
  Hypothesis Hguard : forall K, has_guard IfNoChanges (guards_of tb (cpipe K)) = true.
  Hypothesis Hstores : forall fs st, In st (pstores fs) -> ~ In (st_path st) F.

  Lemma hit_step K K2 fs p : create_free K K2 -> In p F ->
    hitb S K2 (final_fs (mrun [K] fs (pstores fs))) p = true -> hitb S K2 fs p = true.
  Proof.
    intros Hc Hin.
    pose proof (lift_rel tb tree parse code T S R diff W fsel (fun b' b => S K2 p b = [] -> S K2 p b' = [])
                  (fun _ H => H) (fun a b c H1 H2 H => H1 (H2 H)) (fun K' => K' = K) (fun K' _ => Hguard K')) as HL.
    assert (Hrel : opt_rel (fun b' b => S K2 p b = [] -> S K2 p b' = []) (lookup fs p)
                     (lookup (final_fs (mrun [K] fs (pstores fs))) p)).
    { apply HL.
      - intros K' b t fi t' chs ds -> Hp HT. now apply (Hc p b t fi t' chs ds).
      - intros K' [<-|[]]. reflexivity.
      - intros Hi. apply in_map_iff in Hi. destruct Hi as [st [Hp Hst]]. apply (Hstores fs st Hst). now rewrite Hp. }
    unfold hitb, findings_at. destruct (lookup fs p) as [b|], (lookup (final_fs _) p) as [b'|]; simpl in Hrel; try contradiction; auto.
    destruct (S K2 p b) eqn:E; [|reflexivity]. rewrite (Hrel eq_refl). discriminate.
  Qed.

  Lemma stable_suffix Ks fs0 : NoDup (map cid Ks) ->
    forall suffix fs, incl suffix Ks -> no_stale_pair suffix = true ->
      (forall K2, In K2 suffix -> is_semgrep K2 = true -> forall p, In p F -> hitb S K2 fs p = true -> hitb S K2 fs0 p = true) ->
      prefilter_stable tb tree parse code T S R diff W fsel cfg pstores (prefilter_of S cfg Ks fs0) suffix fs.
  Proof.
    intros Hnd. induction suffix as [|K rest IH]; intros fs Hincl Hns Hinv; [exact I|].
    cbn [prefilter_stable]. cbn [no_stale_pair] in Hns. apply andb_true_iff in Hns. destruct Hns as [Hhead Hrest].
    assert (HK : In K Ks) by (apply Hincl; now left).
    split.
    - destruct (is_semgrep K) eqn:Es.
      + rewrite (eff_fresh S cfg R HF K fs Es).
        apply (eff_batch S cfg R HF K fs fs0); [exact Es| |apply Hinv; [now left|exact Es]].
        rewrite prefilter_fold, (pfold_get S cfg fs0 Ks [] K Hnd HK), Es. cbn [dget]. reflexivity.
      + now apply eff_nonsemgrep.
    - apply IH; [intros x Hx; apply Hincl; now right|exact Hrest|].
      intros K2 H2 Hs2 p Hp Hh. apply (Hinv K2 (or_intror H2) Hs2 p Hp).
      apply (hit_step K K2 fs p); [|exact Hp|exact Hh].
      apply Hoverlap; [|exact Hs2]. rewrite forallb_forall in Hhead. specialize (Hhead K2 H2). rewrite Hs2 in Hhead. simpl in Hhead.
      now apply negb_true_iff in Hhead.
  Qed.

  Theorem prefilter_stable_from_overlap Ks fs : NoDup (map cid Ks) -> no_stale_pair Ks = true ->
    prefilter_stable tb tree parse code T S R diff W fsel cfg pstores (prefilter_of S cfg Ks fs) Ks fs.
  Proof. intros Hnd Hns. apply stable_suffix; auto. intros x Hx; exact Hx. Qed.

  Theorem batch_eq_chain_overlap Ks fs :
    all_files cfg <> [] -> NoDup (map cid Ks) ->
    (forall K, In K Ks -> tries_present tb (cpipe K) = true) ->
    stores_reparse tb tree parse code T S R diff W fsel cfg pstores Ks ->
    no_stale_pair Ks = true ->
    exists s', mrun Ks fs (pstores fs) = Ok s' /\
               s_fs s' = chain_fs tb tree parse code T S R diff W fsel cfg pstores Ks fs /\
               Forall2 (fun K r => exists t, r = Ok t /\ row_of K s' = row_of K t) Ks
                       (chain tb tree parse code T S R diff W fsel cfg pstores Ks fs).
  Proof.
    intros Hall Hnd Ht Hre Hns. apply batch_eq_chain; auto. now apply prefilter_stable_from_overlap.
  Qed.
End OverlapChain.
