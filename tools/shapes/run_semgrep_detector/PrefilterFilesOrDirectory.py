# src/codemodder/context.py @ HEAD
class CodemodExecutionContext:
    def semgrep_results_for_rule(self, codemod_id: str) -> list[Path]:
        return (
            self.semgrep_prefilter_results.files_for_rule(codemod_id)
            if self.semgrep_prefilter_results
            else []
        )
