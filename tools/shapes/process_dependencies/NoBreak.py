class CodemodExecutionContext:
    def process_dependencies(
        self, codemod_id: str
    ) -> dict[Dependency, PackageStore | None]:
        """Write the dependencies a codemod added to the appropriate dependency
        file in the project. Returns a dict listing the locations the dependencies were added.
        """
        if not (dependencies := self.dependencies.get(codemod_id)):
            return {}

        # populate everything with None and then change the ones added
        record: dict[Dependency, PackageStore | None] = {}
        for dep in dependencies:
            record[dep] = None

        if not (store_list := self.repo_manager.package_stores):
            logger.info(
                "unable to write dependencies for %s: no dependency file found",
                codemod_id,
            )
            self._dependency_update_by_codemod[codemod_id] = None
            return record

        from codemodder.dependency_management import DependencyManager

        for package_store in store_list:
            dm = DependencyManager(package_store, self.directory)
            if (changeset := dm.write(list(dependencies), self.dry_run)) is not None:
                self.add_changesets(codemod_id, [changeset])
                self._dependency_update_by_codemod[codemod_id] = package_store
                for dep in dependencies:
                    record[dep] = package_store

        return record
    def add_description(self, codemod: BaseCodemod):
        description = codemod.description
        if dependencies := list(self.dependencies.get(codemod.id, [])):
            if pkg_store := self._dependency_update_by_codemod.get(codemod.id):
                description += build_dependency_notification(
                    pkg_store.type.value, dependencies[0]
                )
            else:
                description += build_failed_dependency_notification(dependencies[0])

        return description
