(** C07 — re-running a codemod on its own output changes nothing (fixed point).
    Full statement: for all codemods K and programs P: run_K(run_K(P)) = run_K(P) and the second report has no changeset.
    What is proved is _partial: (i) the lifting theorem: if the content a run finds is quiet for (detector, transformer)
    of K — which local idempotence gives for the output of a first run — that run writes no file, no manifest, reports no
    changeset and no dependency; (ii) kernel idempotence theorems for the modelled rewrites and the argument algebra,
    with refutations where the code as written is not idempotent.  All other transformers: searched (every registered
    codemod applied twice on seeds x variants, harness/e2e_props.py). *)
From CM Require Import Model.Run Proofs.RunLift Generated.Tables.
From CM Require Import Model.MiniPy Model.Rewrites Proofs.RewriteFacts.
From CM Require Import Model.Args Proofs.ArgsFacts.
From CM Require Properties.C16.

(** Whole-run lift, about a FIRST run: run K, then run K again on what the first run left (fresh invocation, any stores):
    the second run writes no file, no manifest, reports no change set and requests no dependency.  Explicit contracts:
    round trip parse (code t) = Some t; no dependency without a reported rewrite; local idempotence of (detector,
    transformer) on one file.  _partial: the contracts are oracle contracts (discharged for use-generator below, searched
    otherwise); a manifest that is also a selected source (setup.py) is excluded. *)
From CM Require Import Proofs.LiftKernels.
Theorem C07_whole_run_lift_partial : C07_lift_statement run_tables_v.
Proof. exact C07_lift. Qed.
Print Assumptions C07_whole_run_lift_partial.
(** the lemma it uses: on a tree whose files are quiet for (detector, transformer) of K, a run of K is a no-op *)
Theorem C07_quiet_tree_noop : C07_quiet_statement run_tables_v.
Proof. exact C07_quiet_run. Qed.
Print Assumptions C07_quiet_tree_noop.
(** lifting + kernel, composed: two successive runs of a detector-less codemod whose transformer is use-generator's rewrite
    (in a configuration where the kernel is idempotent, as the one read from the current source): the second is a no-op *)
Theorem C07_use_generator_two_runs : C07_generator_two_runs_statement run_tables_v.
Proof. exact (C07_generator_two_runs_all run_tables_v). Qed.
Print Assumptions C07_use_generator_two_runs.
Example C07_generator_cfg_is_stable : generator_stable generator_cfg_v = true.
Proof. reflexivity. Qed.
(** the statement above is the law, not the vacuous branch: on the tables read from the current source every pipeline
    returns early when the transformer reports no change (if a pipeline loses that guard this example stops compiling) *)
Example C07_lift_not_vacuous : libcst_nochange_guarded run_tables_v = true.
Proof. reflexivity. Qed.

(** use-generator is idempotent on every expression when calls are never entered (pinned form, first repair) or when nested
    rewrites are kept AND the generator is built from the updated comprehension ([generator_stable]); with `return updated_node`
    alone a rewrite inside the comprehension of a rewritten call needs a second run *)
Theorem C07_kernel_generator_idempotent :
  forall cfg, generator_stable cfg = true -> forall e, rw_generator cfg (rw_generator cfg e) = rw_generator cfg e.
Proof. exact RewriteFacts.C07_kernel_generator_idempotent. Qed.
Print Assumptions C07_kernel_generator_idempotent.
Theorem C07_kernel_generator_nested_refuted :
  MiniPy.wf w_gen_nested = true /\
  rw_generator nested_generator (rw_generator nested_generator w_gen_nested) <> rw_generator nested_generator w_gen_nested /\
  rw_generator nested_updated_generator (rw_generator nested_updated_generator w_gen_nested)
  = rw_generator nested_updated_generator w_gen_nested.
Proof. exact RewriteFacts.C07_kernel_generator_nested_refuted. Qed.
Print Assumptions C07_kernel_generator_nested_refuted.

(** fix-hasattr-call: the rewritten call is left alone *)
Theorem C07_kernel_hasattr_stable : forall cfg a, hasattr_step cfg (MiniPy.ECall MiniPy.BCallable [a]) = MiniPy.ECall MiniPy.BCallable [a].
Proof. exact C07_kernel_hasattr_step_stable. Qed.
Print Assumptions C07_kernel_hasattr_stable.

(** use-set-literal is NOT idempotent on nested sites ([set([len(set([1]))])] needs two runs): the outer rewrite
    discards the inner one (class kf_set_literal_nested) *)
Theorem C07_kernel_set_literal_refuted :
  exists e, MiniPy.wf e = true /\ rw_set_literal (rw_set_literal e) <> rw_set_literal e.
Proof. exists w_set_nested. exact RewriteFacts.C07_kernel_set_literal_refuted. Qed.
Print Assumptions C07_kernel_set_literal_refuted.

(** argument algebra of the hardening codemods: replace_args with distinct NewArg names is idempotent on a single call;
    on nested selected calls it is not (class kf_nested_selected_calls) *)
Theorem C07_replace_args_idempotent_single_call : ltac:(let T := type of C16.C07_replace_args_idempotent in exact T).
Proof. exact C16.C07_replace_args_idempotent. Qed.
Print Assumptions C07_replace_args_idempotent_single_call.
Theorem C07_nested_selected_calls_refuted : ltac:(let T := type of C16.C07_nested_refuted in exact T).
Proof. exact C16.C07_nested_refuted. Qed.
Print Assumptions C07_nested_selected_calls_refuted.

(** fix-empty-sequence-comparison and literal-or-new-object-identity build the replacement from the ORIGINAL operands, so a
    matching comparison inside an operand is only rewritten by a second run
    ([((v1 == []) == [])], [((v1 is []) is [])]; both reproduced on the real codemods) *)
Theorem C07_kernel_empty_seq_refuted : forall cfg,
  MiniPy.wf w_es_nested = true /\
  empty_seq_file cfg false (empty_seq_file cfg false w_es_nested) <> empty_seq_file cfg false w_es_nested.
Proof. exact RewriteFacts.C07_kernel_empty_seq_refuted. Qed.
Print Assumptions C07_kernel_empty_seq_refuted.
Theorem C07_kernel_identity_refuted :
  MiniPy.wf w_id_nested = true /\ rw_identity (rw_identity w_id_nested) <> rw_identity w_id_nested.
Proof. exact RewriteFacts.C07_kernel_identity_refuted. Qed.
Print Assumptions C07_kernel_identity_refuted.

(** * Positive idempotence of the top-down kernels (Proofs/TdIdem.v) under the decidable guard [sites_clean]: nothing that a
    site is replaced by contains another site.  (Without it: the `_refuted` theorems above.) *)
From CM Require Import Proofs.WholeTree Proofs.TdIdem.
Theorem C07_kernel_empty_seq_idempotent : forall cfg e, sites_clean (empty_seq_f cfg) e = true ->
  td (empty_seq_f cfg) (td (empty_seq_f cfg) e) = td (empty_seq_f cfg) e.
Proof. exact empty_seq_idempotent. Qed.
Print Assumptions C07_kernel_empty_seq_idempotent.
Theorem C07_kernel_identity_idempotent : forall e, sites_clean identity_f e = true -> rw_identity (rw_identity e) = rw_identity e.
Proof. exact identity_idempotent. Qed.
Print Assumptions C07_kernel_identity_idempotent.
Theorem C07_kernel_set_literal_idempotent : forall e, sites_clean set_literal_f e = true -> rw_set_literal (rw_set_literal e) = rw_set_literal e.
Proof. exact set_literal_idempotent. Qed.
Print Assumptions C07_kernel_set_literal_idempotent.
Example C07_kernel_idempotence_guards :
  sites_clean (empty_seq_f Types_Kernels.repaired_empty_seq)
    (MiniPy.EBool true MiniPy.BAnd (MiniPy.ECmp true (MiniPy.EName 1) [(Types_Kernels.Eq, MiniPy.EList [])])
                  (MiniPy.ENot true (MiniPy.ECmp true (MiniPy.ETuple []) [(Types_Kernels.NotEq, MiniPy.EName 2)]))) = true /\
  sites_clean (empty_seq_f Types_Kernels.repaired_empty_seq) w_es_nested = false /\
  sites_clean identity_f w_id_nested = false /\ sites_clean set_literal_f w_set_nested = false.
Proof. vm_compute. repeat split. Qed.

(** str-concat-in-sequence-literals: the repaired form (7e1e4cc: elements of the updated node) is idempotent on every
    expression; the pinned form never reached a display nested in a display *)
From CM Require Import Proofs.StrConcatFacts.
Theorem C07_kernel_str_concat_idempotent : forall e,
  rw_str_concat Types_Kernels.repaired_str_concat (rw_str_concat Types_Kernels.repaired_str_concat e) = rw_str_concat Types_Kernels.repaired_str_concat e.
Proof. exact str_concat_idempotent. Qed.
Print Assumptions C07_kernel_str_concat_idempotent.
Theorem C07_kernel_str_concat_pinned_misses_nested : ltac:(let T := type of str_concat_pinned_misses_nested in exact T).
Proof. exact str_concat_pinned_misses_nested. Qed.
Print Assumptions C07_kernel_str_concat_pinned_misses_nested.
