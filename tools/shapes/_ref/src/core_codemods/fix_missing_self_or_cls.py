import libcst as cst

from codemodder.codemods.libcst_transformer import (
    LibcstResultTransformer,
    LibcstTransformerPipeline,
)
from codemodder.codemods.utils_mixin import NameAndAncestorResolutionMixin
from core_codemods.api import Metadata, ReviewGuidance
from core_codemods.api.core_codemod import CoreCodemod


class FixMissingSelfOrClsTransformer(
    LibcstResultTransformer, NameAndAncestorResolutionMixin
):
    change_description = "Add `self` or `cls` parameter to instance or class method."

    def leave_FunctionDef(
        self, original_node: cst.FunctionDef, updated_node: cst.FunctionDef
    ) -> cst.FunctionDef:
        if not self.node_is_selected(original_node):
            return original_node

        if not self.find_immediate_class_def(original_node):
            # If `original_node` is not inside a class, nothing to do.
            return original_node

        if self.find_immediate_function_def(original_node):
            # If `original_node` is inside a class but also nested within a function/method
            # We won't touch it.
            return original_node

        if original_node.decorators:
            if self.is_staticmethod(original_node):
                return updated_node
            if self.is_classmethod(original_node):
                if self.has_no_args(original_node):
                    self.report_change(original_node)
                    return updated_node.with_changes(
                        params=updated_node.params.with_changes(
                            params=[cst.Param(name=cst.Name("cls"))]
                        )
                    )
        else:
            if self.has_no_args(original_node):
                self.report_change(original_node)
                return updated_node.with_changes(
                    params=updated_node.params.with_changes(
                        params=[cst.Param(name=self._pick_arg_name(original_node))]
                    )
                )
        return updated_node

    def _pick_arg_name(self, node: cst.FunctionDef) -> cst.Name:
        match node.name:
            case cst.Name(value="__new__") | cst.Name(value="__init_subclass__"):
                new_name = "cls"
            case _:
                new_name = "self"
        return cst.Name(value=new_name)

    def has_no_args(self, node: cst.FunctionDef) -> bool:
        converted_star_arg = (
            None
            if node.params.star_arg is cst.MaybeSentinel.DEFAULT
            else node.params.star_arg
        )
        return not any(
            (
                node.params.params,
                converted_star_arg,
                node.params.kwonly_params,
                node.params.star_kwarg,
                node.params.posonly_params,
            )
        )


FixMissingSelfOrCls = CoreCodemod(
    metadata=Metadata(
        name="fix-missing-self-or-cls",
        review_guidance=ReviewGuidance.MERGE_AFTER_CURSORY_REVIEW,
        summary="Add Missing Positional Parameter for Instance and Class Methods",
        references=[],
    ),
    transformer=LibcstTransformerPipeline(FixMissingSelfOrClsTransformer),
    detector=None,
)
