From CM Require Import Harness.RunBase Model.Readers Model.Sarif Spec.ReadersSpec Spec.SarifSpec Generated.Tables.

Fixpoint json_eqb (a b : json) : bool :=
  match a, b with
  | JNull, JNull => true
  | JBool x, JBool y => Bool.eqb x y
  | JNum x, JNum y => Z.eqb x y
  | JStr x, JStr y => str_eqb x y
  | JArr x, JArr y =>
      (fix go (x y : list json) : bool :=
         match x, y with
         | [], [] => true
         | a :: x', b :: y' => json_eqb a b && go x' y'
         | _, _ => false
         end) x y
  | JObj x, JObj y =>
      (fix go (x y : list (str * json)) : bool :=
         match x, y with
         | [], [] => true
         | (k, a) :: x', (k', b) :: y' => str_eqb k k' && json_eqb a b && go x' y'
         | _, _ => false
         end) x y
  | _, _ => false
  end.

Definition finding_eqb (a b : finding) : bool :=
  str_eqb (f_rule a) (f_rule b) && json_eqb (f_id a) (f_id b) && str_eqb (f_file a) (f_file b) &&
  json_eqb (f_sl a) (f_sl b) && json_eqb (f_sc a) (f_sc b) && json_eqb (f_el a) (f_el b) && json_eqb (f_ec a) (f_ec b).

Definition same_key (a b : finding) : bool := str_eqb (f_rule a) (f_rule b) && str_eqb (f_file a) (f_file b).

(** The implementation files findings per (rule, file); within a key the order is document order. *)
Definition grouped_eq (model obs : list finding) : bool :=
  Nat.eqb (length model) (length obs) &&
  forallb (fun k => list_eqb finding_eqb (List.filter (same_key k) model) (List.filter (same_key k) obs)) (model ++ obs).

Definition reader_case := (json * option (list finding))%type.   (* document, observed (None = exception) *)

Definition opt_grouped_eq (m : option (list finding)) (o : option (list finding)) : bool :=
  match m, o with Some a, Some b => grouped_eq a b | None, None => true | _, _ => false end.

(** multiset comparison per (rule, file) key: what the property demands (nothing lost, nothing duplicated, nothing
    altered); the order inside a key is only compared against the MODEL *)
Definition count_f (x : finding) (l : list finding) : nat := length (List.filter (finding_eqb x) l).
Definition perm_eq (a b : list finding) : bool :=
  Nat.eqb (length a) (length b) && forallb (fun x => Nat.eqb (count_f x a) (count_f x b)) (a ++ b).

Definition sonar_model_ok (c : reader_case) : bool :=
  opt_grouped_eq (Some (sonar_reader sonar_select_expr (fst c))) (snd c).
(** spec: whenever the container has the right shape, every open issue and hotspot that is individually readable
    is filed, nothing else (one malformed entry must not cost the others) *)
Definition sonar_spec_ok (c : reader_case) : bool :=
  if wf_container (fst c) then match snd c with Some o => perm_eq (sonar_spec_robust (fst c)) o | None => false end else true.
Definition sonar_wf (c : reader_case) : bool := wf_sonar (fst c).
(** classification of a spec failure by what was OBSERVED: false = the observation is what that form of the reader
    would produce (the pinned `a or [] + b or []` expression; the per-file try/except) *)
Definition sonar_not_like_pinned (c : reader_case) : bool :=
  negb (opt_grouped_eq (Some (sonar_reader IssuesOrElse (fst c))) (snd c)).
Definition sonar_not_like_perfile (c : reader_case) : bool :=
  negb (opt_grouped_eq (Some (sonar_reader IssuesPlusHotspots (fst c))) (snd c)).

(** SARIF / DefectDojo: the reader may raise only on a document with an individually unreadable element; otherwise
    it files the reference extraction *)
Definition raise_or (readable : bool) (spec : list finding) (o : option (list finding)) : bool :=
  match o with Some obs => perm_eq spec obs | None => negb readable end.
Definition semgrep_model_ok (c : reader_case) : bool := opt_grouped_eq (semgrep_reader (fst c)) (snd c).
Definition semgrep_spec_ok (c : reader_case) : bool := raise_or (readable_semgrep (fst c)) (semgrep_spec (fst c)) (snd c).
Definition codeql_model_ok (c : reader_case) : bool := opt_grouped_eq (codeql_reader codeql_start_column (fst c)) (snd c).
Definition codeql_spec_ok (c : reader_case) : bool := raise_or (readable_codeql codeql_start_column (fst c)) (codeql_spec codeql_start_column (fst c)) (snd c).
Definition dd_model_ok (c : reader_case) : bool := opt_grouped_eq (dd_reader (fst c)) (snd c).
Definition dd_spec_ok (c : reader_case) : bool := raise_or (readable_dd (fst c)) (dd_spec (fst c)) (snd c).

(** detect_sarif_tools: files (id, loaded document), observed: Some [(tool, file id)] | None = DuplicateToolError; crashes are
    reported separately by the harness as observed_kind = 2 *)
From CM Require Import Model.SarifTools.
Definition tools_case := (list N * list (N * json) * N * list (N * N))%type.
(* observed detector order (tool codes), files, outcome kind 0 ok / 1 duplicate / 2 crash, pairs (tool 0|1, file) in dict order *)
Definition tool_code (t : tool) : N := match t with TSemgrep => 0 | TCodeQL => 1 end.
Definition tool_of_code (n : N) : tool := match n with 0%N => TSemgrep | _ => TCodeQL end.
Definition runs_of (doc : json) : option (list json) := match jget s_runs doc with Some (JArr l) => Some l | _ => None end.
Definition tools_model_ok (c : tools_case) : bool :=
  let '(ord, files, kind, pairs) := c in
  match detect_tools_ord (map tool_of_code ord) (map (fun fd => (fst fd, runs_of (snd fd))) files), kind with
  | TOk m, 0%N => list_eqb (pair_eqb N.eqb N.eqb) (map (fun p => (tool_code (fst p), snd p)) m) pairs   (* same attribution, same insertion order *)
  | TDuplicate, 1%N => true
  | TCrash, 2%N => true
  | _, _ => false
  end.
(** spec: every file holding a recognisable run of a tool is attributed to it; non-inspectable and foreign runs change nothing *)
Definition tools_spec_ok (c : tools_case) : bool :=
  let '(_, files, kind, pairs) := c in
  match kind with
  | 0%N =>
      forallb (fun fd =>
        forallb (fun t =>
          Bool.eqb (existsb (fun run => match detect t run with DYes => true | _ => false end)
                            (match runs_of (snd fd) with Some l => l | None => [] end))
                   (existsb (pair_eqb N.eqb N.eqb (tool_code t, fst fd)) pairs))
          detector_order) files
  | _ => true
  end.
