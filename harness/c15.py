"""C15 — the CodeTF report is always well-formed, complete and internally consistent.

Model/spec side: coq/Model/Report.v, coq/Spec/ReportSpec.v (schema_ok = transcription of vendor/codetf.schema.json),
evaluated with vm_compute through coq/Harness/C15_run.v.
Implementation side:
  (1) in-process: the pydantic models (serialisation with exclude_none, the validators, the Reference back-fill); whole
      runs of the real apply_codemods / process_results / process_dependencies / compile_results / CodeTF.build over
      SYNTHETIC codemods (real BaseCodemod/RemediationCodemod subclasses, real LibcstTransformerPipeline, a transformer that
      reports the planned changes / raises / leaves the tree alone) on scratch projects; the XML pipeline;
  (2) end-to-end: the real CLI with --output on generated projects; every report goes through c15_checker.check_report
      (jsonschema with the vendored schema + the invariants relating the report to the tree) and through Coq's schema_ok.
"""
from __future__ import annotations

import concurrent.futures
import copy
import json
import os
import shutil
import sys
import types
from pathlib import Path

from harness import core
from harness import c15_checker as chk
from harness.core import cZ, clist, copt, cpair, cstr, cbool

META = {
    "rule": "in-process: random CodeTF values (all Optional fields present/absent, enums, nested findings) serialised by pydantic and "
            "by the model; random (lineNumber, description) pairs against the validators; synthetic-codemod runs (0-3 codemods x 0-5 "
            "files; per file: change requests with valid/invalid lines and descriptions, unchanged tree, transformer exception, syntax "
            "error, findings with/without tool-rule metadata, reported unfixed findings, dependency with/without/with-failed manifest, "
            "dry-run, zero files, non-ASCII names) through the real orchestration; the XML pipeline witnesses. end-to-end: real CLI runs "
            "(zero codemods, zero files, several codemods, syntax error, dependency with/without manifest, Sonar JSON, Semgrep SARIF, "
            "non-ASCII, --dry-run, random snippet projects). non-trivial = a run whose report has at least one changeset or failure; "
            "distinct by (plan / scenario) content",
    "trusted": ["vendor/codetf.schema.json is a RECONSTRUCTION of the CodeTF schema from the pydantic models and the property text "
                "(the upstream schema cannot be fetched offline); coq/Spec/ReportSpec.v schema_ok is its hand transcription, compared "
                "with python-jsonschema on every report and on mutated reports each run",
                "python-jsonschema (Draft 7), json of CPython, pydantic 2.9 as the serialiser under test",
                "harness/c15_checker.py (the invariants relating a report to the tree)"],
    "assumptions": ["run_ok: the changesets returned by the dependency writers are well formed (C14's writers; tested here on every run "
                    "that writes a manifest)",
                    "transformer contract: a reported lineNumber is a line of the original or rewritten file (tested end-to-end, not proved)",
                    "codemod ids of one run are distinct (C17) and a codemod is given each file once — premises of C15_failed_changed_disjoint",
                    "update_finding_metadata mutates Finding objects in place: an unfixed finding sharing its Rule object with a finding "
                    "attached to a reported change gets the same name/url through aliasing; the model does not track object identity and the "
                    "synthetic generator keeps the two sets apart (key presence, which is what C15 asks, is unaffected)",
                    "'executed codemod' = a codemod of codemods_to_run; with zero files none is applied, each still gets an (empty) result"],
}

IMPORTS = "From CM Require Import Harness.RunBase Harness.C15_run Model.Report Model.ReportTables Spec.ReportSpec.\n"

K_XML_DESC = "kf_c15_xml_change_description_none"
K_XML_DIFF = "kf_c15_xml_empty_diff"
K_VALIDATOR = "kf_c15_change_validator_weak"
K_FINDING_ID = "kf_c15_finding_id_is_rule_id"


# ------------------------------------------------------------------------------------------------
# Coq printers
# ------------------------------------------------------------------------------------------------
def cjson(v) -> str:
    if v is None:
        return "JNull"
    if isinstance(v, bool):
        return f"(JBool {cbool(v)})"
    if isinstance(v, int):
        return f"(JNum {cZ(v)})"
    if isinstance(v, float):
        raise ValueError("floats are not representable in the JSON model")
    if isinstance(v, str):
        return f"(JStr {cstr(v)})"
    if isinstance(v, list):
        return "(JArr " + clist([cjson(x) for x in v], "json") + ")"
    if isinstance(v, dict):
        return "(JObj " + clist([cpair(cstr(k), cjson(x)) for k, x in v.items()], "str * json") + ")"
    raise ValueError(type(v))


def ostr(s):
    return copt(None if s is None else cstr(s), "str")


def c_rule(r):
    return "{| ru_id := %s; ru_name := %s; ru_url := %s |}" % (cstr(r["id"]), cstr(r["name"]), ostr(r.get("url")))


def c_finding(f):
    return "{| fi_id := %s; fi_rule := %s |}" % (cstr(f["id"]), c_rule(f["rule"]))


def c_unfixed(u):
    return "{| uf_id := %s; uf_rule := %s; uf_path := %s; uf_line := %s; uf_reason := %s |}" % (
        cstr(u["id"]), c_rule(u["rule"]), cstr(u["path"]), copt(None if u.get("lineNumber") is None else cZ(u["lineNumber"]), "Z"),
        cstr(u["reason"]))


ACT = {"add": "ActAdd", "remove": "ActRemove"}
PRES = {"completed": "PrCompleted", "failed": "PrFailed", "skipped": "PrSkipped"}
SIDE = {"left": "SideLeft", "right": "SideRight"}


def c_props(p):
    return copt(None if p is None else clist([cpair(cstr(k), cjson(v)) for k, v in p.items()], "str * json"), "props")


def c_pkg(p):
    return "{| pa_action := %s; pa_result := %s; pa_package := %s |}" % (ACT[p["action"]], PRES[p["result"]], cstr(p["package"]))


def c_change(c):
    return ("{| ch_line := %s; ch_desc := %s; ch_side := %s; ch_props := %s; ch_pkgs := %s; ch_findings := %s |}" % (
        cZ(c["lineNumber"]), ostr(c.get("description")), SIDE[c.get("diffSide", "right")], c_props(c.get("properties")),
        copt(None if c.get("packageActions") is None else clist([c_pkg(p) for p in c["packageActions"]], "package_action"), "list package_action"),
        copt(None if c.get("findings") is None else clist([c_finding(f) for f in c["findings"]], "finding"), "list finding")))


def c_ai(a):
    return "{| ai_provider := %s; ai_model := %s; ai_tokens := %s |}" % (
        ostr(a.get("provider")), ostr(a.get("model")), copt(None if a.get("tokens") is None else cZ(a["tokens"]), "Z"))


def c_changeset(c):
    return "{| cs_path := %s; cs_diff := %s; cs_changes := %s; cs_ai := %s |}" % (
        cstr(c["path"]), cstr(c["diff"]), clist([c_change(x) for x in c["changes"]], "change"),
        copt(None if c.get("ai") is None else c_ai(c["ai"]), "ai_metadata"))


def c_reference(r):
    return "{| rf_url := %s; rf_desc := %s |}" % (cstr(r["url"]), ostr(r.get("description")))


def c_result(r):
    return ("{| rs_codemod := %s; rs_summary := %s; rs_description := %s; rs_tool := %s; rs_refs := %s; rs_props := %s; "
            "rs_failed := %s; rs_changeset := %s; rs_unfixed := %s |}" % (
                cstr(r["codemod"]), cstr(r["summary"]), cstr(r["description"]),
                copt(None if r.get("detectionTool") is None else "{| dt_name := %s |}" % cstr(r["detectionTool"]["name"]), "detection_tool"),
                copt(None if r.get("references") is None else clist([c_reference(x) for x in r["references"]], "reference"), "list reference"),
                c_props(r.get("properties")),
                copt(None if r.get("failedFiles") is None else clist([cstr(x) for x in r["failedFiles"]], "str"), "list str"),
                clist([c_changeset(x) for x in r["changeset"]], "changeset"),
                copt(None if r.get("unfixedFindings") is None else clist([c_unfixed(x) for x in r["unfixedFindings"]], "unfixed"), "list unfixed")))


def c_run(r):
    return ("{| rn_vendor := %s; rn_tool := %s; rn_version := %s; rn_project := %s; rn_cmdline := %s; rn_elapsed := %s; "
            "rn_directory := %s; rn_sarifs := %s |}" % (
                cstr(r["vendor"]), cstr(r["tool"]), cstr(r["version"]), ostr(r.get("projectName")), cstr(r["commandLine"]),
                copt(None if r.get("elapsed") is None else cZ(r["elapsed"]), "Z"), cstr(r["directory"]),
                clist(["{| sa_artifact := %s; sa_sha1 := %s |}" % (cstr(s["artifact"]), cstr(s["sha1"])) for s in r.get("sarifs", [])], "sarif")))


def c_codetf(d):
    return "{| ct_run := %s; ct_results := %s |}" % (c_run(d["run"]), clist([c_result(r) for r in d["results"]], "result"))


# ------------------------------------------------------------------------------------------------
# (1a) serialisation: random model values (as plain dicts with None for absent) -> pydantic -> JSON  vs  Coq to_json
# ------------------------------------------------------------------------------------------------
WORDS = ["", "a", "x.py", "src/é.py", "日本", "line\n2", 'q"uote', "pixee:python/foo", "https://u/r?q=1", "Ünï", " "]


def rs(rng):
    return rng.choice(WORDS)


def ro(rng, f, p=0.5):
    return f() if rng.random() < p else None


def g_rule(rng):
    return {"id": rs(rng), "name": rs(rng), "url": ro(rng, lambda: rs(rng))}


def g_finding(rng):
    return {"id": rs(rng), "rule": g_rule(rng)}


def g_json_value(rng, depth=0):
    k = rng.randrange(7 if depth < 2 else 5)
    if k == 5:
        return [g_json_value(rng, depth + 1) for _ in range(rng.randrange(3))]
    if k == 6:
        return {rs(rng) + str(i): g_json_value(rng, depth + 1) for i in range(rng.randrange(3))}
    return [None, True, rng.randrange(-5, 99), rs(rng), False][k]


def g_props(rng):
    return {rs(rng) + str(i): g_json_value(rng) for i in range(rng.randrange(3))}


def g_change(rng):
    d = ro(rng, lambda: rng.choice([w for w in WORDS if w]), 0.7)
    return {"lineNumber": rng.randrange(1, 500), "description": d, "diffSide": rng.choice(["left", "right"]),
            "properties": ro(rng, lambda: g_props(rng), 0.4),
            "packageActions": ro(rng, lambda: [{"action": rng.choice(list(ACT)), "result": rng.choice(list(PRES)), "package": rs(rng)}
                                               for _ in range(rng.randrange(3))], 0.4),
            "findings": ro(rng, lambda: [g_finding(rng) for _ in range(rng.randrange(3))], 0.6)}


def g_changeset(rng):
    return {"path": rs(rng), "diff": rs(rng), "changes": [g_change(rng) for _ in range(rng.randrange(3))],
            "ai": ro(rng, lambda: {"provider": ro(rng, lambda: rs(rng)), "model": ro(rng, lambda: rs(rng)),
                                   "tokens": ro(rng, lambda: rng.randrange(1000))}, 0.3)}


def g_result(rng):
    return {"codemod": rs(rng), "summary": rs(rng), "description": rs(rng),
            "detectionTool": ro(rng, lambda: {"name": rs(rng)}),
            "references": ro(rng, lambda: [{"url": rs(rng), "description": ro(rng, lambda: rs(rng))} for _ in range(rng.randrange(3))]),
            "properties": ro(rng, lambda: g_props(rng)),
            "failedFiles": ro(rng, lambda: [rs(rng) for _ in range(rng.randrange(3))]),
            "changeset": [g_changeset(rng) for _ in range(rng.randrange(3))],
            "unfixedFindings": ro(rng, lambda: [dict(g_finding(rng), path=rs(rng), lineNumber=ro(rng, lambda: rng.randrange(0, 50)),
                                                      reason=rs(rng)) for _ in range(rng.randrange(3))])}


def g_codetf(rng):
    return {"run": {"vendor": rs(rng), "tool": rs(rng), "version": rs(rng), "projectName": ro(rng, lambda: rs(rng)),
                    "commandLine": rs(rng), "elapsed": ro(rng, lambda: rng.randrange(10 ** 6), 0.8), "directory": rs(rng),
                    "sarifs": [{"artifact": rs(rng), "sha1": rs(rng)} for _ in range(rng.randrange(2))]},
            "results": [g_result(rng) for _ in range(rng.randrange(3))]}


def to_pydantic(d):
    """Build the pydantic objects field by field (constructor calls, so that validators and defaults run)."""
    from codemodder import codetf as m

    def rule(r):
        return m.Rule(id=r["id"], name=r["name"], url=r["url"])

    def finding(f):
        return m.Finding(id=f["id"], rule=rule(f["rule"]))

    def change(c):
        return m.Change(lineNumber=c["lineNumber"], description=c["description"], diffSide=m.DiffSide(c["diffSide"]),
                        properties=c["properties"],
                        packageActions=None if c["packageActions"] is None else [
                            m.PackageAction(action=m.Action(p["action"]), result=m.PackageResult(p["result"]), package=p["package"])
                            for p in c["packageActions"]],
                        findings=None if c["findings"] is None else [finding(f) for f in c["findings"]])

    def changeset(c):
        return m.ChangeSet(path=c["path"], diff=c["diff"], changes=[change(x) for x in c["changes"]],
                           ai=None if c["ai"] is None else m.AIMetadata(**c["ai"]))

    def result(r):
        return m.Result(codemod=r["codemod"], summary=r["summary"], description=r["description"],
                        detectionTool=None if r["detectionTool"] is None else m.DetectionTool(name=r["detectionTool"]["name"]),
                        references=None if r["references"] is None else [m.Reference(url=x["url"], description=x["description"]) for x in r["references"]],
                        properties=r["properties"], failedFiles=r["failedFiles"], changeset=[changeset(c) for c in r["changeset"]],
                        unfixedFindings=None if r["unfixedFindings"] is None else [
                            m.UnfixedFinding(id=u["id"], rule=rule(u["rule"]), path=u["path"], lineNumber=u["lineNumber"], reason=u["reason"])
                            for u in r["unfixedFindings"]])

    run = d["run"]
    return m.CodeTF(run=m.Run(vendor=run["vendor"], tool=run["tool"], version=run["version"], projectName=run["projectName"],
                              commandLine=run["commandLine"], elapsed=run["elapsed"], directory=run["directory"],
                              sarifs=[m.Sarif(**s) for s in run["sarifs"]]),
                    results=[result(r) for r in d["results"]])


def backfill_refs(d):
    """The model value of a Reference is the object AFTER its validator (description back-filled): take it from the object."""
    return d


def run_serialisation(ctx):
    n = 60 if ctx.quick() else 400
    cases, metas = [], []
    for i in range(n):
        d = g_codetf(ctx.rng)
        obj = to_pydantic(d)
        # references: the model record is the validated object (description back-filled by Reference.validate_description)
        for r, ro_ in zip(d["results"], obj.results):
            if r["references"] is not None:
                for x, xo in zip(r["references"], ro_.references):
                    x["description"] = xo.description
        observed = json.loads(obj.model_dump_json(exclude_none=True))
        cases.append(cpair(c_codetf(d), cjson(observed)))
        metas.append((d, observed))
        ctx.count("serialisation:results=%d" % len(d["results"]))
        ctx.case({"serialise": d}, nontrivial_key=("ser", json.dumps(d, sort_keys=True)) if d["results"] else None, sample=(i == 0))
    bad = core.eval_bad_indices(ctx, "c15_ser", IMPORTS, "ser_case", cases, ["ser_model_ok"], chunk=40)
    for i in bad["ser_model_ok"]:
        ctx.mismatch("model_dump_json(exclude_none=True) vs Model.Report.to_json",
                     f"serialisation differs from the model on {json.dumps(metas[i][0])[:300]}",
                     {"op": "serialise", "value": metas[i][0], "observed": metas[i][1]})


# ------------------------------------------------------------------------------------------------
# (1b) validators, Reference back-fill
# ------------------------------------------------------------------------------------------------
def run_validators(ctx):
    from codemodder import codetf as m
    import pydantic
    rng = ctx.rng
    lines = [-5, -1, 0, 1, 2, 7, 10 ** 6]
    descs = [None, "", "d", " ", "é"]
    pairs = [(l, d) for l in lines for d in descs]
    for _ in range(30 if ctx.quick() else 300):
        pairs.append((rng.randrange(-3, 6), rng.choice(descs)))
    cases, metas = [], []
    for l, d in pairs:
        try:
            m.Change(lineNumber=l, description=d)
            acc = True
        except pydantic.ValidationError:
            acc = False
        cases.append(cpair(cZ(l), ostr(d), cbool(acc)))
        metas.append((l, d, acc))
        ctx.count("validator:" + ("accepted" if acc else "rejected"))
        ctx.case({"Change": [l, d], "accepted": acc}, nontrivial_key=("val", l, d))
    bad = core.eval_bad_indices(ctx, "c15_val", IMPORTS, "val_case", cases, ["val_model_ok", "val_spec_ok"])
    for i in bad["val_model_ok"]:
        l, d, acc = metas[i]
        ctx.mismatch("codetf.Change validators vs Model.Report.mk_change",
                     f"Change(lineNumber={l}, description={d!r}) {'accepted' if acc else 'rejected'} by pydantic, the model says otherwise",
                     {"op": "validator", "lineNumber": l, "description": d, "accepted": acc})
    for i in bad["val_spec_ok"]:
        l, d, acc = metas[i]
        ctx.violation(K_VALIDATOR, f"Change(lineNumber={l}, description={d!r}) is {'accepted' if acc else 'rejected'}; C15 needs "
                      "lineNumber >= 1 and a non-empty description", {"op": "validator", "lineNumber": l, "description": d, "accepted": acc,
                                                                      "expected": "rejected iff lineNumber < 1 or description == ''"})
    rcases, rmetas = [], []
    for u in ["", "u", "https://x"]:
        for d in [None, "", "d"]:
            obs = m.Reference(url=u, description=d).description
            rcases.append(cpair(cstr(u), ostr(d), ostr(obs)))
            rmetas.append((u, d, obs))
            ctx.case({"Reference": [u, d], "description": obs})
    bad = core.eval_bad_indices(ctx, "c15_ref", IMPORTS, "ref_case", rcases, ["ref_model_ok"])
    for i in bad["ref_model_ok"]:
        ctx.mismatch("codetf.Reference.validate_description vs Model.Report.mk_reference", f"Reference{rmetas[i][:2]} -> {rmetas[i][2]!r}",
                     {"op": "reference", "case": rmetas[i]})


# ------------------------------------------------------------------------------------------------
# (1c) whole runs over synthetic codemods through the real orchestration
# ------------------------------------------------------------------------------------------------
GOOD_SRC = ["x = 1\ny = 2\nz = 3\nw = 4\n", "import os\n\n\ndef f():\n    return os.getcwd()\n", "# ünï\ns = 'é'\nt = 2\nu = 3\nv = 4\n"]
BAD_SRC = ["def f(:\n    pass\n", "x = (\n"]
NAMES = ["a.py", "b.py", "pkg/c.py", "pkg/d.py", "ünï/é.py", "setup.py"]
_REGISTRY = []


def real_registry():
    if not _REGISTRY:
        from codemodder import registry
        _REGISTRY.append(registry.load_registered_codemods())
    return _REGISTRY[0]


def gen_plan(rng, force=None):
    """A project and, per synthetic codemod, what its transformer does on each file."""
    force = force or {}
    nfiles = force.get("nfiles", rng.choice([0, 1, 2, 3, 4, 5]))
    names = rng.sample(NAMES[:5], min(nfiles, 5))
    files = {}
    for n in names:
        files[n] = rng.choice(BAD_SRC) if rng.random() < 0.2 else rng.choice(GOOD_SRC)
    manifest = force.get("manifest", rng.choice([None, None, "requirements.txt", "requirements.txt", "setup.py", "setup.cfg", "pyproject.toml"]))
    if "manifest_text" in force:
        files[manifest] = force["manifest_text"]
    elif manifest == "requirements.txt" and rng.random() < 0.4:
        files["requirements.txt"] = rng.choice(["requests==2.31.0\n", "", "flask\nsecurity==1.3.1\n"])
    elif manifest is not None:
        files[manifest] = rng.choice(manifest_variants()[manifest])[1]
    ncm = force.get("ncm", rng.choice([0, 1, 1, 2, 2, 3]))
    cms = []
    for i in range(ncm):
        detector = rng.random() < 0.5
        tool = None
        rules = [f"rule-{i}-a", f"rule-{i}-b"]
        if detector and rng.random() < 0.7:
            tool = {"name": rng.choice(["Sonar", "Semgrep", "T"]),
                    "rules": [(rules[0], "Tool name A", rng.choice([None, "https://rules/a"]))] + ([(rules[0], "dup wins", "https://dup")] if rng.random() < 0.2 else [])}
        cm = {"name": f"synth-{i}", "summary": rng.choice(["S", "Summary é", ""]), "description": rng.choice(["D", "Long\ndescription", ""]),
              "refs": [(rng.choice(["https://r", "u"]), rng.choice([None, "", "ref d"])) for _ in range(rng.randrange(3))],
              "tool": tool, "detector": detector, "rules": rules, "dep": rng.choice([None, None, "Security", "DefusedXML"]),
              "skip": rng.random() < 0.1, "files": {}}
        for n, src in files.items():
            if not n.endswith(".py"):
                continue
            nlines = src.count("\n")
            findings = []
            if detector:
                for _ in range(rng.choice([0, 1, 1, 2, 3])):
                    findings.append((rng.choice(rules), rng.choice(["orig name", "msg"]), rng.choice([None, "https://orig"]), rng.randrange(1, 6)))
            findings.sort(key=lambda f: rules.index(f[0]))   # the order of file_context.results (per requested rule)
            mode = rng.choice(["done_changed", "done_changed", "done_changed", "done_same", "raise"])
            reqs = []
            for _ in range(rng.choice([0, 1, 1, 2, 3])):
                line = rng.choice([1, 2, 3, 4, 5]) if rng.random() < 0.9 else rng.choice([0, -1])
                desc = rng.choice(["changed", "dé", "x"]) if rng.random() < 0.92 else ""
                reqs.append((line, desc))
            req_lines = {l for l, _ in reqs}
            reported = []
            for k, fd in enumerate(findings):
                if fd[3] not in req_lines and rng.random() < 0.4:
                    reported.append((k, fd[3], rng.choice(["not fixable", "skipped"])))
            cm["files"][n] = {"findings": findings, "mode": mode, "reqs": reqs, "reported": reported,
                              "adds_dep": cm["dep"] is not None and rng.random() < 0.6}
        cms.append(cm)
    return {"files": files, "codemods": cms, "dry_run": rng.random() < 0.3}


def build_synthetic(plan):
    """Real codemod objects for the plan."""
    import libcst as cst
    from codemodder import dependency as depmod
    from codemodder.codemods.base_codemod import BaseCodemod, Metadata, RemediationCodemod, ReviewGuidance, ToolMetadata, ToolRule
    from codemodder.codemods.base_detector import BaseDetector
    from codemodder.codemods.libcst_transformer import LibcstResultTransformer, LibcstTransformerPipeline
    from codemodder.codetf import Finding, Reference, Rule
    from codemodder.result import LineInfo, Location, Result, ResultSet

    class Loc(Location):
        pass

    class Res(Result):
        def __hash__(self):
            return id(self)

    class PlanDetector(BaseDetector):
        def __init__(self, cm):
            self.cm = cm

        def apply(self, codemod_id, context):
            rs_ = ResultSet()
            for rel, fp in self.cm["files"].items():
                for (rule, name, url, line) in fp["findings"]:
                    rs_.add_result(Res(rule_id=rule, locations=[Loc(file=Path(rel), start=LineInfo(line, 1), end=LineInfo(line, 2))],
                                       finding=Finding(id=rule, rule=Rule(id=rule, name=name, url=url))))
            return rs_

    class PlanTransformer(LibcstResultTransformer):
        change_description = ""
        cm = None

        def transform_module_impl(self, tree):
            fc = self.file_context
            rel = str(fc.file_path.relative_to(fc.base_directory))
            fp = self.cm["files"].get(rel)
            if fp is None:
                return tree
            for (k, line, reason) in fp["reported"]:
                fc.add_unfixed_findings([fc.results[k].finding], reason, line)
            if fp["adds_dep"]:
                self.add_dependency(getattr(depmod, self.cm["dep"]))
            for (line, desc) in fp["reqs"]:
                self.report_change_for_line(line, desc)
            if fp["mode"] == "raise":
                raise RuntimeError("planned transformer failure")
            if fp["mode"] == "done_changed":
                return cst.parse_module(tree.code + "# verif\n")
            return tree

    class FixCodemod(BaseCodemod):
        origin = "verif"
        docs_module_path = "harness"

        def __init__(self, cm, **kw):
            super().__init__(**kw)
            self.cm = cm

        def get_files_to_analyze(self, context, results):
            return [p for p in context.find_and_fix_paths if p.suffix == ".py"]

        def _apply(self, context, rules):
            self.snapshot = core.read_tree(context.directory)     # the tree as this codemod finds it
            if self.cm["skip"]:
                return
            return super()._apply(context, rules)

    class RemCodemod(RemediationCodemod):
        origin = "verif"
        docs_module_path = "harness"

        def __init__(self, cm, **kw):
            super().__init__(**kw)
            self.cm = cm

        def _apply(self, context, rules):
            self.snapshot = core.read_tree(context.directory)     # the tree as this codemod finds it
            if self.cm["skip"]:
                return
            return super()._apply(context, rules)

    out = []
    for cm in plan["codemods"]:
        tool = None
        if cm["tool"]:
            tool = ToolMetadata(name=cm["tool"]["name"], rules=[ToolRule(id=i, name=n, url=u) for i, n, u in cm["tool"]["rules"]])
        md = Metadata(name=cm["name"], summary=cm["summary"], review_guidance=ReviewGuidance.MERGE_WITHOUT_REVIEW,
                      references=[Reference(url=u, description=d) for u, d in cm["refs"]], description=cm["description"], tool=tool)
        tr = LibcstTransformerPipeline(type("T_" + cm["name"].replace("-", "_"), (PlanTransformer,), {"cm": cm}))
        if cm["detector"]:
            out.append(RemCodemod(cm, metadata=md, detector=PlanDetector(cm), transformer=tr, requested_rules=list(cm["rules"])))
        else:
            out.append(FixCodemod(cm, metadata=md, transformer=tr))
    return out


def run_plan(ctx, plan, idx):
    """Execute the plan with the real orchestration; return (observed report dict, model case term, info)."""
    import libcst as cst
    from codemodder import codemodder as cmain
    from codemodder import dependency as depmod
    import codemodder.dependency_management as dmpkg
    from codemodder.codetf import CodeTF
    from codemodder.context import CodemodExecutionContext
    from codemodder.diff import create_diff_from_tree
    from codemodder.project_analysis.python_repo_manager import PythonRepoManager
    from codemodder.providers import load_providers

    root = ctx.scratch / f"plan{idx}"
    if root.exists():
        shutil.rmtree(root)
    root.mkdir(parents=True)
    core.write_tree(root, plan["files"])
    before = core.read_tree(root)
    repo_manager = PythonRepoManager(root)
    context = CodemodExecutionContext(root, plan["dry_run"], False, real_registry(), load_providers(), repo_manager, [], [], {}, 1)
    repo_manager.parse_project()
    codemods = build_synthetic(plan)
    writes = []
    real_write = dmpkg.DependencyManager.write

    def recording_write(self, dependencies, dry_run=False):
        cs = real_write(self, dependencies, dry_run)
        writes.append((self.dependencies_store.type.value, cs))
        return cs

    per_cm_writes = []
    dmpkg.DependencyManager.write = recording_write
    real_pd = CodemodExecutionContext.process_dependencies
    try:
        def pd(self, codemod_id):
            del writes[:]
            r = real_pd(self, codemod_id)
            per_cm_writes.append((codemod_id, list(writes)))
            return r
        CodemodExecutionContext.process_dependencies = pd
        cmain.apply_codemods(context, codemods)
    finally:
        dmpkg.DependencyManager.write = real_write
        CodemodExecutionContext.process_dependencies = real_pd
    results = context.compile_results(codemods)
    args = [str(root), "--output", "out.json"]
    codetf = CodeTF.build(context, 7, args, results)
    observed = json.loads(codetf.model_dump_json(exclude_none=True))

    # ---- the model's inputs -----------------------------------------------------------------
    no_files = not context.files_to_analyze
    writes_by_id = dict(per_cm_writes)
    nstores = len(repo_manager.package_stores)
    runs = []
    for cm, obj in zip(plan["codemods"], codemods):
        tool = "None"
        if cm["tool"]:
            tool = "(Some {| tm_name := %s; tm_rules := %s |})" % (
                cstr(cm["tool"]["name"]), clist([c_rule({"id": i, "name": n, "url": u}) for i, n, u in cm["tool"]["rules"]], "rule"))
        refs = clist(["(mk_reference Generated.Tables.report_ref_backfill %s %s)" % (cstr(u), ostr(d)) for u, d in cm["refs"]], "reference")
        codemod_t = "{| cm_id := %s; cm_summary := %s; cm_description := %s; cm_tool := %s; cm_refs := %s |}" % (
            cstr(obj.id), cstr(cm["summary"]), cstr(cm["description"]), tool, refs)
        files_t = "None"
        if not cm["skip"] and not no_files:
            det_results = obj.detector.apply(obj.name, context) if cm["detector"] else None
            if det_results is not None and not det_results:
                files_t = "None"
            else:
                todo = obj.get_files_to_analyze(context, det_results)
                if not todo:
                    files_t = "None"
                else:
                    frs = []
                    for p in todo:
                        rel = str(p.relative_to(root))
                        fp = cm["files"].get(rel) or {"findings": [], "mode": "done_same", "reqs": [], "reported": [], "adds_dep": False}
                        fobjs = []
                        if cm["detector"]:
                            for rule in cm["rules"]:
                                fobjs += [f for f in fp["findings"] if f[0] == rule]
                        # the transformer indexes file_context.results, i.e. the findings in rule order
                        ordered = fobjs
                        src = getattr(obj, "snapshot", before)[rel].decode("utf-8")
                        try:
                            tree = cst.parse_module(src)
                            parse_ok = True
                        except Exception:
                            tree, parse_ok = None, False

                        def fterm(f):
                            return c_finding({"id": f[0], "rule": {"id": f[0], "name": f[1], "url": f[2]}})
                        reported = []
                        for (k, line, reason) in fp["reported"]:
                            f = ordered[k]
                            reported.append(c_unfixed({"id": f[0], "rule": {"id": f[0], "name": f[1], "url": f[2]}, "path": rel,
                                                       "lineNumber": line, "reason": reason}))
                        reqs = []
                        for (line, desc) in fp["reqs"]:
                            at = [f for f in ordered if f[3] == line]
                            reqs.append("{| rq_line := %s; rq_desc := %s; rq_findings := %s |}" % (cZ(line), cstr(desc), clist([fterm(f) for f in at], "finding")))
                        if fp["mode"] == "raise":
                            raw = "TRaise"
                        else:
                            diff = ""
                            if parse_ok and fp["mode"] == "done_changed":
                                diff = create_diff_from_tree(tree, cst.parse_module(tree.code + "# verif\n"))
                            raw = "(TDone %s %s)" % (clist(reqs, "change_req"), cstr(diff))
                        deps = clist(["{| dp_name := %s; dp_desc := %s |}" % (cstr(getattr(depmod, cm["dep"]).name), cstr(""))]
                                     if fp["adds_dep"] else [], "dep")
                        frs.append("{| fr_path := %s; fr_has_results := %s; fr_findings := %s; fr_parse_ok := %s; fr_reported := %s; "
                                   "fr_deps := %s; fr_raw := %s |}" % (cstr(rel), cbool(cm["detector"]), clist([fterm(f) for f in ordered], "finding"),
                                                                       cbool(parse_ok), clist(reported, "unfixed"), deps, raw))
                    files_t = "(Some %s)" % clist(frs, "file_run")
        ws = writes_by_id.get(obj.id, [])
        stores = []
        for (ty, cs) in ws:
            stores.append(cpair(cstr(ty), copt(None if cs is None else c_changeset(json.loads(cs.model_dump_json(exclude_none=True))), "changeset")))
        if not ws and nstores:
            stores = [cpair(cstr("?"), "(None : option changeset)")] * nstores     # never consulted: no dependency was requested
        note_ok = note_fail = ""
        if cm["dep"]:
            dep = getattr(depmod, cm["dep"])
            okty = next((ty for ty, cs in ws if cs is not None), None)
            store = next((s for s in repo_manager.package_stores if okty and s.type.value == okty), None)
            if store is not None:
                note_ok = depmod.build_dependency_notification(store.type.value, dep)
            note_fail = depmod.build_failed_dependency_notification(dep)
        runs.append("{| cr_cm := %s; cr_pipe := PLibcst; cr_files := %s; cr_stores := %s; cr_note_ok := %s; cr_note_fail := %s |}" % (
            codemod_t, files_t, clist(stores, "str * option changeset"), cstr(note_ok), cstr(note_fail)))
    from codemodder import __version__
    iv = "{| iv_version := %s; iv_command := %s; iv_args := %s; iv_elapsed := 7; iv_dir := %s; iv_absdir := %s |}" % (
        cstr(__version__), cstr(os.path.basename(sys.argv[0])), clist([cstr(a) for a in args], "str"), cstr(str(root)), cstr(str(root.absolute())))
    case = cpair(iv, cbool(no_files), clist(runs, "cm_run"), cjson(observed))
    info = {"root": root, "before": before, "ids": [c.id for c in codemods], "writes": per_cm_writes,
            "codemod_info": {c.id: ((cm["tool"] or {}).get("name"), list(cm["rules"]))
                             for c, cm in zip(codemods, plan["codemods"])}}
    return observed, case, info


def plan_replay(plan):
    return {"op": "synthetic-run", "plan": plan}


CORPUS_PLANS = [
    # zero codemods, zero files
    {"files": {}, "codemods": [], "dry_run": False},
    {"files": {"a.py": "x = 1\n"}, "codemods": [], "dry_run": False},
    # witness of C15_failed_changed_refuted_manifest: setup.py fails in the transformer, a.py asks for a dependency,
    # the dependency manager rewrites setup.py
    {"files": {"a.py": "x = 1\ny = 2\n",
               "setup.py": 'from setuptools import setup\n\nsetup(\n    name="p",\n    install_requires=[\n        "requests",\n    ],\n)\n'},
     "dry_run": False,
     "codemods": [{"name": "synth-0", "summary": "S", "description": "D", "refs": [], "tool": None, "detector": False, "rules": [],
                   "dep": "Security", "skip": False,
                   "files": {"a.py": {"findings": [], "mode": "done_changed", "reqs": [(1, "changed")], "reported": [], "adds_dep": True},
                             "setup.py": {"findings": [], "mode": "raise", "reqs": [], "reported": [], "adds_dep": False}}}]},
    # failed file with findings: unfixedFindings[].lineNumber = 0 (allowed by the schema, C15_failed_line0_allowed)
    {"files": {"a.py": "def f(:\n"}, "dry_run": False,
     "codemods": [{"name": "synth-0", "summary": "S", "description": "D", "refs": [("u", None)],
                   "tool": {"name": "Sonar", "rules": [("rule-0-a", "N", None)]}, "detector": True, "rules": ["rule-0-a"], "dep": None, "skip": False,
                   "files": {"a.py": {"findings": [("rule-0-a", "orig", None, 1)], "mode": "done_changed", "reqs": [(1, "c")], "reported": [], "adds_dep": False}}}]},
]


def run_synthetic(ctx):
    n = 40 if ctx.quick() else 300
    if getattr(ctx, "deep", False):
        n *= 2
    plans = [copy.deepcopy(p) for p in CORPUS_PLANS]
    # the manifest family, swept: every kind x text variant with a codemod that asks for a dependency (real repo manager and
    # dependency writers); quick: one written run each + a third of them dry, thorough: four each
    k = 0
    for kind, variants in sorted(manifest_variants().items()):
        for vname, text in variants:
            # every variant with a real write; a random third (thorough: all) also as a dry run
            modes = [False] + ([True] if (not ctx.quick() or ctx.rng.random() < 0.34) else []) + ([False, True] if not ctx.quick() else [])
            for dry in modes:
                k += 1
                plan = gen_plan(ctx.rng, force={"manifest": kind, "manifest_text": text, "ncm": ctx.rng.choice([1, 1, 2]), "nfiles": ctx.rng.choice([0, 1, 2])})
                plan["files"]["app.py"] = GOOD_SRC[0]
                cm = plan["codemods"][0]
                cm["dep"] = ["Security", "DefusedXML"][k % 2]
                cm["skip"] = False
                cm["files"]["app.py"] = {"findings": [("rule-0-a", "orig name", None, 1)] if cm["detector"] else [], "mode": "done_changed",
                                         "reqs": [(1, "changed")], "reported": [], "adds_dep": True}
                plan["dry_run"] = dry
                plan["label"] = f"manifest:{kind}:{vname}" + (":dry" if dry else "")
                plans.append(plan)
    for i in range(n):
        plans.append(gen_plan(ctx.rng))
    cases, metas = [], []
    logger_quiet()
    for i, plan in enumerate(plans):
        plan = json.loads(json.dumps(plan))   # tuples -> lists, as in a replay file
        for cm in plan["codemods"]:
            for fp in cm["files"].values():
                fp["findings"] = [tuple(f) for f in fp["findings"]]
                fp["reqs"] = [tuple(r) for r in fp["reqs"]]
                fp["reported"] = [tuple(r) for r in fp["reported"]]
            if cm["tool"]:
                cm["tool"]["rules"] = [tuple(r) for r in cm["tool"]["rules"]]
            cm["refs"] = [tuple(r) for r in cm["refs"]]
        try:
            observed, case, info = run_plan(ctx, plan, i)
        except Exception as e:  # the run did not complete: outside C15's quantifier, but unexpected for the synthetic codemods
            ctx.mismatch("synthetic run", f"the real orchestration raised {type(e).__name__}: {e}", plan_replay(plan))
            continue
        cases.append(case)
        metas.append((plan, observed))
        nontrivial = any(r["changeset"] or r.get("failedFiles") for r in observed["results"])
        ctx.count("synthetic:codemods=%d" % len(plan["codemods"]))
        for cid, ws in info["writes"]:
            for ty, cs in ws:
                ctx.count(f"synthetic:manifest_write:{ty}:" + ("changeset" if cs is not None else "none"))
        ctx.count("synthetic:" + ("nontrivial" if nontrivial else "trivial"))
        for r in observed["results"]:
            ctx.count("synthetic:changesets", len(r["changeset"]))
            ctx.count("synthetic:failed_files", len(r.get("failedFiles") or []))
            ctx.count("synthetic:unfixed", len(r.get("unfixedFindings") or []))
        ctx.case({"synthetic_plan": {"files": sorted(plan["files"]), "codemods": [c["name"] for c in plan["codemods"]]}},
                 nontrivial_key=("plan", json.dumps(plan, sort_keys=True, default=str)) if nontrivial else None, sample=nontrivial)
        # spec vs implementation, on the observed report
        for p in chk.check_report(observed, info["root"], info["ids"], before=info["before"], codemod_info=info["codemod_info"]):
            ctx.violation(p.split(":", 1)[0], "synthetic run: " + p, dict(plan_replay(plan), observed=observed, expected="no problem reported by c15_checker.check_report"))
        # oracle contract of the dependency writers (premise run_ok)
        for cid, ws in info["writes"]:
            for ty, cs in ws:
                if cs is not None:
                    d = json.loads(cs.model_dump_json(exclude_none=True))
                    probs = chk.check_report({"run": observed["run"], "results": [{"codemod": cid, "summary": "", "description": "", "references": [], "changeset": [d]}]},
                                             info["root"], None, before=info["before"], codemod_info={})
                    if probs:
                        ctx.notes.append(f"dependency writer contract (run_ok) broken for {ty}: {probs[:2]}")
    bad = core.eval_bad_indices(ctx, "c15_run", IMPORTS, "run_case", cases, ["run_model_ok", "run_schema_ok"], chunk=25)
    for i in bad["run_model_ok"]:
        plan, observed = metas[i]
        ctx.mismatch("apply_codemods/process_results/process_dependencies/compile_results/CodeTF.build vs Model.Report.report",
                     "the report of a synthetic run differs from the model's", dict(plan_replay(plan), observed=observed))
    for i in bad["run_schema_ok"]:
        plan, observed = metas[i]
        if not chk.schema_errors(observed):
            ctx.mismatch("Spec.ReportSpec.schema_ok vs jsonschema(vendor/codetf.schema.json)", "Coq rejects a report that jsonschema accepts",
                         dict(plan_replay(plan), observed=observed))


def logger_quiet():
    import logging
    logging.getLogger("codemodder").setLevel(logging.CRITICAL)
    logging.getLogger().setLevel(logging.CRITICAL)


# ------------------------------------------------------------------------------------------------
# (1d) XML pipeline (public API; no shipped codemod uses it): the witnesses of C15_xml_description_none
# ------------------------------------------------------------------------------------------------
def run_xml(ctx):
    import functools
    from codemodder.codemods.xml_transformer import ElementAttributeXMLTransformer, XMLTransformerPipeline
    from codemodder.file_context import FileContext
    d = ctx.scratch / "xml"
    d.mkdir(exist_ok=True)
    base = '<?xml version="1.0" encoding="utf-8"?>\n<configuration><httpCookies requireSSL="%s"></httpCookies></configuration>'
    for name, value, described in [("already.xml", "true", False), ("change.xml", "false", False), ("described.xml", "true", True)]:
        f = d / name
        f.write_text(base % value)
        klass = ElementAttributeXMLTransformer
        if described:
            klass = type("Described", (ElementAttributeXMLTransformer,), {"change_description": "Set requireSSL"})
        pipe = XMLTransformerPipeline(functools.partial(klass, name_attributes_map={"httpCookies": {"requireSSL": "true"}}))
        fc = FileContext(d, f, [], [], None)
        cs = pipe.apply(types.SimpleNamespace(directory=d, dry_run=True), fc, None)
        ctx.case({"xml": name, "changeset": None if cs is None else cs.model_dump(mode="json")}, nontrivial_key=("xml", name), sample=False)
        ctx.count("xml:" + ("changeset" if cs else "none"))
        replay = {"op": "xml", "file": name, "content": base % value, "described": described}
        variant = (ctx.tables or {}).get("report_xml_apply")
        if cs is None:
            if variant == "XmlDescOrNoneNoDiffGuard" and value == "true":
                ctx.mismatch("XMLTransformerPipeline.apply vs Model.Report.xml_file", "no changeset although the table says there is no diff guard", replay)
            continue
        if not cs.diff:
            ctx.violation(K_XML_DIFF, f"XMLTransformerPipeline.apply returns a ChangeSet with an empty diff for {name} "
                          "(attribute already has the wanted value)", dict(replay, observed=cs.model_dump(mode="json"), expected="no changeset, or a non-empty diff"))
        if any(c.description is None for c in cs.changes) and not described:
            ctx.violation(K_XML_DESC, "XMLTransformer.add_change builds Change(description=None) when the transformer class has no change_description",
                          dict(replay, observed=cs.model_dump(mode="json"), expected="every change has a non-empty description"))
        if described and any(not c.description for c in cs.changes):
            ctx.mismatch("XMLTransformer.add_change vs Model.Report.xml_desc", "a described transformer produced a change without description", replay)


# ------------------------------------------------------------------------------------------------
# (1e) regex pipeline (public API; no shipped codemod uses it): Model.Report.regex_file / regex_aborts
# ------------------------------------------------------------------------------------------------
def run_regex(ctx):
    import re as _re
    from codemodder.codemods.regex_transformer import RegexTransformerPipeline
    from codemodder.codetf import Finding, Rule
    from codemodder.diff import create_diff
    from codemodder.file_context import FileContext
    from codemodder.result import LineInfo, Location, Result

    class Loc(Location):
        pass

    class Res(Result):
        pass

    d = ctx.scratch / "regex"
    d.mkdir(exist_ok=True)
    texts = {"match.txt": b"keep\nsecret=1\nkeep\nsecret=2\n", "nomatch.txt": b"keep\nkeep\n", "one.txt": b"secret=3",
             "undecodable.txt": b"secret=\xe9\xff\n", "\u00fcn\u00ef.txt": "secret=\u00e9\n".encode()}
    cases, ctx_cases, metas = [], [], []
    for cd in ["Masked a secret", ""]:
        for name, data in texts.items():
            for with_findings in (False, True):
                f = d / name
                f.write_bytes(data)
                fnds = [("r-x", "orig", None, 2), ("r-y", "orig y", "https://o", 4)] if with_findings else []
                results = [Res(rule_id=r, locations=[Loc(file=Path(name), start=LineInfo(l, 1), end=LineInfo(l, 2))],
                               finding=Finding(id=r, rule=Rule(id=r, name=n, url=u))) for r, n, u, l in fnds] if with_findings else None
                fc = FileContext(d, f, [], [], results)
                pipe = RegexTransformerPipeline(_re.compile(r"secret=\w+"), "secret=***", cd)
                raised, cs = False, None
                try:
                    cs = pipe.apply(types.SimpleNamespace(directory=d, dry_run=True), fc, results)
                except Exception as e:
                    raised = type(e).__name__
                # the model's inputs
                try:
                    lines = data.decode("utf-8").splitlines(keepends=True)
                    ok = True
                except UnicodeDecodeError:
                    lines, ok = [], False
                new = [_re.sub(r"secret=\w+", "secret=***", l) for l in lines]
                changed = [i + 1 for i, (a, b) in enumerate(zip(lines, new)) if a != b]

                def fterm(x):
                    return c_finding({"id": x[0], "rule": {"id": x[0], "name": x[1], "url": x[2]}})
                reqs = ["{| rq_line := %s; rq_desc := %s; rq_findings := %s |}" % (cZ(l), cstr(""), clist([fterm(x) for x in fnds if x[3] == l], "finding"))
                        for l in changed]
                diff = create_diff(lines, new) if ok else ""
                fr = ("{| fr_path := %s; fr_has_results := %s; fr_findings := %s; fr_parse_ok := %s; fr_reported := []; fr_deps := []; "
                      "fr_raw := (TDone %s %s) |}" % (cstr(name), cbool(with_findings), clist([fterm(x) for x in fnds], "finding"), cbool(ok),
                                                      clist(reqs, "change_req"), cstr(diff)))
                obs_cs = None if cs is None else json.loads(cs.model_dump_json(exclude_none=True))
                cases.append(cpair(cstr(cd), fr, cbool(bool(raised)), copt(None if obs_cs is None else cjson(obs_cs), "json")))
                unf = [json.loads(u.model_dump_json(exclude_none=True)) for u in fc.unfixed_findings]
                ctx_cases.append(cpair(cstr(cd), fr, cbool(bool(fc.failures)), clist([cjson(u) for u in unf], "json")))
                meta = {"op": "regex", "file": name, "change_description": cd, "with_findings": with_findings, "raised": raised,
                        "changeset": obs_cs, "failures": [str(x) for x in fc.failures], "unfixed": unf}
                metas.append(meta)
                ctx.count("regex:" + ("raised" if raised else "changeset" if cs else "failed" if fc.failures else "none"))
                ctx.case(meta, nontrivial_key=("regex", name, cd, with_findings) if (cs or fc.failures or raised) else None)
                # spec: what the pipeline hands to the report is well formed
                if cs is not None:
                    probs = chk.check_report({"run": {"vendor": "v", "tool": "t", "version": "1", "commandLine": "c", "elapsed": 1, "directory": str(d), "sarifs": []},
                                              "results": [{"codemod": "regex", "summary": "", "description": "", "references": [], "changeset": [obs_cs],
                                                           "failedFiles": [str(x) for x in fc.failures]}]}, d, None, before={name: data}, codemod_info={})
                    for p_ in probs:
                        ctx.violation(p_.split(":", 1)[0], "regex pipeline: " + p_, dict(meta, expected="a well-formed changeset"))
    bad = core.eval_bad_indices(ctx, "c15_regex", IMPORTS, "regex_case", cases, ["regex_model_ok"])
    for i in bad["regex_model_ok"]:
        ctx.mismatch("RegexTransformerPipeline.apply vs Model.Report.regex_file/regex_aborts", f"differs on {metas[i]['file']} "
                     f"(change_description={metas[i]['change_description']!r}, raised={metas[i]['raised']})", metas[i])
    bad = core.eval_bad_indices(ctx, "c15_regex_ctx", IMPORTS, "regex_ctx_case", ctx_cases, ["regex_ctx_model_ok"])
    for i in bad["regex_ctx_model_ok"]:
        if not metas[i]["raised"]:
            ctx.mismatch("RegexTransformerPipeline.apply (FileContext) vs Model.Report.regex_file", f"failures/unfixed findings differ on {metas[i]['file']}", metas[i])


# ------------------------------------------------------------------------------------------------
# (2) end-to-end
# ------------------------------------------------------------------------------------------------
SNIPPETS = {
    "set": "x = set([1, 2, 3])\n",
    "fstr": "y = f'plain'\n",
    "mutable": "def g(a=[]):\n    return a\n",
    "assert": "assert (1 == 1, 'msg')\n",
    "requests": "import requests\nrequests.get('https://example.com', verify=False)\n",
    "nothing": "print('hello')\n",
    "unicode": "# commentaire é 日本\nz = set(['é', '日本'])\n",
    "hasattr": "hasattr(x, '__call__')\n",
}
LIBCST_CODEMODS = ["pixee:python/use-set-literal", "pixee:python/remove-unnecessary-f-str", "pixee:python/fix-mutable-params",
                   "pixee:python/fix-assert-tuple", "pixee:python/fix-hasattr-call"]


# sources on which the dependency-adding codemods fire (each adds one requirement to the project's manifest)
DEP_SOURCES = {
    "pixee:python/url-sandbox": {"app.py": "import requests\n\nrequests.get(host)\n"},
    "pixee:python/use-defusedxml": {"app.py": "from xml.etree.ElementTree import parse\n\net = parse('user_input.xml')\n"},
    "pixee:python/harden-pickle-load": {"app.py": "import pickle\n\ndata = pickle.load(fh)\n"},
    "pixee:python/sandbox-process-creation": {"app.py": "import subprocess\n\nsubprocess.run(cmd)\n"},
}
REQS = "requests>=2.0\nflask\n"
SETUP_PY = 'from setuptools import setup\n\nsetup(\n    name="p",\n    install_requires=[\n        "requests",%s\n    ],\n)%s'
SETUP_CFG = "[metadata]\nname = p\n%s\n[options]\ninstall_requires =\n    requests\n    flask%s"
PYPROJECT = '[project]\nname = "p"\nversion = "1"\ndependencies = [\n    "requests",%s\n]\n%s'
TAILS = [("plain", "\n"), ("blank1", "\n\n"), ("blank3", "\n\n\n\n"), ("ws-last", "\n   "), ("ws-line", "\n  \t\n"), ("no-newline", ""),
         ("comment-tail", "\n# trailing comment\n\n")]


def manifest_variants():
    """kind -> [(variant name, text)]: shapes of the manifest's text around the place where a requirement is added."""
    out = {"requirements.txt": [], "setup.py": [], "setup.cfg": [], "pyproject.toml": []}
    for name, tail in TAILS:
        out["requirements.txt"].append((name, REQS.rstrip("\n") + tail))
        out["setup.py"].append((name, SETUP_PY % ("", tail)))
        out["setup.cfg"].append((name, SETUP_CFG % ("", tail)))
        out["pyproject.toml"].append((name, PYPROJECT % ("", tail)))
    out["requirements.txt"] += [("comments", "# pinned\nrequests>=2.0  # http\n\n# web\nflask\n"),
                                ("sections", "-r base.txt\n\n# section one\nrequests>=2.0\n\n# section two\nflask\n\n"),
                                ("empty", ""), ("only-blank", "\n\n")]
    out["setup.py"] += [("comments", SETUP_PY % ("  # http", "\n# end\n")),
                        ("two-lists", 'from setuptools import setup\n\nsetup(\n    name="p",\n    setup_requires=[\n        "wheel",\n    ],\n'
                                      '    install_requires=[\n        "requests",\n    ],\n)\n\n')]
    out["setup.cfg"] += [("comments", SETUP_CFG % ("# about\n", "\n\n# end\n")),
                         ("sections", "[metadata]\nname = p\n\n[options]\npython_requires = >=3.8\ninstall_requires =\n    requests\n    flask\n\n"
                                      "[options.extras_require]\ntest =\n    pytest\n\n")]
    out["pyproject.toml"] += [("comments", PYPROJECT % ("  # http", "\n# end\n\n")),
                              ("sections", '[build-system]\nrequires = ["setuptools"]\n\n' + PYPROJECT % ("", "\n[tool.black]\nline-length = 88\n\n")),
                              ("poetry", '[tool.poetry]\nname = "p"\n\n[tool.poetry.dependencies]\npython = "^3.9"\nrequests = "^2.0"\n\n\n')]
    return out


def manifest_scenarios(ctx):
    """(kind, variant, text, dependency-adding codemod, dry-run?) — quick: one random variant per kind (the whole family is swept
    in-process by run_synthetic on every run); thorough: every variant twice (second codemod, dry-run flipped)."""
    rng = ctx.rng
    cms = sorted(DEP_SOURCES)
    out, k = [], rng.randrange(len(cms))
    for kind, variants in sorted(manifest_variants().items()):
        if ctx.quick():
            variants = rng.sample(variants, 1)
        for vname, text in variants:
            k += 1
            out.append((kind, vname, text, cms[k % len(cms)], rng.random() < 0.34))
            if not ctx.quick():
                out.append((kind, vname, text, cms[(k + 1) % len(cms)], not out[-1][4]))
    return out


def sonar_issue(key, rule, path, line, start, end, message="m"):
    return {"key": key, "rule": rule, "status": "OPEN", "component": f"proj:{path}", "message": message,
            "textRange": {"startLine": line, "endLine": line, "startOffset": start, "endOffset": end}}


def scenarios(ctx):
    rng = ctx.rng
    sc = []

    def add(name, files, args, **kw):
        sc.append(dict(name=name, files=files, args=args, **kw))

    good = {"a.py": SNIPPETS["set"] + SNIPPETS["fstr"], "b.py": SNIPPETS["mutable"], "pkg/c.py": SNIPPETS["nothing"]}
    add("zero-codemods", good, ["--codemod-include", "doesnotexist"])
    add("zero-files", {}, ["--codemod-include", ",".join(LIBCST_CODEMODS[:3])])
    add("zero-py-files", {"README.md": "x\n"}, ["--codemod-include", ",".join(LIBCST_CODEMODS[:2])])
    add("several-codemods", good, ["--codemod-include", ",".join(LIBCST_CODEMODS)])
    add("syntax-error", dict(good, **{"bad.py": "def f(:\n", "pkg/bad2.py": "x = (\n"}), ["--codemod-include", ",".join(LIBCST_CODEMODS[:3])])
    add("dry-run", good, ["--codemod-include", ",".join(LIBCST_CODEMODS[:3]), "--dry-run"], dry_run=True)
    add("non-ascii", {"ünï/é.py": SNIPPETS["unicode"], "日本.py": SNIPPETS["unicode"] + SNIPPETS["fstr"]},
        ["--codemod-include", ",".join(LIBCST_CODEMODS[:2])])
    dep_src = {"app.py": "import requests\n\nrequests.get(host)\n", "other.py": SNIPPETS["set"]}
    add("dependency-with-manifest", dict(dep_src, **{"requirements.txt": "requests==2.31.0\n"}),
        ["--codemod-include", "pixee:python/url-sandbox,pixee:python/use-set-literal"])
    add("dependency-without-manifest", dep_src, ["--codemod-include", "pixee:python/url-sandbox,pixee:python/use-set-literal"])
    add("dependency-dry-run", dict(dep_src, **{"requirements.txt": "requests==2.31.0\n"}),
        ["--codemod-include", "pixee:python/url-sandbox", "--dry-run"], dry_run=True)
    # the manifest family: every kind of manifest x shape variants of its text, with a dependency-adding codemod
    for (kind, vname, text, dcm, dry) in manifest_scenarios(ctx):
        add(f"manifest-{kind}-{vname}-{dcm.split('/')[-1]}" + ("-dry" if dry else ""),
            dict(DEP_SOURCES[dcm], **{kind: text, "other.py": SNIPPETS["set"]}),
            ["--codemod-include", dcm + ",pixee:python/use-set-literal"] + (["--dry-run"] if dry else []), dry_run=dry, wants_manifest=kind)
    # SAST: Sonar issues file (two codemods with findings, one fixed + one in a file that does not parse)
    s_files = {"t.py": "assert (1 == 1, 'msg')\nx = 1\n", "n.py": "import numpy as np\n\nif a == np.nan:\n    pass\n", "broken.py": "assert (1,\n"}
    issues = {"issues": [sonar_issue("K1", "python:S5905", "t.py", 1, 7, 22), sonar_issue("K2", "python:S6725", "n.py", 3, 3, 14),
                         sonar_issue("K3", "python:S5905", "broken.py", 1, 7, 10)]}
    keys = {"t.py": ["K1"], "n.py": ["K2"], "broken.py": ["K3"]}
    add("sonar-issues", s_files, ["--sonar-issues-json", "@issues.json"], aux={"issues.json": json.dumps(issues)}, finding_keys=keys)
    add("sonar-issues-include", s_files, ["--sonar-issues-json", "@issues.json", "--codemod-include",
                                          "sonar:python/fix-assert-tuple,sonar:python/numpy-nan-equality"], aux={"issues.json": json.dumps(issues)},
        finding_keys=keys)
    # SAST: Semgrep SARIF
    yline = 'data = yaml.load("a: 1", Loader=yaml.Loader)'
    y_files = {"y.py": "import yaml\n" + yline + "\n", "z.py": SNIPPETS["nothing"]}
    rule = "python.lang.security.deserialization.avoid-pyyaml-load.avoid-pyyaml-load"
    sarif = {"version": "2.1.0", "runs": [{"tool": {"driver": {"name": "Semgrep OSS", "rules": [{"id": rule}]}},
                                           "results": [{"ruleId": rule, "message": {"text": "m"},
                                                        "locations": [{"physicalLocation": {"artifactLocation": {"uri": "y.py"},
                                                                                            "region": {"startLine": 2, "startColumn": yline.index("yaml.load") + 1,
                                                                                                       "endLine": 2, "endColumn": len(yline) + 1,
                                                                                                       "snippet": {"text": yline}}}}]}]}]}
    add("semgrep-sarif", y_files, ["--sarif", "@semgrep.sarif"], aux={"semgrep.sarif": json.dumps(sarif)})
    # random snippet projects
    for i in range(4 if ctx.quick() else 30):
        files = {}
        for j in range(rng.randrange(1, 5)):
            files[rng.choice(["m%d.py", "pkg/m%d.py", "é/m%d.py"]) % j] = "".join(SNIPPETS[k] for k in rng.sample(sorted(SNIPPETS), rng.randrange(1, 4)))
        if rng.random() < 0.3:
            files["broken%d.py" % i] = rng.choice(BAD_SRC)
        cms = rng.sample(LIBCST_CODEMODS, rng.randrange(1, len(LIBCST_CODEMODS) + 1))
        extra = ["--dry-run"] if rng.random() < 0.3 else []
        add(f"random-{i}", files, ["--codemod-include", ",".join(cms)] + extra, dry_run=bool(extra))
    return sc


def run_scenario(ctx, sc, idx):
    root = ctx.scratch / f"e2e{idx}" / "proj"
    root.mkdir(parents=True)
    core.write_tree(root, sc["files"])
    aux = root.parent / "aux"
    aux.mkdir()
    for k, v in (sc.get("aux") or {}).items():
        (aux / k).write_text(v)
    out = root.parent / "report.json"
    args = [str(root), "--output", str(out)] + [str(aux / a[1:]) if a.startswith("@") else a for a in sc["args"]]
    r = core.run_cli(args, cwd=str(root.parent))
    after = core.read_tree(root)
    return {"sc": sc, "root": root, "out": out, "run": r, "after": after}


def abbreviate(v):
    """Shorten long strings (same schema verdict: non-emptiness is kept) so that the Coq side stays small."""
    if isinstance(v, str):
        return v if len(v) <= 24 else v[:24]
    if isinstance(v, list):
        return [abbreviate(x) for x in v]
    if isinstance(v, dict):
        return {k: abbreviate(x) for k, x in v.items()}
    return v


def mutate(rng, doc):
    """One random structural corruption of a report (for the agreement jsonschema <-> schema_ok)."""
    doc = copy.deepcopy(doc)
    nodes = []

    def walk(v, parent, key):
        nodes.append((v, parent, key))
        if isinstance(v, dict):
            for k in list(v):
                walk(v[k], v, k)
        elif isinstance(v, list):
            for i, x in enumerate(v):
                walk(x, v, i)
    walk(doc, None, None)
    v, parent, key = rng.choice(nodes[1:] or nodes)
    if parent is None:
        return {"results": []}
    op = rng.choice(["delete", "retype", "extra", "zero", "empty"])
    if op == "delete":
        if isinstance(parent, dict):
            del parent[key]
        else:
            parent.pop(key)
    elif op == "retype":
        parent[key] = rng.choice([None, True, 3, "s", [], {}, -1, 0, ""])
    elif op == "extra" and isinstance(v, dict):
        v["unexpectedKey"] = 1
    elif op == "zero" and isinstance(v, int) and not isinstance(v, bool):
        parent[key] = rng.choice([0, -1, 1])
    elif op == "empty":
        parent[key] = "" if isinstance(v, str) else ([] if isinstance(v, list) else v)
    return doc


def run_e2e(ctx):
    scs = scenarios(ctx)
    with concurrent.futures.ThreadPoolExecutor(max_workers=min(12, core.NCPU)) as ex:
        outs = list(ex.map(lambda p: run_scenario(ctx, p[1], p[0]), enumerate(scs)))
    ctx.cli_runs += len(outs)
    docs = []
    for o in outs:
        sc, r = o["sc"], o["run"]
        replay = {"op": "cli", "scenario": sc["name"], "project": core.b64tree(sc["files"]), "argv": sc["args"], "aux": sc.get("aux") or {}}
        ctx.count("e2e:" + sc["name"].split("-")[0])
        if sc["name"].startswith("manifest-"):
            ctx.count("e2e:manifest_variant:" + sc["name"].split("-", 1)[1].rsplit("-pixee", 1)[0])
        if r["rc"] != 0:
            # outside the quantifier of C15 (the CLI must return 0); the scenarios are built to complete
            ctx.notes.append(f"e2e scenario {sc['name']} exited with {r['rc']}: {r['stderr'][-300:]}")
            ctx.mismatch("e2e scenario completes", f"scenario {sc['name']} exited with status {r['rc']}", dict(replay, stderr=r["stderr"][-800:]))
            continue
        if not o["out"].exists():
            ctx.violation("kf_c15_no_report", f"scenario {sc['name']}: exit 0 with --output but no report file", dict(replay, expected="a report file"))
            continue
        try:
            rep = json.loads(o["out"].read_text(encoding="utf-8"))
        except Exception as e:
            ctx.violation(chk.K_SCHEMA, f"scenario {sc['name']}: the report is not JSON: {e}", dict(replay, expected="valid JSON"))
            continue
        executed = chk.executed_ids_from_log(r["stdout"], r["stderr"])
        selected = chk.selected_ids_from_log(r["stdout"], r["stderr"])
        scanned_none = "no files to scan" in (r["stdout"] + r["stderr"])
        ids = selected if (scanned_none or not executed) else executed
        if executed and executed != selected:
            ctx.violation(chk.K_ORDER, f"scenario {sc['name']}: executed {executed} but selected {selected}", dict(replay, expected="same lists"))
        problems = chk.check_report(rep, o["root"], ids, before={k: (v.encode() if isinstance(v, str) else v) for k, v in sc["files"].items()},
                                    cwd=str(o["root"].parent))
        for p in problems:
            ctx.violation(p.split(":", 1)[0], f"scenario {sc['name']}: {p}", dict(replay, observed=core.normalise_report(rep), expected="no problem reported by check_report"))
        # SAST results carry the FINDING identifiers: the ids reported for a file are ids of the tool's findings in that file
        if sc.get("finding_keys"):
            for x in rep["results"]:
                got = [(cs["path"], fd) for cs in x.get("changeset", []) for ch in cs.get("changes", []) for fd in ch.get("findings") or []]
                got += [(u.get("path"), u) for u in x.get("unfixedFindings") or []]
                for path, fd in got:
                    if fd.get("id") not in sc["finding_keys"].get(path, []):
                        same = fd.get("id") == (fd.get("rule") or {}).get("id")
                        ctx.violation(K_FINDING_ID if same else chk.K_SAST,
                                      f"scenario {sc['name']}: {x['codemod']}: finding reported for {path} has id {fd.get('id')!r}, the tool's findings "
                                      f"there are {sc['finding_keys'].get(path)}" + (" (the rule id is reported as the finding id)" if same else ""),
                                      dict(replay, observed=core.normalise_report(rep), expected="findings[].id is the key of the Sonar issue"))
        nontrivial = any(x.get("changeset") or x.get("failedFiles") for x in rep["results"])
        for x in rep["results"]:
            ctx.count("e2e:results")
            ctx.count("e2e:changesets", len(x.get("changeset") or []))
            ctx.count("e2e:failed_files", len(x.get("failedFiles") or []))
            ctx.count("e2e:unfixed_findings", len(x.get("unfixedFindings") or []))
            ctx.count("e2e:sast_results", 1 if x.get("detectionTool") else 0)
        ctx.case({"scenario": sc["name"], "results": len(rep["results"]), "problems": problems[:3]},
                 nontrivial_key=("e2e", sc["name"], json.dumps(sc["files"], sort_keys=True), sc["args"]) if nontrivial else None, sample=nontrivial)
        # scenario-specific expectations (the scenario must exercise what it is for)
        want = {"sonar-issues": "sast", "sonar-issues-include": "sast", "semgrep-sarif": "sast", "syntax-error": "failed",
                "dependency-with-manifest": "manifest"}.get(sc["name"])
        if want == "sast" and not any(x.get("detectionTool") and x.get("changeset") for x in rep["results"]):
            ctx.notes.append(f"scenario {sc['name']} produced no SAST changeset (generator drift)")
        if want == "failed" and not any(x.get("failedFiles") for x in rep["results"]):
            ctx.notes.append(f"scenario {sc['name']} produced no failed file (generator drift)")
        if want == "manifest" and not any(cs["path"] == "requirements.txt" for x in rep["results"] for cs in x.get("changeset", [])):
            ctx.notes.append(f"scenario {sc['name']} did not rewrite the manifest (generator drift)")
        if sc.get("wants_manifest"):
            hit = any(cs["path"] == sc["wants_manifest"] for x in rep["results"] for cs in x.get("changeset", []))
            ctx.count("e2e:manifest_changeset:" + sc["wants_manifest"] + (":yes" if hit else ":no"))
        docs.append((sc["name"], rep))
    # agreement of the Coq transcription with jsonschema: the real reports (abbreviated) and corruptions of them
    cases, metas = [], []
    for name, rep in docs:
        a = abbreviate(rep)
        variants = [a] + [mutate(ctx.rng, a) for _ in range(6 if ctx.quick() else 40)]
        for v in variants:
            try:
                term = cjson(v)
            except ValueError:
                continue
            ok = not chk.schema_errors(v)
            cases.append(cpair(term, cbool(ok)))
            metas.append((name, v, ok))
            ctx.count("schema_agreement:" + ("valid" if ok else "invalid"))
    bad = core.eval_bad_indices(ctx, "c15_schema", IMPORTS, "schema_case", cases, ["schema_agree_ok"], chunk=60)
    for i in bad["schema_agree_ok"]:
        name, v, ok = metas[i]
        ctx.mismatch("Spec.ReportSpec.schema_ok vs jsonschema(vendor/codetf.schema.json)",
                     f"jsonschema says {'valid' if ok else 'invalid'}, schema_ok disagrees (document derived from scenario {name})",
                     {"op": "schema", "document": v, "jsonschema_valid": ok, "errors": chk.schema_errors(v)[:3]})


# ------------------------------------------------------------------------------------------------
def check_tables(ctx):
    rc, out = core.coqc_scratch(ctx, "c15_tables", IMPORTS + "Eval vm_compute in models_table_ok.\nEval vm_compute in (List.map (List.map N.to_nat) models_diff).\n")
    if rc != 0:
        ctx.tie_broken.append("table: Harness/C15_run.v does not load: " + out[-300:])
        return
    if "= true" not in out.split(": bool")[0]:
        names = []
        import re
        for m in re.finditer(r"\[((?:\d+;?\s*)+)\]", out.split(": bool", 1)[1]):
            names.append("".join(chr(int(x)) for x in re.findall(r"\d+", m.group(1))))
        ctx.tie_broken.append("table: the classes of codetf.py differ from the records of Model/Report.v (Spec/ReportModelsTable.v): "
                              + (", ".join(names) or "see coq/Generated/Tables.v report_codetf_models"))
    # Properties/C15_positive.v: the positive branches are the active ones and the laws hold at the extracted tables
    if not core.vo_ok("Properties/C15_positive.v"):
        ctx.tie_broken.append("proof: Properties/C15_positive.v no longer checks: the extracted tables are not the guarded ones "
                              "(strict the_validators / good_pipe the_tables) — a negative branch of C15 is active")
    else:
        rc2, out2 = core.coqc_scratch(ctx, "c15_positive", "From CM Require Import Properties.C15_positive.\n"
                                      "Print Assumptions C15_tables_positive.\nPrint Assumptions C15_here.\nPrint Assumptions C15_here_nonvacuous.\n")
        if rc2 != 0:
            ctx.tie_broken.append("proof: Properties/C15_positive.v no longer checks on the extracted tables (strict the_validators / "
                                  "good_pipe the_tables): a negative branch of C15 is active — " + " ".join(out2[-200:].split()))
        elif out2.count("Closed under the global context") != 3:
            ctx.tie_broken.append("axioms: Properties/C15_positive.v is not closed under the global context: " + out2[-200:])
        else:
            ctx.notes.append("Properties/C15_positive.v: C15_tables_positive, C15_here, C15_here_nonvacuous closed under the global context")
    t = ctx.tables or {}
    for name, good in (("report_libcst_apply", "LibcstGuardChangesDiff"),):
        if t.get(name) not in (None, good):
            ctx.notes.append(f"table {name} = {t.get(name)}: the NEGATIVE branch of the table-indexed theorems is active; the synthetic runs replay it")


def run(ctx: core.Ctx):
    check_tables(ctx)
    run_validators(ctx)
    run_serialisation(ctx)
    run_xml(ctx)
    run_regex(ctx)
    run_synthetic(ctx)
    run_e2e(ctx)


def replay(ctx, body):
    op = body.get("op")
    if op == "validator":
        from codemodder.codetf import Change
        try:
            Change(lineNumber=body["lineNumber"], description=body["description"])
            print("observed now: accepted | recorded:", body.get("accepted"))
        except Exception as e:
            print("observed now: rejected (%s) | recorded:" % type(e).__name__, body.get("accepted"))
    elif op == "synthetic-run":
        plan = body["plan"]
        for cm in plan["codemods"]:
            for fp in cm["files"].values():
                fp["findings"] = [tuple(f) for f in fp["findings"]]
                fp["reqs"] = [tuple(r) for r in fp["reqs"]]
                fp["reported"] = [tuple(r) for r in fp["reported"]]
            if cm["tool"]:
                cm["tool"]["rules"] = [tuple(r) for r in cm["tool"]["rules"]]
            cm["refs"] = [tuple(r) for r in cm["refs"]]
        logger_quiet()
        observed, _, info = run_plan(ctx, plan, 0)
        print("observed now:", json.dumps(core.normalise_report(observed))[:2000])
        print("problems now:", chk.check_report(observed, info["root"], info["ids"], before=info["before"], codemod_info=info["codemod_info"]))
    elif op == "cli":
        sc = {"name": body["scenario"], "files": core.unb64tree(body["project"]), "args": body["argv"], "aux": body.get("aux") or {}}
        o = run_scenario(ctx, sc, 0)
        print("exit status:", o["run"]["rc"])
        if o["out"].exists():
            rep = json.loads(o["out"].read_text())
            ids = chk.executed_ids_from_log(o["run"]["stdout"], o["run"]["stderr"]) or chk.selected_ids_from_log(o["run"]["stdout"], o["run"]["stderr"])
            print("problems now:", chk.check_report(rep, o["root"], ids, before=sc["files"], cwd=str(o["root"].parent)))
            print("finding ids now:", sorted({fd.get("id") for x in rep["results"] for cs in x.get("changeset", []) for ch in cs.get("changes", [])
                                              for fd in ch.get("findings") or []} | {u.get("id") for x in rep["results"] for u in x.get("unfixedFindings") or []}))
    elif op == "xml":
        run_xml(ctx)
        print("violations now:", [v["what"] for v in ctx.violations])
    else:
        print(json.dumps(body, indent=1)[:3000])
    print("expected:", body.get("expected"))
    return 0
