import libcst as cst
from libcst import matchers as m
from libcst.metadata import ParentNodeProvider

from codemodder.codemods.check_annotations import is_disabled_by_annotations
from codemodder.codemods.libcst_transformer import (
    LibcstResultTransformer,
    LibcstTransformerPipeline,
    NewArg,
)
from codemodder.codemods.utils_mixin import NameResolutionMixin
from core_codemods.api import (
    CoreCodemod,
    Metadata,
    Reference,
    ReviewGuidance,
    SimpleCodemod,
)


class SubprocessShellFalseTransformer(LibcstResultTransformer, NameResolutionMixin):
    change_description = "Set `shell` keyword argument to `False`"
    SUBPROCESS_FUNCS = [
        f"subprocess.{func}"
        for func in {"run", "call", "check_output", "check_call", "Popen"}
    ]

    METADATA_DEPENDENCIES = (
        *SimpleCodemod.METADATA_DEPENDENCIES,
        ParentNodeProvider,
    )
    IGNORE_ANNOTATIONS = ["S603"]

    def leave_Call(self, original_node: cst.Call, updated_node: cst.Call) -> cst.Call:
        if not self.node_is_selected(original_node):
            return updated_node

        if self.find_base_name(
            original_node.func
        ) in self.SUBPROCESS_FUNCS and self.first_arg_is_not_string(original_node):
            for arg in original_node.args:
                if m.matches(
                    arg,
                    m.Arg(keyword=m.Name("shell"), value=m.Name("True")),
                ) and not is_disabled_by_annotations(
                    original_node,
                    self.metadata,  # type: ignore
                    messages=self.IGNORE_ANNOTATIONS,
                ):
                    self.report_change(original_node)
                    new_args = self.replace_args(
                        original_node,
                        [NewArg(name="shell", value="False", add_if_missing=False)],
                    )
                    return self.update_arg_target(updated_node, new_args)

        return updated_node

    def first_arg_is_not_string(self, original_node: cst.Call) -> bool:
        # First argument to subprocess.<func> cannot be a string or setting shell=False will cause a FileNotFoundError
        return not m.matches(
            original_node.args[0],
            m.Arg(
                value=m.SimpleString() | m.ConcatenatedString() | m.FormattedString()
            ),
        )


SubprocessShellFalse = CoreCodemod(
    metadata=Metadata(
        name="subprocess-shell-false",
        summary="Use `shell=False` in `subprocess` Function Calls",
        review_guidance=ReviewGuidance.MERGE_AFTER_CURSORY_REVIEW,
        references=[
            Reference(
                url="https://docs.python.org/3/library/subprocess.html#security-considerations"
            ),
            Reference(
                url="https://en.wikipedia.org/wiki/Code_injection#Shell_injection"
            ),
            Reference(url="https://stackoverflow.com/a/3172488"),
        ],
    ),
    transformer=LibcstTransformerPipeline(SubprocessShellFalseTransformer),
)
