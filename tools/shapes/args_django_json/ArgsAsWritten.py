class DjangoJsonResponseTypeTransformer:
    def on_result_found(self, _, updated_node):
        return self.update_arg_target(
            updated_node,
            [
                *updated_node.args,
                cst.Arg(
                    value=cst.parse_expression('"application/json"'),
                    keyword=cst.Name("content_type"),
                    equal=cst.AssignEqual(
                        whitespace_before=cst.SimpleWhitespace(""),
                        whitespace_after=cst.SimpleWhitespace(""),
                    ),
                ),
            ],
        )

