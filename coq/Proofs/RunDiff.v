(** C03 on the orchestration model (Model/Run.v): the change sets a run reports for a path, taken in execution
    order, are a chain of diffs each of which applies to the content the previous one left ([steps_ok] of
    Proofs/DiffCompose.v), and the chain ends in the content of the final file system; a change set produced by a
    pipeline that tests `if not diff` names a file whose content that step changed.

    What is assumed (explicit premises of the closed statements, all tested by harness/c03.py):
      - [Hsrc]   the table value t_diff = diff_source extracted from LibcstTransformerPipeline.apply is FromFileText:
                 the old side of every pipeline's diff is the file's own text (Run.v's [diff_base] is indexed by it);
      - [Hdiff]  the diff oracle has the round trip on clean texts (proved for diff.py's create_diff over ANY matcher
                 with the two matcher contracts: [real_diff_roundtrip] below) and [Hnil] diff x x = "";
      - [HT]     transformers do not introduce exotic line boundaries;
      - [HW]     the manifest writers' (diff, new content) has the round trip - a premise HERE (the writers are oracles of Run.v); it is PROVED for the requirements.txt and
        setup.cfg writers of Model/Manifest.v inside their guard (Properties/C14.v: C14_writer_diff_roundtrip) and discharged in
        Properties/C03.v: C03_run_diffs_compose_manifest; for pyproject.toml / setup.py it stays unproved (the writers are
                 oracles of Run.v; it is false on /repo for the classes kf_manifest_crlf, kf_pyproject_phantom_line,
                 kf_setupcfg_no_final_newline) - observed end to end only;
      - a real run (dry_run = false), `if not changes: return None` in every pipeline, distinct codemod ids. *)
From CM Require Import Base.Dict Model.Run Spec.RunSpec Proofs.DictFacts Proofs.RunFacts Proofs.RunSteps Proofs.RunLift.
From CM Require Import Spec.DiffSpec Proofs.DiffFacts Proofs.DiffSplit Proofs.DiffCompose.

Definition clean (b : bytes) : Prop := has_exotic b = false.

(** diff.py's create_diff on two texts, for a matcher oracle *)
Definition real_diff (matcher : list str -> list str -> script) (x y : str) : str :=
  create_diff (matcher (splitlines_keepends x) (splitlines_keepends y)).

Section RealDiff.
  Variable matcher : list str -> list str -> script.
  Hypothesis Hvalid : forall a b, a_of (matcher a b) = a /\ b_of (matcher a b) = b.
  Hypothesis Hequal : forall a, hunks (matcher a a) = [].

  Lemma real_diff_roundtrip x y : clean x -> clean y -> apply_udiff (real_diff matcher x y) x = Some (norm_nl y).
  Proof.
    intros Hx Hy. unfold real_diff. destruct (Hvalid (splitlines_keepends x) (splitlines_keepends y)) as [Ea Eb].
    set (s := matcher (splitlines_keepends x) (splitlines_keepends y)) in *.
    assert (H : apply_udiff (create_diff s) (concat (a_of s)) = Some (norm_nl (concat (b_of s)))).
    { apply patch_roundtrip; [rewrite Ea|rewrite Eb]; apply splitlines_lf_clean; assumption. }
    rewrite Ea, Eb, !splitlines_concat in H. exact H.
  Qed.
  Lemma real_diff_refl x : real_diff matcher x x = [].
  Proof. unfold real_diff. apply create_diff_nil_iff. apply Hequal. Qed.
  Lemma real_diff_nil_eq x y : real_diff matcher x y = [] -> x = y.
  Proof.
    unfold real_diff. intros H. apply create_diff_nil_iff in H. apply no_group_same_text in H.
    destruct (Hvalid (splitlines_keepends x) (splitlines_keepends y)) as [Ea Eb]. rewrite Ea, Eb in H.
    rewrite <- (splitlines_concat x), <- (splitlines_concat y), H. reflexivity.
  Qed.
End RealDiff.

(** a chain of (diff, new content) steps, each of which also satisfies [Q old new] *)
Fixpoint chain (Q : bytes -> bytes -> Prop) (c : bytes) (steps : list (str * bytes)) : Prop :=
  match steps with
  | [] => True
  | (d, c') :: r => apply_udiff d c = Some (norm_nl c') /\ clean c' /\ Q c c' /\ chain Q c' r
  end.
Lemma chain_app Q c s1 s2 : chain Q c s1 -> chain Q (final c s1) s2 -> chain Q c (s1 ++ s2).
Proof.
  revert c. induction s1 as [|[d c'] r IH]; intros c H1 H2; [exact H2|].
  cbn [chain app final] in *. destruct H1 as [A [B [C D]]]. repeat split; auto.
Qed.
Lemma final_app c s1 s2 : final c (s1 ++ s2) = final (final c s1) s2.
Proof. revert c. induction s1 as [|[d c'] r IH]; intros c; [reflexivity|]. cbn [app final]. apply IH. Qed.
Lemma chain_steps_ok Q c steps : chain Q c steps -> steps_ok c steps.
Proof.
  revert c. induction steps as [|[d c'] r IH]; intros c H; [exact I|]. cbn [chain steps_ok] in *.
  destruct H as [A [_ [_ D]]]. split; [exact A|apply IH; exact D].
Qed.
Lemma chain_clean Q c steps : clean c -> chain Q c steps -> clean (final c steps).
Proof.
  revert c. induction steps as [|[d c'] r IH]; intros c Hc H; [exact Hc|]. cbn [chain final] in *.
  destruct H as [_ [B [_ D]]]. apply IH; assumption.
Qed.

Section RunDiff.
  Variable tb : run_tables.
  Variable tree : Type.
  Variable parse : pipe_kind -> bytes -> option tree.
  Variable code : pipe_kind -> tree -> bytes.
  Variable T : codemod -> tree -> option (list finding) -> outcome tree.
  Variable S : codemod -> path -> bytes -> list finding.
  Variable R : codemod -> list (path * list finding).
  Variable diff : bytes -> bytes -> str.
  Variable W : skind -> option bytes -> list dep -> option (bytes * str * list change).
  Variable fsel : codemod -> path -> bool.
  Variable cfg : config.
  Variable p : path.

  Local Notation papply := (pipeline_apply tb tree parse code T diff cfg).
  Local Notation fstep := (file_step tb tree parse code T diff cfg).
  Local Notation pfile := (process_file tb tree parse code T diff cfg).
  Local Notation mfiles := (map_files tb tree parse code T diff cfg).
  Local Notation acodemod := (apply_codemod tb tree parse code T S R diff fsel cfg).
  Local Notation tstores := (try_stores tb W cfg).
  Local Notation pdeps := (process_dependencies tb W cfg).
  Local Notation acodemods := (apply_codemods tb tree parse code T S R diff W fsel cfg).

  Hypothesis Hdry : dry_run cfg = false.
  Hypothesis Hguard : nochange_guarded tb = true.
  (** what LibcstTransformerPipeline.apply diffs against, as extracted from the source: the file's own text *)
  Hypothesis Hsrc : t_diff tb = FromFileText.
  Lemma Hbase K b t : parse (cpipe K) b = Some t -> diff_base tb tree code (cpipe K) b t = b.
  Proof. intros _. unfold diff_base. rewrite Hsrc. reflexivity. Qed.
  Hypothesis Hdiff : forall x y, clean x -> clean y -> apply_udiff (diff x y) x = Some (norm_nl y).
  Hypothesis Hnil : forall x, diff x x = [].
  Hypothesis HT : forall K b t fi t' chs ds,
    parse (cpipe K) b = Some t -> T K t fi = Changed t' chs ds -> clean b -> clean (code (cpipe K) t').
  Hypothesis HW : forall k b ds b' d chs, W k (Some b) ds = Some (b', d, chs) -> clean b ->
    apply_udiff d b = Some (norm_nl b') /\ clean b'.

  (** what a pipeline with the `if not diff` guard adds to the chain relation *)
  Definition Qk (k : pipe_kind) (old new : bytes) : Prop := has_guard IfNoDiff (guards_of tb k) = true -> new <> old.

  (** ---- one pipeline application on the path's current content ---- *)
  Lemma papply_step K q b fi : clean b ->
    (snd (papply K q (Some b) fi) = None /\ forall c ds, fst (papply K q (Some b) fi) <> PChangeset c ds) \/
    (exists c ds b', papply K q (Some b) fi = (PChangeset c ds, Some b') /\ cs_path c = q /\
                     apply_udiff (cs_diff c) b = Some (norm_nl b') /\ clean b' /\ Qk (cpipe K) b b').
  Proof.
    intros Hc. unfold pipeline_apply; cbv zeta. rewrite (nochange_guarded_k tb (cpipe K) Hguard), Hdry, andb_false_r.
    destruct (parse (cpipe K) b) as [t|] eqn:Ep; [|left; destruct (has_guard TryParse _); split; try reflexivity; discriminate].
    destruct (T K t fi) as [| |t' chs ds] eqn:ET.
    - left. destruct (has_guard TryTransform _); split; try reflexivity; discriminate.
    - left. cbn. split; [reflexivity|discriminate].
    - cbv beta iota. rewrite (Hbase K b t Ep). cbn [andb].
      destruct (Run.is_nil chs); [left; split; [reflexivity|discriminate]|].
      destruct (has_guard IfNoDiff (guards_of tb (cpipe K))) eqn:G; cbn [andb].
      + destruct (Run.is_nil (diff b (code (cpipe K) t'))) eqn:En; [left; split; [reflexivity|discriminate]|].
        right. eexists; eexists; eexists. split; [reflexivity|]. cbn [cs_path cs_diff].
        split; [reflexivity|]. pose proof (HT K b t fi t' chs ds Ep ET Hc) as Hc'.
        split; [apply Hdiff; assumption|]. split; [exact Hc'|].
        intros _ E. rewrite E, Hnil in En. discriminate En.
      + right. eexists; eexists; eexists. split; [reflexivity|]. cbn [cs_path cs_diff].
        split; [reflexivity|]. pose proof (HT K b t fi t' chs ds Ep ET Hc) as Hc'.
        split; [apply Hdiff; assumption|]. split; [exact Hc'|]. unfold Qk. rewrite G. discriminate.
  Qed.

  Lemma papply_none K q fi : snd (papply K q None fi) = None /\ forall c ds, fst (papply K q None fi) <> PChangeset c ds.
  Proof. unfold pipeline_apply; cbv zeta. destruct (has_guard TryParse _); split; try reflexivity; discriminate. Qed.

  (** the p-diffs of a list of change sets, of one yielded FileContext, of all of them *)
  Definition pdl (cs : list changeset) : list str := map cs_diff (List.filter (fun c => str_eqb (cs_path c) p) cs).
  Definition out_pd (o : fres) : list str := match o with FCtx cx => pdl (fc_cs cx) | FCrash => [] end.
  Definition outs_pd (outs : list fres) : list str := flat_map out_pd outs.
  Definition pd (k : str) (s : state) : list str := pdl (dgetl k (s_cs s)).

  Lemma pdl_app a b : pdl (a ++ b) = pdl a ++ pdl b.
  Proof. unfold pdl. rewrite filter_app, map_app. reflexivity. Qed.

  (** ---- one file ---- *)
  Lemma fstep_step K res q b : clean b ->
    (snd (fstep K res q (Some b)) = None /\ out_pd (fst (fstep K res q (Some b))) = []) \/
    (exists c cx b', fstep K res q (Some b) = (FCtx cx, Some b') /\ fc_cs cx = [c] /\ cs_path c = q /\
                     apply_udiff (cs_diff c) b = Some (norm_nl b') /\ clean b' /\ Qk (cpipe K) b b').
  Proof.
    intros Hc. unfold file_step. destruct (findings_for res q) as [[|f l]|] eqn:Ef.
    - left. split; reflexivity.
    - cbn [fst snd]. destruct (papply_step K q b (Some (f :: l)) Hc) as [[H1 H2]|[c [ds [b' [E [H1 [H2 [H3 H4]]]]]]]].
      + left. split; [exact H1|]. destruct (fst (papply K q (Some b) (Some (f :: l)))) eqn:E; try reflexivity.
        exfalso. exact (H2 _ _ eq_refl).
      + right. rewrite E. cbn [fst snd fres_of]. eexists; eexists; eexists. split; [reflexivity|]. cbn [fc_cs]. auto.
    - cbn [fst snd]. destruct (papply_step K q b None Hc) as [[H1 H2]|[c [ds [b' [E [H1 [H2 [H3 H4]]]]]]]].
      + left. split; [exact H1|]. destruct (fst (papply K q (Some b) None)) eqn:E; try reflexivity.
        exfalso. exact (H2 _ _ eq_refl).
      + right. rewrite E. cbn [fst snd fres_of]. eexists; eexists; eexists. split; [reflexivity|]. cbn [fc_cs]. auto.
  Qed.

  Lemma papply_cs_path K q c0 fi c ds : fst (papply K q c0 fi) = PChangeset c ds -> cs_path c = q.
  Proof.
    unfold pipeline_apply; cbv zeta.
    destruct c0 as [b|]; [destruct (parse (cpipe K) b) as [t|]|]; try (destruct (has_guard TryParse _); discriminate).
    destruct (T K t fi) as [| |t' chs ds']; try (destruct (has_guard TryTransform _); discriminate);
      cbv beta iota; repeat match goal with |- context [if ?x then _ else _] => destruct x end;
      cbn; intros E; inversion E; reflexivity.
  Qed.

  (** change sets of another path's task never carry path p *)
  Lemma fstep_other K res q c0 : q <> p -> out_pd (fst (fstep K res q c0)) = [].
  Proof.
    intros Hne. unfold file_step.
    assert (G : forall fi, out_pd (fres_of q fi (fst (papply K q c0 fi))) = []).
    { intros fi. destruct (fst (papply K q c0 fi)) as [|r|ds|c ds] eqn:E; try reflexivity.
      cbn [fres_of out_pd fc_cs]. unfold pdl. cbn [List.filter].
      rewrite (papply_cs_path K q c0 fi c ds E). destruct (str_eqb_spec q p) as [->|_]; [congruence|reflexivity]. }
    destruct (findings_for res q) as [[|f l]|]; [reflexivity|apply G|apply G].
  Qed.

  Definition QT (old new : bytes) : Prop := True.
  Lemma chain_weaken Q c steps : chain Q c steps -> chain QT c steps.
  Proof.
    revert c. induction steps as [|[d c'] r IH]; intros c H; [exact I|]. cbn [chain] in *.
    destruct H as [A [B [_ D]]]. repeat split; auto.
  Qed.

  (** ---- all files of one codemod ---- *)
  Lemma mfiles_trace K res : forall files fs c, lookup fs p = Some c -> clean c ->
    exists seg, chain (Qk (cpipe K)) c seg /\ lookup (snd (mfiles K res fs files)) p = Some (final c seg) /\
                outs_pd (fst (mfiles K res fs files)) = map fst seg.
  Proof.
    induction files as [|q rest IH]; intros fs c Hl Hc.
    - exists []. cbn. auto.
    - rewrite (mfiles_cons tb tree parse code T diff cfg K res fs q rest). cbn [fst snd].
      rewrite (pfile_fst tb tree parse code T diff cfg K res fs q), (pfile_snd tb tree parse code T diff cfg K res fs q).
      destruct (str_eqb_spec q p) as [->|Hne].
      + rewrite Hl. destruct (fstep_step K res p c Hc) as [[H1 H2]|[cs [cx [b' [E [H1 [H2 [H3 [H4 H5]]]]]]]]].
        * rewrite H1. destruct (IH fs c Hl Hc) as [seg [A [B C]]]. exists seg. repeat split; auto.
          unfold outs_pd in *. cbn [flat_map]. rewrite H2, C. reflexivity.
        * rewrite E. cbn [fst snd].
          destruct (IH (fwrite fs p b') b' (lookup_fwrite_same fs p b') H4) as [seg [A [B C]]].
          exists ((cs_diff cs, b') :: seg). cbn [chain final map fst]. repeat split; auto.
          unfold outs_pd in *. cbn [flat_map out_pd]. rewrite C, H1. unfold pdl. cbn [List.filter].
          rewrite H2, str_eqb_refl. reflexivity.
      + assert (Hl' : lookup (match snd (fstep K res q (lookup fs q)) with Some b => fwrite fs q b | None => fs end) p = Some c).
        { destruct (snd (fstep K res q (lookup fs q))); [|exact Hl]. rewrite lookup_fwrite_other; [exact Hl|congruence]. }
        destruct (IH _ c Hl' Hc) as [seg [A [B C]]]. exists seg. repeat split; auto.
        unfold outs_pd in *. cbn [flat_map]. rewrite (fstep_other K res q _ Hne), C. reflexivity.
  Qed.

  Lemma presults_pd id outs : forall s s', process_results id outs s = Run.Ok s' ->
    pd id s' = pd id s ++ outs_pd outs /\ forall k, k <> id -> pd k s' = pd k s.
  Proof.
    induction outs as [|[|cx] r IH]; intros s s' H; cbn [process_results] in H.
    - inversion H; subst. unfold outs_pd. cbn. rewrite app_nil_r. auto.
    - discriminate.
    - destruct (IH _ _ H) as [A B]. split.
      + rewrite A. unfold pd, outs_pd. cbn [merge_ctx s_cs flat_map out_pd].
        rewrite dgetl_dext_same, pdl_app, app_assoc. reflexivity.
      + intros k Hk. rewrite (B k Hk). unfold pd. cbn [merge_ctx s_cs]. rewrite dgetl_dext_other by exact Hk. reflexivity.
  Qed.

  (** ---- process_dependencies ---- *)
  Lemma tstores_trace ds : forall stores fs c, lookup fs p = Some c -> clean c ->
    exists seg, chain QT c seg /\ lookup (snd (fst (tstores ds fs stores))) p = Some (final c seg) /\
                pdl (match snd (tstores ds fs stores) with Some cs => [cs] | None => [] end) = map fst seg.
  Proof.
    induction stores as [|st rest IH]; intros fs c Hl Hc; cbn [try_stores].
    - exists []. cbn. auto.
    - destruct (attempt W ds fs st) as [[[b' d] chs]|] eqn:Ea.
      + cbn [fst snd]. rewrite Hdry, andb_false_r.
        destruct (str_eqb_spec (st_path st) p) as [Ep|Hne].
        * unfold attempt in Ea. destruct (new_deps st ds) as [|n0 nl]; [discriminate|]. rewrite Ep, Hl in Ea.
          destruct (HW _ _ _ _ _ _ Ea Hc) as [A B].
          exists [(d, b')]. cbn [chain final map fst]. rewrite Ep, lookup_fwrite_same. repeat split; auto.
          unfold pdl. cbn [List.filter cs_path]. rewrite str_eqb_refl. reflexivity.
        * exists []. cbn [chain final map]. rewrite lookup_fwrite_other by congruence. repeat split; auto.
          unfold pdl. cbn [List.filter cs_path]. destruct (str_eqb_spec (st_path st) p); [contradiction|reflexivity].
      + cbn [fst snd]. apply IH; assumption.
  Qed.

  Lemma pdeps_trace id s c : lookup (s_fs s) p = Some c -> clean c ->
    exists seg, chain QT c seg /\ lookup (s_fs (pdeps id s)) p = Some (final c seg) /\
                pd id (pdeps id s) = pd id s ++ map fst seg /\ forall k, k <> id -> pd k (pdeps id s) = pd k s.
  Proof.
    intros Hl Hc. unfold process_dependencies.
    destruct (dgetl id (s_deps s)) as [|d0 ds0]; [exists []; cbn; rewrite app_nil_r; auto|].
    destruct (s_stores s) as [|st0 sts] eqn:Es; [exists []; cbn; rewrite app_nil_r; auto|]. rewrite <- Es.
    destruct (tstores_trace (d0 :: ds0) (s_stores s) (s_fs s) c Hl Hc) as [seg [A [B C]]].
    exists seg. destruct (snd (tstores (d0 :: ds0) (s_fs s) (s_stores s))) as [c0|]; cbn [s_fs s_cs].
    - split; [exact A|]. split; [exact B|]. unfold pd. cbn [s_cs]. split.
      + rewrite dgetl_dext_same, pdl_app, C. reflexivity.
      + intros k Hk. rewrite dgetl_dext_other by exact Hk. reflexivity.
    - split; [exact A|]. split; [exact B|]. unfold pd. cbn [s_cs]. rewrite <- C. unfold pdl at 2. cbn.
      rewrite app_nil_r. auto.
  Qed.

  (** ---- one codemod ---- *)
  Lemma acodemod_trace pre K s s1 c : acodemod pre K s = Run.Ok s1 -> lookup (s_fs s) p = Some c -> clean c ->
    exists seg, chain QT c seg /\ lookup (s_fs s1) p = Some (final c seg) /\
                pd (cid K) s1 = pd (cid K) s ++ map fst seg /\ forall k, k <> cid K -> pd k s1 = pd k s.
  Proof.
    intros H Hl Hc.
    destruct (acodemod_cases tb tree parse code T S R diff fsel cfg pre K s) as [E|[res [files [_ [_ [_ E]]]]]]; rewrite E in H.
    - inversion H; subst. exists []. cbn. rewrite app_nil_r. auto.
    - destruct (mfiles_trace K res files (s_fs s) c Hl Hc) as [seg [A [B C]]].
      pose proof (presults_fs _ _ _ _ (or_introl H)) as [Hfs _]. cbn [with_fs s_fs] in Hfs.
      destruct (presults_pd _ _ _ _ H) as [P1 P2].
      exists seg. split; [eapply chain_weaken; exact A|]. split; [rewrite Hfs; exact B|].
      split; [rewrite P1, C; reflexivity|]. intros k Hk. rewrite (P2 k Hk). reflexivity.
  Qed.

  (** ---- the fold over codemods ---- *)
  Lemma acodemods_trace pre Ks : forall s s' c,
    NoDup (map cid Ks) -> acodemods pre Ks s = Run.Ok s' -> lookup (s_fs s) p = Some c -> clean c ->
    exists segs, length segs = length Ks /\ chain QT c (concat segs) /\
                 lookup (s_fs s') p = Some (final c (concat segs)) /\
                 (forall K seg, In (K, seg) (List.combine Ks segs) -> pd (cid K) s' = pd (cid K) s ++ map fst seg) /\
                 (forall k, ~ In k (map cid Ks) -> pd k s' = pd k s).
  Proof.
    induction Ks as [|K rest IH]; intros s s' c Hnd H Hl Hc; cbn [apply_codemods] in H.
    - inversion H; subst. exists []. cbn. repeat split; auto. intros K seg [].
    - destruct (acodemod pre K s) as [s1|s1] eqn:E; [|discriminate].
      cbn [map] in Hnd. inversion Hnd as [|? ? Hnotin Hnd']; subst.
      destruct (acodemod_trace pre K s s1 c E Hl Hc) as [seg1 [A1 [B1 [C1 D1]]]].
      pose proof (chain_clean _ _ _ Hc A1) as Hc1.
      destruct (pdeps_trace (cid K) s1 _ B1 Hc1) as [seg2 [A2 [B2 [C2 D2]]]].
      pose proof (chain_clean _ _ _ Hc1 A2) as Hc2.
      destruct (IH _ _ _ Hnd' H B2 Hc2) as [segs [L [A3 [B3 [C3 D3]]]]].
      exists ((seg1 ++ seg2) :: segs). cbn [length concat List.combine].
      split; [congruence|].
      split; [apply chain_app; [apply chain_app; [exact A1|exact A2]|rewrite final_app; exact A3]|].
      split; [rewrite !final_app; exact B3|]. split.
      + intros K' seg' [Heq|Hin].
        * inversion Heq; subst. rewrite (D3 _ Hnotin), C2, C1, map_app, app_assoc. reflexivity.
        * assert (Hne : cid K' <> cid K).
          { intros Heq. apply Hnotin. rewrite <- Heq. apply in_map. eapply in_combine_l; exact Hin. }
          rewrite (C3 _ _ Hin), (D2 _ Hne), (D1 _ Hne). reflexivity.
      + intros k Hk. cbn [map In] in Hk.
        assert (Hne : k <> cid K) by (intros ->; apply Hk; now left).
        rewrite D3 by (intros Hi; apply Hk; now right). rewrite (D2 _ Hne), (D1 _ Hne). reflexivity.
  Qed.

  Lemma flat_map_segs (f : codemod -> list str) : forall Ks (segs : list (list (str * bytes))),
    length segs = length Ks -> (forall K seg, In (K, seg) (List.combine Ks segs) -> f K = map fst seg) ->
    flat_map f Ks = map fst (concat segs).
  Proof.
    induction Ks as [|K rest IH]; intros [|seg segs] L H; try discriminate; [reflexivity|].
    cbn [flat_map concat]. rewrite map_app, (H K seg (or_introl eq_refl)). f_equal.
    apply IH; [cbn in L; congruence|]. intros K' seg' Hin. apply H. now right.
  Qed.

  (** the diffs reported for p, in report order (codemods in execution order, change sets in insertion order) *)
  Definition reported (Ks : list codemod) (s : state) : list str := flat_map (fun K => pd (cid K) s) Ks.

  Theorem run_diffs_chain Ks fs stores s' c :
    run tb tree parse code T S R diff W fsel cfg Ks fs stores = Run.Ok s' ->
    NoDup (map cid Ks) -> lookup fs p = Some c -> clean c ->
    exists steps, map fst steps = reported Ks s' /\ steps_ok c steps /\ lookup (s_fs s') p = Some (final c steps).
  Proof.
    intros Hr Hnd Hl Hc. unfold run in Hr. destruct (all_files cfg).
    - inversion Hr; subst. exists []. cbn [map steps_ok final]. split; [|split; [exact I|exact Hl]].
      unfold reported. induction Ks as [|K r IH]; [reflexivity|]. cbn [flat_map]. inversion Hnd; subst.
      rewrite <- IH by assumption. reflexivity.
    - destruct (acodemods_trace _ Ks _ _ c Hnd Hr Hl Hc) as [segs [L [A [B [C _]]]]].
      exists (concat segs). split; [|split; [eapply chain_steps_ok; exact A|exact B]].
      symmetry. unfold reported. apply flat_map_segs; [exact L|]. intros K seg Hin. rewrite (C K seg Hin). reflexivity.
  Qed.

  Corollary run_diffs_compose Ks fs stores s' c :
    run tb tree parse code T S R diff W fsel cfg Ks fs stores = Run.Ok s' ->
    NoDup (map cid Ks) -> lookup fs p = Some c -> clean c ->
    exists c', lookup (s_fs s') p = Some c' /\
               fold_apply (reported Ks s') c = Some (match reported Ks s' with [] => c | _ => norm_nl c' end) /\
               (reported Ks s' = [] -> c' = c).
  Proof.
    intros Hr Hnd Hl Hc. destruct (run_diffs_chain Ks fs stores s' c Hr Hnd Hl Hc) as [steps [E [Hs Hf]]].
    exists (final c steps). split; [exact Hf|]. rewrite <- E. split.
    - rewrite (diffs_compose c steps Hs). destruct steps; reflexivity.
    - destruct steps; [reflexivity|discriminate].
  Qed.

  Lemma fres_cs_path q fi pr cx cs : fres_of q fi pr = FCtx cx -> In cs (fc_cs cx) ->
    exists ds, pr = PChangeset cs ds.
  Proof.
    destruct pr as [|r|ds|c ds]; cbn [fres_of]; intros H Hin; inversion H; subst; cbn [fc_cs] in Hin.
    - destruct Hin.
    - destruct Hin.
    - destruct Hin as [<-|[]]. eauto.
  Qed.
  Lemma fstep_cs_path K res q c0 cx cs : fst (fstep K res q c0) = FCtx cx -> In cs (fc_cs cx) -> cs_path cs = q.
  Proof.
    unfold file_step. destruct (findings_for res q) as [[|f l]|]; cbn [fst]; intros H Hin.
    - inversion H; subst. destruct Hin.
    - destruct (fres_cs_path _ _ _ _ _ H Hin) as [ds E]. eapply papply_cs_path; exact E.
    - destruct (fres_cs_path _ _ _ _ _ H Hin) as [ds E]. eapply papply_cs_path; exact E.
  Qed.

  (** ---- a change set of a pipeline with the `if not diff` guard names a file that this step changed ---- *)
  Theorem changeset_changes_file K res fs cx cs b :
    has_guard IfNoDiff (guards_of tb (cpipe K)) = true ->
    lookup fs p = Some b -> clean b ->
    fst (pfile K res fs p) = FCtx cx -> In cs (fc_cs cx) ->
    exists b', lookup (snd (pfile K res fs p)) p = Some b' /\ b' <> b /\ cs_path cs = p /\
               apply_udiff (cs_diff cs) b = Some (norm_nl b').
  Proof.
    intros Hg Hl Hc Hf Hin.
    rewrite (pfile_fst tb tree parse code T diff cfg K res fs p) in Hf.
    rewrite (pfile_snd tb tree parse code T diff cfg K res fs p). rewrite Hl in *.
    pose proof (fstep_cs_path K res p (Some b) cx cs Hf Hin) as Hp.
    destruct (fstep_step K res p b Hc) as [[H1 H2]|[cs' [cx' [b' [E [H1 [H2 [H3 [H4 H5]]]]]]]]].
    - exfalso. rewrite Hf in H2. cbn [out_pd] in H2.
      unfold pdl in H2. apply (f_equal (@length str)) in H2. rewrite map_length in H2. cbn [length] in H2.
      assert (Hi : In cs (List.filter (fun c0 => str_eqb (cs_path c0) p) (fc_cs cx))).
      { apply filter_In. split; [exact Hin|]. rewrite Hp. apply str_eqb_refl. }
      apply length_zero_iff_nil in H2. rewrite H2 in Hi. destruct Hi.
    - rewrite E in *. cbn [fst snd] in *. inversion Hf; subst cx'. rewrite H1 in Hin. destruct Hin as [<-|[]].
      exists b'. rewrite lookup_fwrite_same. split; [reflexivity|]. split; [apply H5; exact Hg|]. split; assumption.
  Qed.
End RunDiff.
