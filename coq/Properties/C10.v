(** C10 — an unprocessable file is left intact, reported, and does not stop the run.
    Full statement: a file that cannot be read, decoded, parsed or transformed is byte-for-byte untouched and, when the
    codemod selected it, listed as failed with all its findings unfixed; every other file and every other codemod is
    processed exactly as in the run without the bad file; a valid report is written; exit status 0.
    Model: Model/Run.v.  Statements indexed by the guard table of the pipeline kind (Generated/Tables.v):
    - [C10_isolation] (libcst): positive branch when both try blocks are present — step level:
      nothing escapes; each file's outcome is a function of its OWN content (so no fault in a sibling alters it); a
      failing selected file is not written, yields the failure record with every finding unfixed at line 0.
    - [C10_isolation_regex]: the same table-indexed statement at the regex pipeline.  On the pinned tree its [apply] had no
      try (negative branch: a two-codemod run on a project with one undecodable file aborts, status 1, no report; finding
      kf_regex_no_isolation, FIXED by 49f7472); on the current tree both guards are present and this is the isolation law.
    - [C10_isolation_xml]: the same statement at the XML pipeline.  The table records TryParse only when every read of the
      parse stage is guarded; the pinned [apply] re-read the file with .decode("utf-8") OUTSIDE the try block (negative
      branch, finding kf_xml_reread_no_isolation, FIXED by c634845); on the current tree this is the isolation law.
      Which branch is active for the current source is read from Generated/tables.json by the check and compared with the
      behaviour of the real classes (harness/c10.py: regex/xml probes).
    - [C10_run_isolation]: run level, any codemod list whose pipelines have both tries (every table value): the run on
      the project and the run on the project WITHOUT the bad file both complete (exit 0, report) and end in the same
      file system, stores, change sets, dependencies and dependency records per codemod; failedFiles / unfixedFindings
      of the latter are those of the former minus the bad file's; the bad file is untouched.
      Hypotheses: the bad content fails for every codemod ([Hbad]: read/decode/parse fault, or every transformer
      raises), semgrep reports nothing on it ([Hnosem], oracle contract tested), it is not a manifest.
    - [C10_failed_unfixed], [C10_failed_listed].
    Not in the model: side effects a transformer made on its FileContext (dependencies) before raising. *)
From CM Require Import Base.Dict Model.Run Spec.RunSpec Proofs.RunFacts Proofs.RunSteps Proofs.C10Facts Generated.Tables.

Definition C10_isolation_statement (tb : run_tables) (k : pipe_kind) : Prop :=
  if tries_present tb k then
    forall (tree : Type) parse code T diff (cfg : config) (K : codemod) res (files : list path) (fs : fsys),
      cpipe K = k -> NoDup files ->
      let outs := fst (map_files tb tree parse code T diff cfg K res fs files) in
      let fs' := snd (map_files tb tree parse code T diff cfg K res fs files) in
      ~ In FCrash outs /\
      outs = map (fun q => fst (file_step tb tree parse code T diff cfg K res q (lookup fs q))) files /\
      (forall q, In q files -> lookup fs' q =
         match snd (file_step tb tree parse code T diff cfg K res q (lookup fs q)) with Some b => Some b | None => lookup fs q end) /\
      (forall q, ~ In q files -> lookup fs' q = lookup fs q) /\
      (forall p, In p files -> findings_for res p <> Some [] ->
         failsb tree parse T K (findings_for res p) (lookup fs p) = true ->
         lookup fs' p = lookup fs p /\
         exists r, fst (file_step tb tree parse code T diff cfg K res p (lookup fs p)) =
                   FCtx {| fc_cs := []; fc_fail := [p]; fc_unf := failure_unfixed p r (findings_for res p); fc_deps := [] |})
  else
    exists (bad : N) (s : state),
      toy_run tb (toy_cfg false [[97%N]; [98%N]]) [toy_codemod 1 k DNone; toy_codemod 2 k DNone] (w_crash_fs bad) [] = Aborted s.
Lemma C10_isolation_all tb k : C10_isolation_statement tb k.
Proof.
  unfold C10_isolation_statement. destruct (tries_present tb k) eqn:E.
  - intros tree parse code T diff cfg K res files fs Hk Hnd. subst k. cbv zeta. apply isolation_step; try assumption; [exact (fun _ _ _ => []) | exact (fun _ => []) | exact (fun _ _ => true)].
  - unfold tries_present in E. apply andb_false_iff in E. destruct E as [E|E].
    + destruct (toy_crash_noparse tb k E) as [s Hs]. exists 255%N, s. exact Hs.
    + destruct (toy_crash_notransform tb k E) as [s Hs]. exists 7%N, s. exact Hs.
Qed.
Theorem C10_isolation : C10_isolation_statement run_tables_v PLibcst.
Proof. exact (C10_isolation_all run_tables_v PLibcst). Qed.
Print Assumptions C10_isolation.
Theorem C10_isolation_xml : C10_isolation_statement run_tables_v PXml.
Proof. exact (C10_isolation_all run_tables_v PXml). Qed.
Print Assumptions C10_isolation_xml.
Theorem C10_isolation_regex : C10_isolation_statement run_tables_v PRegex.
Proof. exact (C10_isolation_all run_tables_v PRegex). Qed.
Print Assumptions C10_isolation_regex.

(** the aborted run: status 1 and no report *)
Theorem C10_aborted_no_report : forall Ks s, exit_status (Aborted s) = 1%Z /\ report Ks (Aborted s) = None.
Proof. intros. split; reflexivity. Qed.
Print Assumptions C10_aborted_no_report.

(** run level (every table value, every oracle) *)
Theorem C10_run_isolation :
  forall (tb : run_tables) (tree : Type) parse code T S R diff W fsel (p : path) (c0 : option bytes),
    (forall K fi, failsb tree parse T K fi c0 = true) ->
    (forall K, match c0 with Some b => S K p b | None => [] end = []) ->
    forall (cfg : config) (Ks : list codemod) (fs : fsys) (stores : list store),
    (forall K, In K Ks -> tries_present tb (cpipe K) = true) ->
    lookup fs p = c0 -> ~ In p (map st_path stores) ->
    (without p (ff_paths cfg) <> [] \/ ff_paths cfg = []) -> without p (all_files cfg) <> [] ->
    exists a b,
      run tb tree parse code T S R diff W fsel cfg Ks fs stores = Ok a /\
      run tb tree parse code T S R diff W fsel (cfg_without p cfg) Ks fs stores = Ok b /\
      sim p a b /\ lookup (s_fs a) p = lookup fs p.
Proof. exact run_isolation. Qed.
Print Assumptions C10_run_isolation.

(** what [sim] says about the two reports, row by row; exit status 0 for both *)
Theorem C10_report_isolation : forall p a b Ks,
  sim p a b ->
  exit_status (Ok a) = 0%Z /\ exit_status (Ok b) = 0%Z /\
  exists ra rb, report Ks (Ok a) = Some ra /\ report Ks (Ok b) = Some rb /\
  map r_codemod ra = map r_codemod rb /\ map r_changeset ra = map r_changeset rb /\
  map r_deps ra = map r_deps rb /\ map r_dep_store ra = map r_dep_store rb /\
  map (fun r => without p (r_failed r)) ra = map r_failed rb /\
  map (fun r => unf_without p (r_unfixed r)) ra = map r_unfixed rb.
Proof.
  intros p a b Ks [F St C D U FL UN]. split; [reflexivity|]. split; [reflexivity|].
  eexists; eexists. split; [reflexivity|]. split; [reflexivity|]. unfold compile_results. rewrite !map_map. simpl.
  repeat split; apply map_ext; intros K; auto.
Qed.
Print Assumptions C10_report_isolation.

(** add_failure: every finding of the file is reported unfixed, with line number 0 *)
Theorem C10_failed_unfixed : forall p r l,
  failure_unfixed p r (Some l) = map (fun f => (f, p, 0%N, r)) l /\
  (forall f, In f l -> In (f, p, 0%N, r) (failure_unfixed p r (Some l))).
Proof. intros. split; [reflexivity|]. intros f Hf. unfold failure_unfixed. now apply (in_map (fun f => (f, p, 0%N, r))). Qed.
Print Assumptions C10_failed_unfixed.

(** a failing selected file ends up in the codemod's failedFiles, its findings in unfixedFindings *)
Theorem C10_failed_listed :
  forall (tb : run_tables) (tree : Type) parse code T diff (cfg : config) (K : codemod) res (files : list path) (fs : fsys) s s' p,
    tries_present tb (cpipe K) = true -> NoDup files -> In p files -> findings_for res p <> Some [] ->
    failsb tree parse T K (findings_for res p) (lookup fs p) = true ->
    process_results (cid K) (fst (map_files tb tree parse code T diff cfg K res fs files)) s = Ok s' ->
    In p (dgetl (cid K) (s_fail s')) /\
    exists r, forall f, In f (match findings_for res p with Some l => l | None => [] end) ->
                        In (f, p, 0%N, r) (dgetl (cid K) (s_unf s')).
Proof.
  intros tb tree parse code T diff cfg K res files fs s s' p Ht Hnd Hin Hne Hf Hpr.
  destruct (isolation_step tb tree parse code T (fun _ _ _ => []) (fun _ => []) diff (fun _ _ => true) cfg K res files fs Ht Hnd) as [_ [Houts [_ [_ H5]]]].
  destruct (H5 p Hin Hne Hf) as [_ [r Hr]].
  assert (Hc : In (FCtx {| fc_cs := []; fc_fail := [p]; fc_unf := failure_unfixed p r (findings_for res p); fc_deps := [] |})
                  (fst (map_files tb tree parse code T diff cfg K res fs files))).
  { rewrite Houts, <- Hr. now apply (in_map (fun q => fst (file_step tb tree parse code T diff cfg K res q (lookup fs q)))). }
  split.
  - eapply presults_fail_in; [exact Hpr|exact Hc|]. simpl. now left.
  - exists r. intros f Hfin. eapply presults_unf_in; [exact Hpr|exact Hc|]. simpl. unfold failure_unfixed.
    now apply (in_map (fun f => (f, p, 0%N, r))).
Qed.
Print Assumptions C10_failed_listed.

(** Non-vacuity.  (1) the hypotheses of the run-level theorem are met by a concrete project with an undecodable file
    between two good ones, two codemods; the run completes, the bad file is listed by both codemods and untouched.
    (2) on the current tables the regex pipeline aborts on the same project. *)
Example C10_example_run :
  let r := toy_run tables_pinned (toy_cfg false [[97%N]; [98%N]; [99%N]]) [toy_codemod 1 PLibcst DNone; toy_codemod 2 PLibcst DNone]
             [([97%N], [1%N]); ([98%N], [255%N]); ([99%N], [6%N])] [] in
  exit_status r = 0%Z /\
  option_map (map r_failed) (report [toy_codemod 1 PLibcst DNone; toy_codemod 2 PLibcst DNone] r) = Some [[[98%N]]; [[98%N]]] /\
  lookup (final_fs r) [98%N] = Some [255%N] /\ lookup (final_fs r) [97%N] = Some [2%N] /\ lookup (final_fs r) [99%N] = Some [2%N].
Proof. vm_compute. repeat split; reflexivity. Qed.
Example C10_example_hyps :
  (forall K fi, failsb bytes toy_parse toy_T K fi (Some [255%N]) = true) /\
  (forall K, toy_S K [98%N] [255%N] = []) /\
  tries_present tables_pinned PLibcst = true.
Proof. split; [reflexivity|]. split; reflexivity. Qed.
