import libcst as cst

from core_codemods.api import Metadata, Reference, ReviewGuidance, SimpleCodemod


class TransformFixHasattrCall(SimpleCodemod):
    metadata = Metadata(
        name="fix-hasattr-call",
        summary="Use `callable` builtin to check for callables",
        review_guidance=ReviewGuidance.MERGE_WITHOUT_REVIEW,
        references=[
            Reference(url="https://docs.python.org/3/library/functions.html#callable"),
            Reference(url="https://docs.python.org/3/library/functions.html#hasattr"),
        ],
    )
    detector_pattern = """
        - patterns:
          - pattern: hasattr(..., "__call__")
          - pattern-not: $MODULE.hasattr(...)
        """

    change_description = "Replace `hasattr` function call with `callable`"

    def on_result_found(self, original_node, updated_node):
        del original_node
        # `hasattr(..., "__call__")` also matches calls that do not have exactly
        # two arguments: those raise TypeError, `callable(x)` would not
        if len(updated_node.args) != 2:
            return updated_node
        return updated_node.with_changes(
            func=updated_node.func.with_changes(value="callable"),
            args=[updated_node.args[0].with_changes(comma=cst.MaybeSentinel.DEFAULT)],
        )
