#!/usr/bin/env python3
"""Seeded property-breaking changes (written by independent agents that saw only the property text).

  seeded.py import <out_dir> <Cxx>      validate each patchN.diff/demoN.*/metaN.json of an agent's output directory in a scratch
                                         worktree (patch applies; demo exits 0 unpatched and non-zero patched; baseline passes with
                                         the patch) and keep the valid ones as /verif/seeded/<Cxx>-<n>/
  seeded.py run <id> [Cyy ...]           apply seeded/<id>/patch.diff to the scratch worktree, run the quick check of the property it
                                         breaks (and of any further properties given) against it, record the outcome in
                                         seeded/<id>/result.json, restore the worktree
  seeded.py runall                       run every seeded change against its own property

The scratch worktree is /work/r_main (a git worktree of /repo at /repo's HEAD); /repo itself is never modified.
"""
import json
import os
import shutil
import subprocess
import sys
import time
from pathlib import Path

VERIF = Path(__file__).resolve().parents[1]
WT = Path(os.environ.get("VERIF_SEEDED_WT", "/work/r_main"))
REPO = Path("/repo")


def sh(cmd, **kw):
    return subprocess.run(cmd, shell=isinstance(cmd, str), stdout=subprocess.PIPE, stderr=subprocess.STDOUT, text=True, **kw)


def reset_wt():
    if not WT.exists():
        sh(["git", "-C", str(REPO), "worktree", "add", "--detach", str(WT), "HEAD"])
    head = sh(["git", "-C", str(REPO), "rev-parse", "HEAD"]).stdout.strip()
    sh(["git", "-C", str(WT), "checkout", "-q", "--detach", head])
    sh(["git", "-C", str(WT), "reset", "-q", "--hard", head])
    sh(["git", "-C", str(WT), "clean", "-qfd", "src", "tests"])
    v = WT / "src" / "codemodder" / "_version.py"
    if not v.exists():
        shutil.copy(REPO / "src" / "codemodder" / "_version.py", v)


def apply_patch(patch: Path) -> bool:
    p = sh(["git", "-C", str(WT), "apply", str(patch)])
    if p.returncode != 0:
        print("patch does not apply:", p.stdout[-500:])
    return p.returncode == 0


def run_demo(demo: Path):
    env = dict(os.environ, PATH="/venv/bin:" + os.environ["PATH"], SEMGREP_SEND_METRICS="off", SEMGREP_ENABLE_VERSION_CHECK="0",
               PYTHONPATH=str(WT / "src"))
    cmd = ["/venv/bin/python", str(demo), str(WT)] if demo.suffix == ".py" else ["sh", str(demo), str(WT)]
    try:
        p = sh(cmd, env=env, timeout=900, cwd=str(demo.parent))
        return p.returncode, p.stdout[-1500:]
    except subprocess.TimeoutExpired:
        return -9, "timeout"


def do_import(out_dir: Path, prop: str, tag: str = ""):
    kept = 0
    for meta in sorted(out_dir.glob("meta*.json")):
        n = meta.stem[4:]
        patch = out_dir / f"patch{n}.diff"
        demos = [d for d in sorted(out_dir.glob(f"demo{n}.*")) if d.suffix in (".py", ".sh")]
        if not patch.exists() or not demos:
            print(f"{prop}-{n}: incomplete, skipped")
            continue
        demo = demos[0]
        reset_wt()
        rc0, out0 = run_demo(demo)
        if not apply_patch(patch):
            continue
        rc1, out1 = run_demo(demo)
        base = sh(["/venv/bin/python", str(VERIF / "tools" / "baseline.py"), str(WT)])
        ok_base = "1175/1175" in base.stdout
        print(f"{prop}-{n}: demo unpatched exit {rc0}, patched exit {rc1}; baseline {'ok' if ok_base else 'FAILS: ' + base.stdout[-300:]}")
        if rc0 == 0 and rc1 != 0 and ok_base:
            d = VERIF / "seeded" / (f"{prop}-{tag}{n}" if tag else f"{prop}-{n}")
            d.mkdir(parents=True, exist_ok=True)
            shutil.copy(patch, d / "patch.diff")
            shutil.copy(demo, d / ("demo" + demo.suffix))
            m = json.loads(meta.read_text())
            m.update({"property": prop, "wave": tag or "w1", "confirmed": {"demo_unpatched_exit": rc0, "demo_patched_exit": rc1, "baseline": "1175/1175 with the patch",
                                                      "how": "tools/seeded.py import: scratch worktree of /repo HEAD, demo run before/after git apply, tools/baseline.py"},
                      "demo_output_patched": out1[-800:]})
            (d / "meta.json").write_text(json.dumps(m, indent=1))
            kept += 1
        reset_wt()
    print(f"kept {kept} seeded change(s) for {prop}")


def do_run(sid: str, extra_props):
    d = VERIF / "seeded" / sid
    meta = json.loads((d / "meta.json").read_text())
    outd = Path(os.environ.get("VERIF_SEEDED_OUT", str(VERIF / "seeded"))) / sid   # where result.json / replays are kept
    outd.mkdir(parents=True, exist_ok=True)
    props = [meta["property"]] + [p for p in extra_props if p != meta["property"]]
    reset_wt()
    if not apply_patch(d / "patch.diff"):
        return
    res = {}
    for prop in props:
        t = time.time()
        p = sh([str(VERIF / "bin" / "check"), prop, "quick"], env=dict(os.environ, VERIF_REPO=str(WT)), cwd=str(VERIF))
        lines = [l for l in p.stdout.splitlines() if l.startswith(("VIOLATION", "KNOWN-FINDING", "["))]
        viol = [l for l in lines if l.startswith("VIOLATION")]
        res[prop] = {"exit": p.returncode, "detected": p.returncode == 1 and bool(viol),
                     "with_failing_input": any("no-failing-input-found" not in l for l in viol),
                     "lines": lines[-6:], "wall_s": round(time.time() - t)}
        # keep the replay next to the seeded change
        for l in viol:
            rp = l.split("replay=")[1].split()[0]
            if os.path.exists(rp):
                shutil.copy(rp, outd / f"replay_{prop}.json")
                break
        print(sid, prop, "DETECTED" if res[prop]["detected"] else "MISSED", res[prop]["lines"][-2:])
    old = json.loads((outd / "result.json").read_text()) if (outd / "result.json").exists() else {}
    old.update(res)
    (outd / "result.json").write_text(json.dumps(old, indent=1))
    reset_wt()
    # the build tree now holds tables of the patched tree: rebuild for /repo
    sh([str(VERIF / "bin" / "check"), "setup-incremental"], cwd=str(VERIF))


def main():
    if len(sys.argv) < 2:
        print(__doc__)
        return 2
    if sys.argv[1] == "import":
        do_import(Path(sys.argv[2]), sys.argv[3], sys.argv[4] if len(sys.argv) > 4 else "")
    elif sys.argv[1] == "run":
        do_run(sys.argv[2], sys.argv[3:])
    elif sys.argv[1] == "runall":
        for d in sorted((VERIF / "seeded").iterdir()):
            if (d / "meta.json").exists():
                do_run(d.name, [])
    return 0


if __name__ == "__main__":
    sys.exit(main())
