from functools import cached_property

from codemodder.codemods.import_modifier_codemod import SecurityImportModifierCodemod
from codemodder.codemods.libcst_transformer import LibcstTransformerPipeline
from codemodder.codemods.semgrep import SemgrepRuleDetector
from codemodder.dependency import Dependency, Security
from core_codemods.api import CoreCodemod, Metadata, Reference, ReviewGuidance


class UrlSandboxTransformer(SecurityImportModifierCodemod):
    change_description = "Switch use of requests for security.safe_requests"

    @cached_property
    def mapping(self) -> dict[str, str]:
        """Build a mapping of functions to their safe_requests imports"""
        _matching_functions: dict[str, str] = {
            "requests.get": "safe_requests",
        }
        return _matching_functions

    @property
    def dependency(self) -> Dependency:
        return Security


UrlSandbox = CoreCodemod(
    metadata=Metadata(
        name="url-sandbox",
        summary="Sandbox URL Creation",
        review_guidance=ReviewGuidance.MERGE_AFTER_CURSORY_REVIEW,
        references=[
            Reference(
                url="https://github.com/pixee/python-security/blob/main/src/security/safe_requests/api.py"
            ),
            Reference(url="https://portswigger.net/web-security/ssrf"),
            Reference(
                url="https://cheatsheetseries.owasp.org/cheatsheets/Server_Side_Request_Forgery_Prevention_Cheat_Sheet.html"
            ),
            Reference(
                url="https://www.rapid7.com/blog/post/2021/11/23/owasp-top-10-deep-dive-defending-against-server-side-request-forgery/"
            ),
            Reference(url="https://blog.assetnote.io/2021/01/13/blind-ssrf-chains/"),
        ],
    ),
    detector=SemgrepRuleDetector(
        """
         rules:
           - id: url-sandbox
             message: Unbounded URL creation
             severity: WARNING
             languages:
               - python
             pattern-either:
               - patterns:
                 - pattern: requests.get(...)
                 - pattern-not: requests.get("...")
                 - pattern-inside: |
                     import requests
                     ...
    """
    ),
    transformer=LibcstTransformerPipeline(UrlSandboxTransformer),
)
