class ResultSet(dict):
    def add_result(self, result):
        for loc in result.locations:
            self.setdefault(result.rule_id, {}).setdefault(loc.file, []).append(result)

    def __or__(self, other):
        result = ResultSet(super().__or__(other))
        for k in self.keys() | other.keys():
            result[k] = list_dict_or(self[k], other[k])
        return result


def list_dict_or(dictionary, other):
    result_dict = other | dictionary
    for k in other.keys() | dictionary.keys():
        result_dict[k] = dictionary[k] + other[k]
    return result_dict
