(** codemodder.sarifs.detect_sarif_tools with the two registered detectors (Semgrep, CodeQL): which tool each SARIF file is
    attributed to.  A detector that cannot inspect a run (KeyError / AttributeError / ValueError) skips THAT run only.
    Definitions only. *)
From CM Require Export Model.Sarif.

Inductive tool := TSemgrep | TCodeQL.
Definition tool_eqb (a b : tool) : bool := match a, b with TSemgrep, TSemgrep | TCodeQL, TCodeQL => true | _, _ => false end.

Inductive dres := DYes | DNo | DSkip | DCrash.     (* detect(run): True / False / caught exception / uncaught exception *)

Definition s_semgrep := [115;101;109;103;114;101;112]%N.

Definition is_obj (j : json) : bool := match j with JObj _ => true | _ => false end.

Definition detect (t : tool) (run : json) : dres :=
  if negb (is_obj run) then DCrash else
  match jget s_tool run with
  | None => DNo
  | Some tl =>
      if negb (is_obj tl) then DCrash else
      match jget s_driver tl with
      | None => DSkip
      | Some d =>
          if negb (is_obj d) then DCrash else
          match jget s_name d with
          | None => DSkip
          | Some (JStr n) =>
              match t with
              | TSemgrep => if is_infix s_semgrep (lower_ascii n) then DYes else DNo
              | TCodeQL => if is_infix s_CodeQL n then DYes else DNo
              end
          | Some _ => match t with TSemgrep => DSkip (* .lower(): AttributeError *) | TCodeQL => DCrash (* `in` on a non-container *) end
          end
      end
  end.

Inductive tout (A : Type) := TOk (a : A) | TDuplicate | TCrash.
Arguments TOk {A} a. Arguments TDuplicate {A}. Arguments TCrash {A}.

Definition attribution := list (tool * N).          (* tool -> the (single) file attributed to it, in insertion order *)
Definition has_tool (t : tool) (st : attribution) : bool := existsb (fun p => tool_eqb (fst p) t) st.

Definition event := (N * tool * dres)%type.         (* file id, detector, outcome on one run *)
Definition step (st : attribution) (ev : event) : tout attribution :=
  let '(f, t, r) := ev in
  match r with
  | DYes => if has_tool t st then TDuplicate else TOk (st ++ [(t, f)])
  | DNo | DSkip => TOk st
  | DCrash => TCrash
  end.
Fixpoint run_events (st : attribution) (evs : list event) : tout attribution :=
  match evs with
  | [] => TOk st
  | ev :: r => match step st ev with TOk st' => run_events st' r | TDuplicate => TDuplicate | TCrash => TCrash end
  end.

(** for fname in filenames: for (name, det) in detectors: for run in data["runs"] *)
(* [ord]: the order in which the detectors are iterated = the order of the `sarif_detectors` entry points as
   importlib.metadata yields them; observed by the harness on every run, so it is a parameter here *)
Definition file_events (ord : list tool) (f : N) (runs : list json) : list event :=
  flat_map (fun t => map (fun run => (f, t, detect t run)) runs) ord.
Definition detect_tools_ord (ord : list tool) (files : list (N * option (list json))) : tout attribution :=
  (* None = data["runs"] missing or not a list: uncaught *)
  if forallb (fun fr => match snd fr with Some _ => true | None => false end) files
  then run_events [] (flat_map (fun fr => file_events ord (fst fr) (match snd fr with Some r => r | None => [] end)) files)
  else TCrash.
(* the order on the current installation (entry_points.txt is sorted by name): codeql, semgrep *)
Definition detector_order : list tool := [TCodeQL; TSemgrep].
Definition detect_tools := detect_tools_ord detector_order.
