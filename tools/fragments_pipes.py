# Fragments of the regex / XML transformer pipelines (C19).  exec'd inside tools/translate.py.
# Each loop of regex_transformer.py is its own fragment so that a partial edit (one class repaired, the other not)
# is still recognised; the shape decides which index expression reaches FileContext.get_findings_for_location.
TABLE_IMPORTS.append("From CM Require Import Base.Types_RegexPipe.")

shape("regex_apply_loop", "src/codemodder/codemods/regex_transformer.py", ["C19"],
      "regex_findings_index", "index_form", "OneBased",
      ["RegexTransformerPipeline.__init__", "RegexTransformerPipeline._apply_regex", "RegexTransformerPipeline._apply"],
      doc="RegexTransformerPipeline._apply: per-line re.sub, change detection, get_findings_for_location(<index form>)")

shape("sast_regex_apply_loop", "src/codemodder/codemods/regex_transformer.py", ["C19"],
      "sast_regex_findings_index", "index_form", "OneBased",
      ["SastRegexTransformerPipeline.line_matches_result", "SastRegexTransformerPipeline.report_unfixed",
       "SastRegexTransformerPipeline._apply", "SastRegexTransformerPipeline.apply", "SastRegexTransformerPipeline._apply_regex"],
      doc="SastRegexTransformerPipeline._apply / line_matches_result / report_unfixed (apply and _apply_regex inherited)")

shape("regex_apply_isolation", "src/codemodder/codemods/regex_transformer.py", ["C19"],
      "regex_apply_isolation", "regex_isolation", "TryReadTransform",
      ["RegexTransformerPipeline.apply"],
      doc="RegexTransformerPipeline.apply: read+decode+splitlines(keepends) and self._apply(...) bare (NoTry) or each inside "
          "try/except Exception: add_failure + return None (TryReadTransform); `if not changes: return None`, create_diff, "
          "`if not context.dry_run: write_bytes(''.join(updated_lines))`")

shape("pipes_filecontext", "src/codemodder/file_context.py", ["C19"],
      "pipes_filecontext_shape", "as_written", "AsWritten",
      ["FileContext.get_findings_for_location", "FileContext.add_unfixed_findings", "FileContext.get_all_findings",
       "FileContext.add_failure"],
      doc="FileContext.get_findings_for_location (start.line <= n <= end.line, finding not None) / add_unfixed_findings / add_failure")

shape("pipes_create_diff", "src/codemodder/diff.py", ["C19"],
      "pipes_create_diff_shape", "as_written", "AsWritten",
      ["create_diff"],
      doc="create_diff(original_lines, new_lines): a function of the two line lists only (opaque oracle mkdiff)")

shape("xml_transformer_base", "src/codemodder/codemods/xml_transformer.py", ["C19"],
      "xml_transformer_shape", "as_written", "AsWritten",
      ["XMLTransformer"],
      doc="XMLTransformer(XMLGenerator, LexicalHandler): hand-written comment/CDATA/DTD writers, locator, match_result, add_change")

shape("xml_attr_transformer", "src/codemodder/codemods/xml_transformer.py", ["C19"],
      "xml_attr_transformer_shape", "as_written", "AsWritten",
      ["ElementAttributeXMLTransformer"],
      doc="ElementAttributeXMLTransformer.startElement: attrs._attrs | name_attributes_map[name] on matching named elements")

shape("xml_newelement_transformer", "src/codemodder/codemods/xml_transformer.py", ["C19"],
      "xml_newelement_transformer_shape", "as_written", "AsWritten",
      ["NewElement", "NewElementXMLTransformer"],
      doc="NewElementXMLTransformer.endElement / add_new_element: children appended before the end tag of every parent_name element")

shape("xml_pipeline_apply", "src/codemodder/codemods/xml_transformer.py", ["C19"],
      "xml_pipeline_diff_guard", "xml_diff_guard", "DiffGuardRereadTry",
      ["XMLTransformerPipeline.__init__", "XMLTransformerPipeline.apply"],
      doc="XMLTransformerPipeline.apply: TemporaryFile('w+'), defusedxml make_parser, failure => add_failure + None, "
          "`if not changes`, UTF-8 re-read of the original (bare / in try: add_failure + None), create_diff (`if not diff: return None` or not), "
          "dry_run guard around write_bytes")
