(** C18 — a codemod acts on what its own detector reports, and the result is clean.   (_partial)

    Full statement: for every find-and-fix codemod K that detects with a semgrep rule of its own and every program P,
    flagged_K(P) non-empty and P not of a declined shape  =>  rewritten_K(P) at that location or failed_K(P);
    and flagged_K(run_K(P)) contains no location inside a statement that run_K rewrote.

    Proved here (all inputs, unbounded): the positional join between the detector's result locations and the nodes the
    default transformer acts on (C18_join), that a reported location which is not the span of a Call/Assign/ClassDef is
    silently dropped (C18_reported_nonnode_dropped), how results are keyed (C18_short_id), and the behaviour of nested
    selected calls (C18_nested, indexed by the source: refuted as written).
    NOT proved (hence _partial): that each semgrep pattern and its libcst transformer describe the same construct and
    that `pattern-not` excludes the fixed form — semgrep's matcher is an oracle.  That half is decided by search on every
    run (harness/c18.py: real detector before/after the real CLI on generated spellings of each trigger). *)
From CM Require Import Base.Dict Model.Location Spec.LocationSpec Proofs.LocationFacts Model.NestedCalls Proofs.NestedCallsFacts
  Generated.Tables.
Local Open Scope Z_scope.

Definition T_now : ltab := mkltab loc_tol_start loc_tol_end sonar_tuple_widen line_filter_rule.

(** A node is handed to on_result_found iff it is a Call/Assign/ClassDef of the module, some result location equals its
    span within the tabulated tolerance (semgrep convention) and the line filter admits it; the changes reported are
    exactly one per such node, at its start line. *)
Theorem C18_join_partial : forall rs excl inc nodes,
  (forall n, In n (on_result_found_nodes T_now FDefault (Some rs) excl inc nodes) <->
     In n nodes /\ default_kind (nkind n) = true /\
     (exists r l, In r rs /\ In l (rlocs r) /\ reports T_now (rcls r) (nkind n) (nspan n) l) /\
     line_filter T_now excl inc (nspan n) = true) /\
  map ch_line (reported_changes T_now findings_attach_rule FDefault (Some rs) excl inc nodes) =
  map (fun n => pline (sstart (nspan n))) (on_result_found_nodes T_now FDefault (Some rs) excl inc nodes).
Proof. intros. split; [intros n; apply join_iff|apply changes_of_join]. Qed.
Print Assumptions C18_join_partial.

(** "at that location and nowhere else": with C06_unique_site, one location selects at most one node. *)
Theorem C18_join_unique : forall cands n m l,
  discipline T_now RBase cands = true -> In n cands -> In m cands ->
  match_loc T_now RBase (nkind n) (nspan n) l = true -> match_loc T_now RBase (nkind m) (nspan m) l = true -> n = m.
Proof. intros cands n m l H. now apply unique_site_any. Qed.
Print Assumptions C18_join_unique.

(** A reported location that is the span of no Call/Assign/ClassDef (a `with` item, a decorator, a keyword argument) is
    ignored without any trace: nothing handed to on_result_found, no change entry — although the file is processed. *)
Theorem C18_reported_nonnode_dropped : forall rs excl inc nodes rules file R,
  rs <> [] -> findings_for_rule (Some R) rules file = Some rs ->
  (forall n, In n nodes -> default_kind (nkind n) = true ->
     forall r l, In r rs -> In l (rlocs r) -> ~ reports T_now (rcls r) (nkind n) (nspan n) l) ->
  process_file (Some R) rules file = Transform (Some rs) /\
  on_result_found_nodes T_now FDefault (Some rs) excl inc nodes = [] /\
  reported_changes T_now findings_attach_rule FDefault (Some rs) excl inc nodes = [].
Proof.
  intros rs excl inc nodes rules file R Hne Hf H. split.
  - unfold process_file. rewrite Hf. simpl. destruct rs; [congruence|reflexivity].
  - now apply nonnode_dropped.
Qed.
Print Assumptions C18_reported_nonnode_dropped.

(** Results of the internal semgrep run are keyed by the last dotted component of the rule id: the prefix semgrep
    prepends is dropped, and two rules with the same tail are merged under one key. *)
Theorem C18_short_id :
  (forall a b, no_dot b -> short_id (a ++ 46%N :: b) = b) /\ (forall b, no_dot b -> short_id b = b) /\
  (forall r1 r2 p, rrule_id r1 = rrule_id r2 -> In p (map lfile (rlocs r1)) -> In p (map lfile (rlocs r2)) ->
     In r1 (results_for_rule_and_file (of_results [r1; r2]) (rrule_id r1) p) /\
     In r2 (results_for_rule_and_file (of_results [r1; r2]) (rrule_id r1) p)).
Proof.
  split; [exact short_id_suffix|]. split; [exact short_id_plain|].
  intros r1 r2 p He H1 H2. split; apply lookup_of_results; simpl; auto.
Qed.
Print Assumptions C18_short_id.

(** Nested selected calls.  What this is (review B15): a statement about a deliberately tiny abstraction (Model/NestedCalls.v:
    a call = id + "still flagged" bit + argument calls; a selected call becomes unflagged by definition) of libcst's
    bottom-up traversal, isolating ONE thing - whether the outer call is rebuilt from the node that already holds the
    rewritten children.  Its only tie to the code is the extracted choice (hardening_args_from / secure_random_target_from);
    the behaviour itself is observed by the nested programs of the search.
    With the arguments rebuilt from updated_node every selected call is clean after the run;
    as written (replace_args(original_node, ...)) the rewrite of an inner selected call is discarded. *)
Definition C18_nested_statement (v : args_from) : Prop :=
  match v with
  | FromUpdated => forall sel c i, sel i = true -> ~ In i (flagged (rewrite v sel c))
  | FromOriginal => exists sel c i, sel i = true /\ In i (flagged c) /\ In i (flagged (rewrite v sel c))
  end.
Lemma C18_nested_all v : C18_nested_statement v.
Proof.
  destruct v; simpl.
  - exists (fun _ => true), w_nested, 2%N. split; [reflexivity|]. split; vm_compute; auto.
  - intros. now apply updated_clears.
Qed.
Theorem C18_nested : C18_nested_statement hardening_args_from.
Proof. exact (C18_nested_all hardening_args_from). Qed.
Print Assumptions C18_nested.

(** the same for secure-random, whose on_result_found rebuilds the call with update_call_target(<node>, ...) *)
Theorem C18_nested_secure_random : C18_nested_statement secure_random_target_from.
Proof. exact (C18_nested_all secure_random_target_from). Qed.
Print Assumptions C18_nested_secure_random.

(** Non-vacuity: `x = f(g())` with the inner call reported (semgrep columns): only the inner Call is handed over;
    a location on the keyword `a=1` of `h(a=1)` is dropped. *)
Definition y_f : str := [102]%N.
Definition y_assign := mknode 1 KAssign (mkspan (mkpos 2 0) (mkpos 2 10)).
Definition y_outer := mknode 2 KCall (mkspan (mkpos 2 4) (mkpos 2 10)).
Definition y_inner := mknode 3 KCall (mkspan (mkpos 2 6) (mkpos 2 9)).
Definition y_h := mknode 4 KCall (mkspan (mkpos 3 0) (mkpos 3 6)).
Definition y_r_inner := mkresult 1 RBase y_f [mkloc y_f (mkpos 2 7) (mkpos 2 10)] None.
Definition y_r_kw := mkresult 2 RBase y_f [mkloc y_f (mkpos 3 3) (mkpos 3 6)] None.
Example C18_join_example :
  map nid (on_result_found_nodes T_now FDefault (Some [y_r_inner; y_r_kw]) [] [] [y_inner; y_outer; y_assign; y_h]) = [3%N] /\
  map ch_line (reported_changes T_now findings_attach_rule FDefault (Some [y_r_inner; y_r_kw]) [] [] [y_inner; y_outer; y_assign; y_h]) = [2].
Proof. split; vm_compute; reflexivity. Qed.

(** Non-vacuity of C18_join_unique and C18_reported_nonnode_dropped (review B18): the discipline holds of the four nodes
    above; a result set whose only result for the file points at the keyword `a=1` reaches the transformer and is dropped. *)
Example C18_join_unique_example :
  discipline T_now RBase [y_inner; y_outer; y_assign; y_h] = true /\
  match_loc T_now RBase (nkind y_inner) (nspan y_inner) (mkloc y_f (mkpos 2 7) (mkpos 2 10)) = true.
Proof. split; vm_compute; reflexivity. Qed.
Example C18_nonnode_dropped_example :
  let R := of_results [y_r_kw] in
  findings_for_rule (Some R) [y_f] y_f = Some [y_r_kw] /\
  (forall n, In n [y_inner; y_outer; y_assign; y_h] -> default_kind (nkind n) = true ->
     forall r l, In r [y_r_kw] -> In l (rlocs r) -> ~ reports T_now (rcls r) (nkind n) (nspan n) l) /\
  process_file (Some R) [y_f] y_f = Transform (Some [y_r_kw]).
Proof.
  split; [vm_compute; reflexivity |]. split; [| vm_compute; reflexivity].
  intros n Hn _ r l [<- | []] [<- | []] H. apply match_loc_iff in H.
  destruct Hn as [<- | [<- | [<- | [<- | []]]]]; vm_compute in H; discriminate.
Qed.
