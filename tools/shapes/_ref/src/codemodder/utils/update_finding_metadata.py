from __future__ import annotations

import typing

if typing.TYPE_CHECKING:
    from codemodder.codemods.base_codemod import ToolRule

from codemodder.codetf import ChangeSet


def update_finding_metadata(
    tool_rules: list[ToolRule],
    changesets: list[ChangeSet],
) -> list[ChangeSet]:
    if not (tool_rule_map := {rule.id: (rule.name, rule.url) for rule in tool_rules}):
        return changesets

    for changeset in changesets:
        for change in changeset.changes:
            for finding in change.findings or []:
                if finding.id in tool_rule_map:
                    finding.rule.name = tool_rule_map[finding.id][0]
                    finding.rule.url = tool_rule_map[finding.id][1]

    # TODO: eventually make this functional and return a new list
    return changesets
