# src/core_codemods/remove_unused_imports.py at HEAD: RemoveUnusedImports.filter_by_path_includes_or_excludes, match_line
def match_line(pos, line):
    return pos.start.line == line and pos.end.line == line


class RemoveUnusedImports:
    def filter_by_path_includes_or_excludes(self, pos_to_match) -> bool:
        """
        Returns True if the node, whose position in the file is pos_to_match, matches any of the lines specified in the path-includes or path-excludes flags.
        """
        # excludes takes precedence if defined
        if self.line_exclude:
            return not any(match_line(pos_to_match, line) for line in self.line_exclude)
        if self.line_include:
            return any(match_line(pos_to_match, line) for line in self.line_include)
        return True
