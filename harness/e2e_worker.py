"""Worker: apply one codemod to its subprojects twice, through the public route
(registry -> codemod.apply(context) -> context.process_dependencies -> context.compile_results)."""
from __future__ import annotations

import json
import logging
import sys
import traceback
from pathlib import Path


def read_all(root: Path):
    out = {}
    for p in sorted(root.rglob("*")):
        if p.is_file() and not p.is_symlink() and p.name != "sast_results":
            try:
                out[str(p.relative_to(root))] = p.read_bytes().decode("utf-8", errors="surrogateescape")
            except Exception:
                out[str(p.relative_to(root))] = None
    return out


def compiles_all(root: Path):
    """does CPython accept the file AS BYTES (honouring a PEP 263 coding cookie / BOM)?  relpath -> bool, for .py files"""
    import warnings
    out = {}
    for p in sorted(root.rglob("*.py")):
        if p.is_file() and not p.is_symlink():
            try:
                with warnings.catch_warnings():
                    warnings.simplefilter("ignore")
                    compile(p.read_bytes(), str(p), "exec", dont_inherit=True)
                out[str(p.relative_to(root))] = True
            except (SyntaxError, ValueError, RecursionError):
                out[str(p.relative_to(root))] = False
    return out


SETUP_PY = '''from setuptools import setup

setup(
    name="proj",
    version="0.1",
    install_requires=[
        "requests>=2.0",
    ],
)
'''


def apply_once(root: Path, codemod_id: str, tool, results_path, path_include=(), path_exclude=()):
    from codemodder.context import CodemodExecutionContext
    from codemodder.project_analysis.python_repo_manager import PythonRepoManager
    from codemodder.providers import load_providers
    from codemodder.registry import load_registered_codemods

    reg = load_registered_codemods()
    cm = reg.match_codemods(codemod_include=[codemod_id])[0]
    rm = PythonRepoManager(root)
    ctx = CodemodExecutionContext(
        directory=root, dry_run=False, verbose=False, registry=reg, providers=load_providers(), repo_manager=rm,
        path_include=list(path_include), path_exclude=list(path_exclude), tool_result_files_map={tool: [str(results_path)]} if tool else {}, max_workers=4)
    rm.parse_project()
    cm.apply(ctx)
    deps = ctx.process_dependencies(cm.id)
    res = ctx.compile_results([cm])[0]
    rep = json.loads(res.model_dump_json(exclude_none=True))
    return {"report": rep, "deps": sorted(str(d) for d in deps), "failures": [str(f) for f in ctx.get_failures(cm.id)]}


def main():
    job = json.loads(Path(sys.argv[1]).read_text())
    out_path, wd = Path(sys.argv[2]), Path(sys.argv[3])
    logging.disable(logging.CRITICAL)
    out = {"codemod": job["codemod"], "subprojects": []}
    for i, sub in enumerate(job["subprojects"]):
        root = wd / f"p{i}"
        root.mkdir(parents=True)
        rec = {"meta": sub["meta"], "tool": sub["tool"], "error": None}
        try:
            for name, text in sub["files"].items():
                p = root / name
                p.parent.mkdir(parents=True, exist_ok=True)
                enc = (sub.get("encodings") or {}).get(name)
                p.write_bytes(text.encode(enc) if enc else text.encode("utf-8"))
            # the manifest that receives a needed dependency alternates between the kinds (setup.py is itself Python source)
            if sub.get("manifest", "requirements.txt") == "setup.py" and "setup.py" not in sub["files"]:
                (root / "setup.py").write_text(SETUP_PY)
            else:
                (root / "requirements.txt").write_text("# deps\nrequests==2.31.0\n")
            results_path = None
            if sub["tool"]:
                results_path = root / "sast_results"
                results_path.write_text(sub["results"] or "")
            rec["before"] = read_all(root)
            rec["compiles_before"] = compiles_all(root)
            pinc, pexc = sub.get("path_include") or (), sub.get("path_exclude") or ()
            rec["pass1"] = apply_once(root, job["codemod"], sub["tool"], results_path, pinc, pexc)
            rec["after1"] = read_all(root)
            rec["compiles_after1"] = compiles_all(root)
            rec["pass2"] = apply_once(root, job["codemod"], sub["tool"], results_path, pinc, pexc)
            rec["after2"] = read_all(root)
        except Exception:
            rec["error"] = traceback.format_exc()[-3000:]
        out["subprojects"].append(rec)
    out_path.write_text(json.dumps(out))


if __name__ == "__main__":
    main()
