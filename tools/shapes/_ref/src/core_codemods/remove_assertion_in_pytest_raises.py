from typing import Sequence, Union

import libcst as cst

from codemodder.codemods.base_codemod import Metadata, Reference, ReviewGuidance
from codemodder.codemods.libcst_transformer import (
    LibcstResultTransformer,
    LibcstTransformerPipeline,
)
from codemodder.codemods.utils_mixin import NameResolutionMixin
from core_codemods.api.core_codemod import CoreCodemod


class RemoveAssertionInPytestRaisesTransformer(
    LibcstResultTransformer, NameResolutionMixin
):
    change_description = "Moved assertion out of with statement body"

    def _all_pytest_raises(self, node: cst.With):
        for item in node.items:
            match item:
                case cst.WithItem(item=cst.Call() as call):
                    maybe_call_base_name = self.find_base_name(call)
                    if (
                        not maybe_call_base_name
                        or maybe_call_base_name != "pytest.raises"
                    ):
                        return False

                case _:
                    return False
        return True

    def _build_simple_statement_line(self, node: cst.BaseSmallStatement):
        return cst.SimpleStatementLine(
            body=[node.with_changes(semicolon=cst.MaybeSentinel.DEFAULT)]
        )

    def _remove_last_asserts_from_suite(self, node: Sequence[cst.BaseSmallStatement]):
        assert_position = len(node)
        assert_stmts = []
        new_statement_before_asserts = None
        for stmt in reversed(node):
            match stmt:
                case cst.Assert():
                    assert_position = assert_position - 1
                    assert_stmts.append(self._build_simple_statement_line(stmt))
                case _:
                    break
        if assert_position > 0:
            new_statement_before_asserts = node[assert_position - 1].with_changes(
                semicolon=cst.MaybeSentinel.DEFAULT
            )
        return assert_stmts, assert_position, new_statement_before_asserts

    def _remove_last_asserts_from_IndentedBlock(self, node: cst.IndentedBlock):
        assert_position = len(node.body)
        assert_stmts = []
        new_statement_before_asserts = None
        for simple_stmt in reversed(node.body):
            match simple_stmt:
                case cst.SimpleStatementLine(body=[*head, cst.Assert()] as body):
                    assert_position = assert_position - 1
                    if head:
                        sstmts, s_pos, new_stmt = self._remove_last_asserts_from_suite(
                            body
                        )
                        assert_stmts.extend(sstmts)
                        if new_stmt:
                            new_statement_before_asserts = new_stmt
                            new_statement_before_asserts = simple_stmt.with_changes(
                                body=[
                                    *body[: s_pos - 1],
                                    body[s_pos - 1].with_changes(
                                        semicolon=cst.MaybeSentinel.DEFAULT
                                    ),
                                ]
                            )
                            break
                    else:
                        assert_stmts.append(simple_stmt)
                    if new_statement_before_asserts:
                        break
                case _:
                    if assert_position > 0:
                        new_statement_before_asserts = node.body[assert_position - 1]
                    break
        assert_stmts.reverse()
        return assert_stmts, assert_position, new_statement_before_asserts

    def leave_With(
        self, original_node: cst.With, updated_node: cst.With
    ) -> Union[
        cst.BaseStatement, cst.FlattenSentinel[cst.BaseStatement], cst.RemovalSentinel
    ]:
        if not self._all_pytest_raises(original_node):
            return updated_node

        assert_stmts: list[cst.SimpleStatementLine] = []
        assert_position = len(original_node.body.body)
        new_statement_before_asserts = None
        match original_node.body:
            case cst.SimpleStatementSuite():
                last_stmt = original_node.body.body[-1]
                if not self.node_is_selected(last_stmt):
                    return updated_node
                (
                    assert_stmts,
                    assert_position,
                    new_statement_before_asserts,
                ) = self._remove_last_asserts_from_suite(original_node.body.body)
                assert_stmts.reverse()
            case cst.IndentedBlock():
                last_stmt = original_node.body.body[-1]
                if not self.node_is_selected(last_stmt):
                    return updated_node
                (
                    assert_stmts,
                    assert_position,
                    new_statement_before_asserts,
                ) = self._remove_last_asserts_from_IndentedBlock(original_node.body)

        if assert_stmts:
            # this means all the statements are asserts
            if new_statement_before_asserts:
                new_with = updated_node.with_changes(
                    body=updated_node.body.with_changes(
                        body=[
                            *updated_node.body.body[: assert_position - 1],
                            new_statement_before_asserts,
                        ]
                    )
                )
            else:
                new_with = updated_node.with_changes(
                    body=updated_node.body.with_changes(
                        body=[cst.SimpleStatementLine(body=[cst.Pass()])]
                    )
                )
            # TODO: need to report change for each line changed
            self.report_change(original_node)
            return cst.FlattenSentinel([new_with, *assert_stmts])

        return updated_node


RemoveAssertionInPytestRaises = CoreCodemod(
    metadata=Metadata(
        name="remove-assertion-in-pytest-raises",
        summary="Moves assertions out of `pytest.raises` scope",
        review_guidance=ReviewGuidance.MERGE_WITHOUT_REVIEW,
        references=[
            Reference(
                url="https://docs.pytest.org/en/7.4.x/reference/reference.html#pytest-raises",
                description="",
            ),
        ],
    ),
    transformer=LibcstTransformerPipeline(RemoveAssertionInPytestRaisesTransformer),
    detector=None,
)
