# src/core_codemods/sonar/sonar_fix_math_isclose.py at the commit the model was written against (shape reference; not executed)
class FixMathIsCloseSonarTransformer:
    def filter_by_result(self, node) -> bool:
        """
        Special case result-matching for this rule because the sonar
        results returned match only the `math.isclose` call without `(...args...)`
        """
        match node:
            case cst.Call():
                pos_to_match = self.node_position(node)
                return any(
                    self.match_location(pos_to_match, result)
                    for result in self.results or []
                )
        return False

    def match_location(self, pos, result):
        return any(
            same_line(pos, location) and fuzzy_column_match(pos, location)
            for location in result.locations
        )

