(** Model of src/codemodder/diff.py and of the part of CPython's difflib.unified_diff that turns grouped
    opcodes into diff lines, as written.  Definitions only.

    Oracle: the matching itself ([difflib.SequenceMatcher(None,a,b).get_grouped_opcodes(3)]) is not modelled;
    a [script] is ANY list of groups of equal/replace(/delete/insert) segments separated by unshown gaps.

    Also here: the reference patch applier [apply_udiff] (the meaning of "the diff applied to the old
    content"), which splits the diff text and the file at "\n" only, parses the hunk headers with the
    stdlib decimal functions and checks context and removed lines strictly. *)
From CM Require Export Base.Str Base.Types_Diff.
From Coq Require Decimal.
Local Open Scope N_scope.

(** * Lines *)

(** Python's full line-boundary set of [str.splitlines]:
    \n \v \f \r \x1c \x1d \x1e \x85 U+2028 U+2029 (and \r\n as one boundary). *)
Definition is_break (c : N) : bool :=
  (c =? 10) || (c =? 11) || (c =? 12) || (c =? 13) || (c =? 28) || (c =? 29) || (c =? 30)
  || (c =? 133) || (c =? 8232) || (c =? 8233).

(** [t.splitlines(keepends=True)]; [cur] is the reversed current line. *)
Fixpoint splitlines_from (cur : str) (t : str) : list str :=
  match t with
  | [] => match cur with [] => [] | _ => [rev cur] end
  | c :: t' =>
      if c =? 13 then
        match t' with
        | d :: t'' => if d =? 10 then rev (10 :: 13 :: cur) :: splitlines_from [] t''
                      else rev (13 :: cur) :: splitlines_from [] t'
        | [] => [rev (13 :: cur)]
        end
      else if is_break c then rev (c :: cur) :: splitlines_from [] t'
      else splitlines_from (c :: cur) t'
  end.
Definition splitlines_keepends (t : str) : list str := splitlines_from [] t.

(** [t.split(chr c)]: never the empty list. *)
Fixpoint split_on (c : N) (t : str) : list str :=
  match t with
  | [] => [[]]
  | x :: t' =>
      if x =? c then [] :: split_on c t'
      else match split_on c t' with h :: r => (x :: h) :: r | [] => [[x]] end
  end.
Definition split_lf (t : str) : list str := split_on 10 t.

(** [l.endswith("\n")] and [l] without one final "\n". *)
Fixpoint ends_nl (l : str) : bool :=
  match l with
  | [] => false
  | c :: r => match r with [] => c =? 10 | _ => ends_nl r end
  end.
Fixpoint chomp (l : str) : str :=
  match l with
  | [] => []
  | c :: r => match r with [] => if c =? 10 then [] else [c] | _ => c :: chomp r end
  end.

Definition is_nil {A} (l : list A) : bool := match l with [] => true | _ => false end.
Definition len {A} (l : list A) : N := N.of_nat (length l).

(** * Edit scripts (what the matcher oracle returns, as far as unified_diff looks at it) *)
Inductive seg :=
| SEq (ls : list str)         (* 'equal':  a[i1:i2] (== b[j1:j2]) *)
| SRep (a b : list str).      (* 'replace' a[i1:i2] by b[j1:j2]; 'delete' = SRep a []; 'insert' = SRep [] b *)
Definition group := list seg.
Record script := { gap0 : list str;                     (* lines before the first group *)
                   hunks : list (group * list str) }.   (* each group followed by the unshown equal lines after it *)

Definition seg_a (s : seg) := match s with SEq ls => ls | SRep a _ => a end.
Definition seg_b (s : seg) := match s with SEq ls => ls | SRep _ b => b end.
Definition grp_a (g : group) : list str := flat_map seg_a g.
Definition grp_b (g : group) : list str := flat_map seg_b g.
Fixpoint rest_a (gs : list (group * list str)) : list str :=
  match gs with [] => [] | (g, gap) :: t => grp_a g ++ gap ++ rest_a t end.
Fixpoint rest_b (gs : list (group * list str)) : list str :=
  match gs with [] => [] | (g, gap) :: t => grp_b g ++ gap ++ rest_b t end.
Definition a_of (s : script) : list str := gap0 s ++ rest_a (hunks s).
Definition b_of (s : script) : list str := gap0 s ++ rest_b (hunks s).

(** * difflib.unified_diff given the groups *)

Fixpoint codes_of_uint (u : Decimal.uint) : str :=
  match u with
  | Decimal.Nil => []
  | Decimal.D0 u => 48 :: codes_of_uint u | Decimal.D1 u => 49 :: codes_of_uint u | Decimal.D2 u => 50 :: codes_of_uint u
  | Decimal.D3 u => 51 :: codes_of_uint u | Decimal.D4 u => 52 :: codes_of_uint u | Decimal.D5 u => 53 :: codes_of_uint u
  | Decimal.D6 u => 54 :: codes_of_uint u | Decimal.D7 u => 55 :: codes_of_uint u | Decimal.D8 u => 56 :: codes_of_uint u
  | Decimal.D9 u => 57 :: codes_of_uint u
  end.
(** ['{}'.format(n)] for a non-negative int *)
Definition dec (n : N) : str := codes_of_uint (N.to_uint n).

(** [_format_range_unified(start, stop)] *)
Definition fmt_range (start stop : N) : str :=
  let beginning := start + 1 in
  let length := stop - start in
  if length =? 1 then dec beginning
  else dec (if length =? 0 then beginning - 1 else beginning) ++ [44] ++ dec length.

Definition seg_lines (s : seg) : list str :=
  match s with
  | SEq ls => map (cons 32) ls
  | SRep a b => map (cons 45) a ++ map (cons 43) b
  end.
Definition grp_lines (g : group) : list str := flat_map seg_lines g.

(** ['@@ -{} +{} @@\n'] *)
Definition hunk_header (pa pb : N) (g : group) : str :=
  [64; 64; 32; 45] ++ fmt_range pa (pa + len (grp_a g)) ++ [32; 43] ++ fmt_range pb (pb + len (grp_b g))
  ++ [32; 64; 64; 10].

(** [pa]/[pb]: 0-based index in a / b of the first line of the group (first[1], first[3]). *)
Fixpoint hunks_lines (pa pb : N) (gs : list (group * list str)) : list str :=
  match gs with
  | [] => []
  | (g, gap) :: t =>
      (hunk_header pa pb g :: grp_lines g)
      ++ hunks_lines (pa + len (grp_a g) + len gap) (pb + len (grp_b g) + len gap) t
  end.

Definition hdr_from : str := [45; 45; 45; 32; 10].   (* '--- \n' : fromfile='' *)
Definition hdr_to : str := [43; 43; 43; 32; 10].     (* '+++ \n' *)

Definition udiff_lines (s : script) : list str :=
  match hunks s with
  | [] => []
  | gs => hdr_from :: hdr_to :: hunks_lines (len (gap0 s)) (len (gap0 s)) gs
  end.

(** * diff.py *)

(** [difflines_to_str]: every diff line but the last gets a "\n" if it lacks one; the last is kept as is. *)
Definition difflines_to_str (dl : list str) : str :=
  match dl with
  | [] => []
  | _ => concat (map (fun l => if ends_nl l then l else l ++ [10]) (removelast dl)) ++ last dl []
  end.

(** [create_diff(original_lines, new_lines)] given the matcher's answer for them *)
Definition create_diff (s : script) : str := difflines_to_str (udiff_lines s).

Fixpoint startswith (p l : str) : bool :=
  match p, l with
  | [], _ => true
  | x :: p', y :: l' => (x =? y) && startswith p' l'
  | _, [] => false
  end.

Definition digit_ctor (c : N) : option (Decimal.uint -> Decimal.uint) :=
  if c =? 48 then Some Decimal.D0 else if c =? 49 then Some Decimal.D1 else if c =? 50 then Some Decimal.D2 else
  if c =? 51 then Some Decimal.D3 else if c =? 52 then Some Decimal.D4 else if c =? 53 then Some Decimal.D5 else
  if c =? 54 then Some Decimal.D6 else if c =? 55 then Some Decimal.D7 else if c =? 56 then Some Decimal.D8 else
  if c =? 57 then Some Decimal.D9 else None.
Fixpoint uint_of_codes (s : str) : option Decimal.uint :=
  match s with
  | [] => Some Decimal.Nil
  | c :: r => match digit_ctor c, uint_of_codes r with Some d, Some u => Some (d u) | _, _ => None end
  end.
(** a non-empty string of ASCII digits; anything else is [None] *)
Definition parse_dec (s : str) : option N :=
  match s with [] => None | _ => option_map N.of_uint (uint_of_codes s) end.

(** [int(x.split(",")[0][1:]) - 1]  (None = the ValueError/IndexError Python would raise on text that
    unified_diff never produces; Python's int() accepts more spellings than plain digits: not modelled) *)
Definition start_minus_1 (x : str) : option Z :=
  match split_on 44 x with
  | h :: _ => option_map (fun n => (Z.of_N n - 1)%Z) (parse_dec (tl h))
  | [] => None
  end.

Record lnstate := { cur_ln : Z; orig_ln : Z; acc_ln : list Z }.
Definition calc_step (st : option lnstate) (line : str) : option lnstate :=
  match st with
  | None => None
  | Some st =>
      if startswith [64; 64] line then
        (* start_line_original, start_line_updated = line.split(" ")[1:3] *)
        match tl (split_on 32 line) with
        | x :: y :: _ =>
            match start_minus_1 x, start_minus_1 y with
            | Some o, Some c => Some {| cur_ln := c; orig_ln := o; acc_ln := acc_ln st |}
            | _, _ => None
            end
        | _ => None
        end
      else if startswith [43] line then
        let c := (cur_ln st + 1)%Z in
        Some {| cur_ln := c; orig_ln := orig_ln st;
                acc_ln := if startswith [43; 43; 43] line then acc_ln st else acc_ln st ++ [c] |}
      else if startswith [45] line then
        let o := (orig_ln st + 1)%Z in
        Some {| cur_ln := cur_ln st; orig_ln := o;
                acc_ln := if startswith [45; 45; 45] line then acc_ln st else acc_ln st ++ [o] |}
      else Some {| cur_ln := (cur_ln st + 1)%Z; orig_ln := (orig_ln st + 1)%Z; acc_ln := acc_ln st |}
  end.
Definition dedupZ (l : list Z) : list Z :=
  fold_left (fun acc x => if existsb (Z.eqb x) acc then acc else acc ++ [x]) l [].
(** [calc_line_num_changes(diff_lines)]; [list(set(..))] is a list without duplicates in an order the
    model does not fix (compared as a set). *)
Definition calc_line_num_changes (dl : list str) : option (list Z) :=
  match fold_left calc_step dl (Some {| cur_ln := 0; orig_ln := 0; acc_ln := [] |}) with
  | Some st => Some (dedupZ (acc_ln st))
  | None => None
  end.
(** [create_diff_and_linenums] *)
Definition create_diff_and_linenums (s : script) : str * option (list Z) :=
  (difflines_to_str (udiff_lines s), calc_line_num_changes (udiff_lines s)).

(** * Reference patch applier *)

(** the lines of a text, split at "\n" only, without terminators; a final "\n" does not open a new line *)
Definition text_lines (t : str) : list str :=
  let ps := split_lf t in if is_nil (last ps []) then removelast ps else ps.
Definition unlines (ls : list str) : str := concat (map (fun l => l ++ [10]) ls).

Inductive tag := TCtx | TDel | TAdd.
Record hunk := { h_a : N;      (* 0-based index in the old text of the first line of the hunk *)
                 h_alen : N;
                 h_b : N;
                 h_blen : N;
                 h_body : list (tag * str) }.

(** "s" (length 1) or "s,l" *)
Definition parse_range (r : str) : option (N * N) :=
  match split_on 44 r with
  | [d] => option_map (fun n => (n, 1)) (parse_dec d)
  | [d; l] => match parse_dec d, parse_dec l with Some n, Some m => Some (n, m) | _, _ => None end
  | _ => None
  end.
(** inverse of the "ed" convention: an empty range names the line before it *)
Definition range_index (r : N * N) : option N :=
  let '(s, l) := r in
  if l =? 0 then Some s else if s =? 0 then None else Some (s - 1).

(** "@@ -r1 +r2 @@" *)
Definition parse_header (line : str) : option (N * N * N * N) :=
  match split_on 32 line with
  | [at1; 45 :: r1; 43 :: r2; at2] =>
      if str_eqb at1 [64; 64] && str_eqb at2 [64; 64] then
        match parse_range r1, parse_range r2 with
        | Some ra, Some rb =>
            match range_index ra, range_index rb with
            | Some ia, Some ib => Some (ia, snd ra, ib, snd rb)
            | _, _ => None
            end
        | _, _ => None
        end
      else None
  | _ => None
  end.

Definition parse_body_line (l : str) : option (tag * str) :=
  match l with
  | 32 :: r => Some (TCtx, r)
  | 45 :: r => Some (TDel, r)
  | 43 :: r => Some (TAdd, r)
  | _ => None
  end.
Fixpoint mapM {A B} (f : A -> option B) (l : list A) : option (list B) :=
  match l with
  | [] => Some []
  | x :: r => match f x, mapM f r with Some y, Some ys => Some (y :: ys) | _, _ => None end
  end.

Definition is_hdr (l : str) : bool := match l with 64 :: _ => true | _ => false end.
(** cut the diff lines at every line that starts with '@': (lines before the first header, [(header, body)]) *)
Definition split_hunks (dl : list str) : list str * list (str * list str) :=
  fold_right (fun l acc => if is_hdr l then ([], (l, fst acc) :: snd acc) else (l :: fst acc, snd acc))
             ([], []) dl.

Definition count_tag (f : tag -> bool) (body : list (tag * str)) : N :=
  len (List.filter (fun x => f (fst x)) body).
Definition on_a (t : tag) := match t with TAdd => false | _ => true end.
Definition on_b (t : tag) := match t with TDel => false | _ => true end.

Definition parse_hunk (raw : str * list str) : option hunk :=
  match parse_header (fst raw), mapM parse_body_line (snd raw) with
  | Some (ia, la, ib, lb), Some body =>
      if (count_tag on_a body =? la) && (count_tag on_b body =? lb)
      then Some {| h_a := ia; h_alen := la; h_b := ib; h_blen := lb; h_body := body |}
      else None
  | _, _ => None
  end.

(** the diff, as lines without terminators -> hunks.  The empty diff has no hunks. *)
Definition parse_diff (dl : list str) : option (list hunk) :=
  match dl with
  | [] => Some []
  | h1 :: h2 :: rest =>
      if startswith [45; 45; 45; 32] h1 && startswith [43; 43; 43; 32] h2 then
        match split_hunks rest with
        | ([], raws) => mapM parse_hunk raws
        | _ => None
        end
      else None
  | _ => None
  end.

Fixpoint apply_body (body : list (tag * str)) (rest : list str) : option (list str * list str) :=
  match body with
  | [] => Some ([], rest)
  | (TAdd, l) :: bt =>
      match apply_body bt rest with Some (o, r) => Some (l :: o, r) | None => None end
  | (TCtx, l) :: bt =>
      match rest with
      | x :: rt => if str_eqb l x then
                     match apply_body bt rt with Some (o, r) => Some (x :: o, r) | None => None end
                   else None
      | [] => None
      end
  | (TDel, l) :: bt =>
      match rest with
      | x :: rt => if str_eqb l x then apply_body bt rt else None
      | [] => None
      end
  end.

(** [pos]/[posb]: number of old lines consumed / new lines produced so far; [rest]: old lines not yet consumed *)
Fixpoint apply_hunks (hs : list hunk) (pos posb : N) (rest : list str) : option (list str) :=
  match hs with
  | [] => Some rest
  | h :: ht =>
      if h_a h <? pos then None else
      let k := h_a h - pos in
      if negb (h_b h =? posb + k) then None else
      if len rest <? k then None else
      match apply_body (h_body h) (skipn (N.to_nat k) rest) with
      | None => None
      | Some (out, rest') =>
          match apply_hunks ht (h_a h + h_alen h) (h_b h + h_blen h) rest' with
          | Some t => Some (firstn (N.to_nat k) rest ++ out ++ t)
          | None => None
          end
      end
  end.

(** [apply_udiff diff_text old_text]: [None] on any malformed header, count mismatch, misplaced hunk or
    context/removed line that differs from the file.  The result has every line terminated by "\n". *)
Definition apply_udiff (d : str) (f : str) : option str :=
  match parse_diff (text_lines d) with
  | None => None
  | Some hs =>
      match apply_hunks hs 0 0 (text_lines f) with
      | None => None
      | Some out => Some (unlines out)
      end
  end.

(** * What the pipelines diff and what they write *)

(** LibcstTransformerPipeline.apply: [file_text] is the decoded file, [source_code] = source_tree.code (libcst's
    re-rendering of the parsed file; oracle), [new_code] = tree.code, which update_code writes.  The old side of
    the reported diff, per source variant; both sides are then split with splitlines(keepends=True). *)
Definition libcst_diff_old (v : diff_from) (file_text source_code : str) : str :=
  match v with FromTrees => source_code | FromFileText => file_text end.
