from dataclasses import dataclass, field
from pathlib import Path

from codemodder.codetf import Change, ChangeSet, Finding, UnfixedFinding
from codemodder.dependency import Dependency
from codemodder.result import Result
from codemodder.utils.timer import Timer


@dataclass
class FileContext:
    """
    Extra context for running codemods on a given file based on the cli parameters.
    """

    base_directory: Path
    file_path: Path
    line_exclude: list[int] = field(default_factory=list)
    line_include: list[int] = field(default_factory=list)
    results: list[Result] | None = field(default_factory=list)
    dependencies: set[Dependency] = field(default_factory=set)
    codemod_changes: list[Change] = field(default_factory=list)
    unfixed_findings: list[UnfixedFinding] = field(default_factory=list)
    changesets: list[ChangeSet] = field(default_factory=list)
    failures: list[Path] = field(default_factory=list)
    timer: Timer = field(default_factory=Timer)

    def add_dependency(self, dependency: Dependency):
        self.dependencies.add(dependency)

    def add_changeset(self, result: ChangeSet):
        self.changesets.append(result)

    def add_failure(self, filename: Path, reason: str):
        self.failures.append(filename)
        self.add_unfixed_findings(self.get_all_findings(), reason, 0)

    def add_unfixed_findings(
        self, findings: list[Finding], reason: str, line_number: int | None = None
    ):
        self.unfixed_findings.extend(
            [
                finding.to_unfixed_finding(
                    path=str(self.file_path.relative_to(self.base_directory)),
                    line_number=line_number,
                    reason=reason,
                )
                for finding in findings
            ]
        )

    def get_findings_for_location(self, line_number: int):
        return [
            result.finding
            for result in (self.results or [])
            if any(
                location.start.line <= line_number <= location.end.line
                for location in result.locations
            )
            and result.finding is not None
        ]

    def get_all_findings(self):
        return [
            result.finding
            for result in (self.results or [])
            if result.finding is not None
        ]
