"""C16, jwt-decode-verify: the `options={...}` dict display (coq/Model/JwtOpts.v).

In process: random dict displays (string / non-literal keys in any order, `**spread` entries anywhere, nested values, layout
variants) through the real JwtDecodeVerifyTransformer._replace_opts_dict / replace_options_arg and through the whole transformer;
end to end: helpers used by harness/c16.py's CLI runs of pixee:python/jwt-decode-verify."""
from __future__ import annotations

import ast

from harness import core
from harness.core import cN, cbool, clist, cstr

KEYS_SIMPLE = ['"verify_exp"', "'verify_signature'", '"verify_aud"', '"leeway"', "'require'", '"verify"', '"strict_aud"']
KEYS_OTHER = ["KEY", "1", '"veri" "fy_x"', "f'verify_{x}'", "cfg.name", "('verify_iat')"]
KEYS_AST = ["'verify_exp'", "'verify_signature'", "'verify_aud'", "'leeway'", "'require'", "'strict_aud'"]
VALS = ["True", "False", "False", "x", "10", "cfg.flag", "get(a, b=1)", "{'k': False}", "['exp', 'iss']", "not y"]
VALS_AST = ["True", "False", "False", "x", "10", "cfg.flag", "get(a, b=1)", "['exp', 'iss']"]
SPREADS = ["BASE", "cfg.options", "defaults()"]
KF_JWT = "kf_none:jwt-decode-verify:options"


def c_delem(d) -> str:
    from harness.c16 import c_expr
    if d[0] == "key":
        return f"(DKey {cbool(d[1])} {cstr(d[2])} {cN(d[3])} {c_expr(d[4])})"
    return f"(DSpread {cN(d[1])} {c_expr(d[2])})"


def c_delems(els) -> str:
    return clist([c_delem(d) for d in els], "delem")


def gen_dict_text(rng, ast_mode=False, spread_p=0.3, force_verify_false=False):
    """source text of a dict display"""
    keys = KEYS_AST if ast_mode else KEYS_SIMPLE + KEYS_OTHER
    vals = VALS_AST if ast_mode else VALS
    n = rng.choice([0, 1, 2, 2, 3, 4, 5])
    items, used = [], set()
    for _ in range(n):
        if rng.random() < spread_p:
            items.append("**" + rng.choice(SPREADS))
        else:
            k = rng.choice(keys)
            if k in used:
                continue
            used.add(k)
            colon = ": " if ast_mode else rng.choice([": ", ":", " : ", ":  "])
            items.append(k + colon + rng.choice(vals))
    if force_verify_false and not any(i.startswith(("'verify_", '"verify_')) and i.endswith("False") for i in items):
        items.insert(rng.randint(0, len(items)), "'verify_exp': False" if "'verify_exp'" not in used and '"verify_exp"' not in used else "'verify_nbf': False")
    sep = ", " if ast_mode else rng.choice([", ", ",", " , ", ",\n      "])
    tail = "," if items and not ast_mode and rng.random() < 0.15 else ""
    return "{" + sep.join(items) + tail + "}"


# ---- libcst side -------------------------------------------------------------------------------
def cst_delems(node, tags):
    import libcst as cst
    from harness.c16 import cst_conv
    m = cst.Module([])
    dl = tags.__dict__.setdefault("dlay", {("k", None, "", " "): 0, ("s", None, ""): 0})
    out = []
    for el in node.elements:
        comma = None if isinstance(el.comma, cst.MaybeSentinel) else m.code_for_node(el.comma)
        if isinstance(el, cst.DictElement):
            lay = ("k", comma, m.code_for_node(el.whitespace_before_colon), m.code_for_node(el.whitespace_after_colon))
            simple = isinstance(el.key, cst.SimpleString)
            out.append(("key", simple, el.key.value if simple else m.code_for_node(el.key), dl.setdefault(lay, len(dl)), cst_conv(el.value, tags)))
        else:
            lay = ("s", comma, m.code_for_node(el.whitespace_before_value))
            out.append(("spread", dl.setdefault(lay, len(dl)), cst_conv(el.value, tags)))
    return out


def c_jargs(args, tags):
    """libcst Arg sequence -> Coq list jwt_arg"""
    import libcst as cst
    from harness.c16 import c_arg, cst_conv
    call = cst_conv(cst.Call(func=cst.Name("f"), args=list(args)), tags)
    out = []
    for a, conv in zip(args, call[3]):
        if a.keyword is not None and a.keyword.value == "options" and isinstance(a.value, cst.Dict) and a.star == "":
            out.append(f"(JOptions {cN(conv[2])} {cN(conv[3])} {c_delems(cst_delems(a.value, tags))})")
        else:
            out.append(f"(JOther {c_arg(conv)})")
    return clist(out, "jwt_arg")


def kernel(ctx, n):
    import libcst as cst
    from core_codemods.jwt_decode_verify import JwtDecodeVerifyTransformer as J
    from harness.c16 import IMPORTS, Tags, gen_gargs, CONSTS_CST, Printer

    class D:
        _replace_opts_dict = J._replace_opts_dict

    rng, tags = ctx.rng, Tags()
    dcases, dmeta, acases, ameta = [], [], [], []
    corpus = ['{**BASE, "verify_exp": False, "leeway": 10}', '{"verify_signature": False}', "{}", '{"leeway": 1, **a, **b}',
              '{KEY: False, "verify" "_x": False, \'verify_aud\' : False ,}']
    for i in range(n + len(corpus)):
        text = corpus[i] if i < len(corpus) else gen_dict_text(rng)
        node = cst.parse_expression(text)
        els = cst_delems(node, tags)
        try:
            new = J._replace_opts_dict(None, node)
            obs = cst_delems(node.with_changes(elements=new), tags)
        except AttributeError:
            obs = None
        dcases.append("(%s, %s)" % (c_delems(els), core.copt(c_delems(obs) if obs is not None else None, "list delem")))
        dmeta.append({"dict": text})
        has_spread = any(d[0] == "spread" for d in els)
        ctx.case({"dict": text}, nontrivial_key=("jwt-dict", text) if len(els) >= 2 else None, sample=has_spread and len(els) >= 2)
        ctx.count("kernel.jwt.dict:" + ("with-spread" if has_spread else "no-spread"))
        ctx.count("kernel.jwt.outcome:" + ("raised" if obs is None else "rewritten"))
        # replace_options_arg on an argument list that contains the dict (and sometimes a second options-like argument)
        g = ("call", False, ("n", "f"), gen_gargs(rng, 1, CONSTS_CST, [("options", ("c", text))] + ([("verify", ("n", "False"))] if rng.random() < 0.5 else []),
                                                   forbid_kw=("options", "verify")), False)
        p = Printer()
        p.emit(g)
        call = cst.parse_expression(p.text())
        try:
            new_args = J.replace_options_arg(D(), call.args)
            obs_a = c_jargs(new_args, tags)
        except AttributeError:
            obs_a = None
        acases.append("(%s, %s)" % (c_jargs(call.args, tags), core.copt(obs_a, "list jwt_arg")))
        ameta.append({"call": p.text()})
    bad = core.eval_bad_indices(ctx, "c16_jwtd", IMPORTS, "jwt_case", dcases, ["jwt_model_ok", "jwt_spec_ok"])
    for i in bad["jwt_model_ok"]:
        ctx.mismatch("JwtDecodeVerifyTransformer._replace_opts_dict vs Model.JwtOpts.replace_opts_dict",
                     f"_replace_opts_dict differs from the model on {dmeta[i]['dict']!r}", {"op": "jwt_dict", **dmeta[i]})
    for i in bad["jwt_spec_ok"][:1]:
        ctx.violation(KF_JWT, f"jwt-decode-verify: entries of the options dict are not preserved: {dmeta[i]['dict']!r}",
                      {"op": "jwt_dict", **dmeta[i], "expected": "Spec.JwtOptsSpec.spec_opts: verify_* values True, every other entry (spreads included) kept in order"})
    bad = core.eval_bad_indices(ctx, "c16_jwta", IMPORTS, "jarg_case", acases, ["jarg_model_ok"])
    for i in bad["jarg_model_ok"]:
        ctx.mismatch("JwtDecodeVerifyTransformer.replace_options_arg vs Model.JwtOpts.replace_options_arg",
                     f"replace_options_arg differs from the model on {ameta[i]['call']!r}", {"op": "jwt_args", **ameta[i]})


# ---- `ast` side (end to end) -------------------------------------------------------------------
def ast_delems(node):
    from harness.c16 import ast_conv
    out = []
    for k, v in zip(node.keys, node.values):
        if k is None:
            out.append(("spread", 0, ast_conv(v)))
        else:
            out.append(("key", isinstance(k, ast.Constant) and isinstance(k.value, str), ast.unparse(k), 0, ast_conv(v)))
    return out


def options_dict(call):
    """entries of the `options={...}` argument of a converted call (value kept as source text), or None"""
    for a in call[3]:
        if a[0] == "options" and a[1] == 0 and a[4][0] == "c":
            try:
                node = ast.parse(a[4][1], mode="eval").body
            except SyntaxError:
                return None
            if isinstance(node, ast.Dict):
                return ast_delems(node)
    return None


def strip_options(call):
    """the call with the value of `options={...}` made opaque (the dict is judged separately)"""
    return ("call", call[1], call[2], [(a[0], a[1], a[2], a[3], ("c", "<OPTS>")) if (a[0] == "options" and a[1] == 0 and a[4][0] == "c"
                                                                                       and a[4][1].lstrip().startswith("{")) else a for a in call[3]])


def file_raises(stmts):
    """a selected call whose options dict has a `**spread`: the transformer raises and the whole file stays untouched"""
    for _, e in stmts:
        if e[0] == "call" and e[1]:
            d = options_dict(e)
            if d is not None and any(x[0] == "spread" for x in d):
                return True
    return False
