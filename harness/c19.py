"""C19 — regex and XML pipelines edit only their targets and preserve everything else.

Implementation side: the public pipeline classes (RegexTransformerPipeline, SastRegexTransformerPipeline,
XMLTransformerPipeline with ElementAttributeXMLTransformer / NewElementXMLTransformer) driven in-process on
temp files under ctx.scratch with a real CodemodExecutionContext (dry_run True and False) and a real FileContext.
Model/spec side: coq/Model/RegexPipe.v, coq/Spec/RegexPipeSpec.v, coq/Model/XmlPipe.v, coq/Spec/XmlPipeSpec.v
evaluated by vm_compute (coq/Harness/C19_run.v, C19_xml_run.v)."""
from __future__ import annotations

import json
import re
from pathlib import Path

from harness import core
from harness.core import cN, cbool, clist, copt, cpair, cstr

META = {
    "rule": "regex: random texts (LF/CRLF/CR/exotic boundaries/no final newline/unicode/empty) x patterns (literal, class, "
            "anchored, matching the newline, empty matches, back-references, no-op) x finding sets (multi-location, ranges, "
            "finding=None, line 0 / past the end), both classes, dry and real; a case is non-trivial when at least one line "
            "is edited and one is not, or a finding set overlaps an edited line; distinct by (text, pattern, results). "
            "xml: random well-formed documents (nesting, namespaces, entities, CDATA, comments, PIs, DOCTYPE, mixed content, "
            "attributes needing quoting) x attribute maps / new elements x finding sets; non-trivial = at least one element "
            "edited and one construct other than plain elements preserved",
    "trusted": ["CPython re, str.splitlines, xml.sax.expatreader/defusedxml (parser used by the implementation and to re-read "
                "its output), xml.sax.saxutils.XMLGenerator (its escape/quoteattr are modelled in XmlPipe.v and compared "
                "byte for byte on every case)"],
    "assumptions": [
        "''.join(text.splitlines(keepends=True)) == text (tested on every case)",
        "re.sub(pattern, replacement, line) is a function of the line (its graph on the case's lines is handed to the model)",
        "create_diff is a function of (original_lines, updated_lines) (its value on the observed updated lines is handed to the model)",
        "the SAX events expat delivers for the input document (recorded by the harness with the same defusedxml parser) "
        "are the input of the XML model; positions come from the expat locator",
        "finding ids are the integers the harness assigns",
    ],
}

IMPORTS = "From CM Require Import Harness.RunBase Harness.C19_run Model.RegexPipe.\n"
DESCRIPTION = "verif regex change"
REASON = "Unable to update html line"


# ------------------------------------------------------------------------------------------------
# implementation access
# ------------------------------------------------------------------------------------------------
_EXEC = {}


def exec_context(ctx, dry: bool):
    """A real CodemodExecutionContext rooted at ctx.scratch/proj (one per dry_run value)."""
    if dry not in _EXEC:
        from codemodder.context import CodemodExecutionContext
        from codemodder.project_analysis.python_repo_manager import PythonRepoManager
        from codemodder.providers import ProviderRegistry
        from codemodder.registry import CodemodRegistry
        d = ctx.scratch / "proj"
        d.mkdir(exist_ok=True)
        import logging
        from codemodder.logging import logger
        logger.setLevel(logging.CRITICAL + 1)   # "Unable to update html line" warnings / parse tracebacks are expected here
        _EXEC[dry] = CodemodExecutionContext(d, dry, False, CodemodRegistry(), ProviderRegistry(), PythonRepoManager(d), [], [])
    return _EXEC[dry]


def mk_results(spec, file: Path):
    """spec: list of (locations [(start_line, start_col, end_line, end_col)], finding id or None) -> SonarResult list"""
    from codemodder.codetf import Finding, Rule
    from codemodder.result import LineInfo
    from core_codemods.sonar.results import SonarLocation, SonarResult
    out = []
    for i, (locs, fid) in enumerate(spec):
        finding = None if fid is None else Finding(id=str(fid), rule=Rule(id="verif:rule", name="verif rule"))
        out.append(SonarResult(finding_id=f"k{i}", rule_id="verif:rule",
                               locations=[SonarLocation(file=file, start=LineInfo(a, ac), end=LineInfo(b, bc)) for a, ac, b, bc in locs],
                               finding=finding))
    return out


def obs_changeset(cs):
    if cs is None:
        return None
    return {"diff": cs.diff, "changes": [(c.lineNumber, [int(f.id) for f in (c.findings or [])]) for c in cs.changes],
            "path": cs.path, "descriptions": sorted({c.description for c in cs.changes}, key=repr)}


def obs_unfixed(fc):
    return [(int(u.id), u.lineNumber) for u in fc.unfixed_findings]


# ------------------------------------------------------------------------------------------------
# regex half
# ------------------------------------------------------------------------------------------------
PATTERNS = [
    ("literal", r"foo", "bar"),
    ("literal_noop", r"foo", "foo"),
    ("class", r"[0-9]+", "#"),
    ("anchored_start", r"^\s+", ""),
    ("anchored_end_eats_newline", r"\s+$", ""),
    ("newline", r"\n", ""),
    ("newline_to_crlf", r"\n", "\r\n"),
    ("empty_matches", r"x*", "-"),
    ("backref", r"(\w+)=(\w+)", r"\2=\1"),
    ("unicode", "é", "é"),
    ("everything", r".*", ""),
    ("never", r"\bzzzz\b", "!"),
    ("compiled_ignorecase", re.compile("FOO", re.I), "Bar"),
    ("adds_newline", r";", ";\n"),
]
TOKENS = ["foo", "bar", "x", "xx", "12", "7", " ", "  ", "\t", "a=b", "k=v", "é", "\U0001F600", ";", "FOO", "Foo", "zz", "<a>", "中"]
EOLS = ["\n", "\n", "\n", "\r\n", "\r\n", "\r", "\x0b", "\x0c", " ", "\x85", "\x1c"]


def gen_text(rng):
    mode = rng.choice(["lf", "lf", "crlf", "mixed", "nofinal", "empty", "exotic", "blank"])
    if mode == "empty":
        return mode, ""
    n = rng.choice([1, 2, 3, 4, 5, 6, 8, 12])
    lines = []
    for i in range(n):
        body = "".join(rng.choice(TOKENS) for _ in range(rng.choice([0, 1, 2, 3, 4, 6])))
        if mode == "blank" and rng.random() < 0.5:
            body = ""
        eol = {"lf": "\n", "crlf": "\r\n", "nofinal": "\n", "blank": "\n"}.get(mode) or rng.choice(EOLS if mode == "exotic" else EOLS[:6])
        lines.append(body + eol)
    text = "".join(lines)
    if mode == "nofinal" or rng.random() < 0.15:
        text = text.rstrip("\r\n\x0b\x0c \x85\x1c")
    return mode, text


def gen_findings(rng, nlines):
    """list of ([(start, scol, end, ecol)], finding id | None)"""
    k = rng.choice([0, 1, 1, 2, 3, 4, 6])
    out = []
    for i in range(k):
        locs = []
        for _ in range(rng.choice([1, 1, 1, 2, 0, 3])):
            a = rng.randint(0, nlines + 2)
            b = a + rng.choice([0, 0, 0, 1, 2, 5]) if rng.random() < 0.9 else max(0, a - 1)
            locs.append((a, rng.randint(1, 5), b, rng.randint(1, 9)))
        fid = None if rng.random() < 0.12 else rng.choice([i + 1, i + 1, 1])
        out.append((locs, fid))
    return out


def run_regex_once(ctx, cls_name, pattern, repl, data: bytes, fc_spec, res_spec, dry: bool, tag: str):
    """One apply() call through the public class on a fresh temp file.  Returns (observation | None if it raised, exc name)."""
    from codemodder.codemods import regex_transformer as rt
    from codemodder.file_context import FileContext
    ectx = exec_context(ctx, dry)
    f = ectx.directory / f"sub_{tag}" / "t.txt"
    f.parent.mkdir(exist_ok=True)
    f.write_bytes(data)
    fc = FileContext(ectx.directory, f, results=None if fc_spec is None else mk_results(fc_spec, f))
    results = None if res_spec is None else mk_results(res_spec, f)
    pipe = getattr(rt, cls_name)(pattern, repl, DESCRIPTION)
    try:
        cs = pipe.apply(ectx, fc, results)
    except Exception as e:  # noqa
        return None, type(e).__name__
    return {"ret": obs_changeset(cs), "file": f.read_bytes(), "unfixed": obs_unfixed(fc), "failed": bool(fc.failures),
            "unfixed_meta": sorted({(u.path, u.reason) for u in fc.unfixed_findings})}, None


def as_code(b: bytes) -> str:
    """file content as a Coq str: the decoded text, or (undecodable bytes) one code point per byte"""
    try:
        return b.decode("utf-8")
    except UnicodeDecodeError:
        return b.decode("latin-1")


READ_REASON = "Failed to read file"
TRANSFORM_REASON = "Failed to transform file"


def regex_case(ctx, cls_name, pname, pattern, repl, text, fc_spec, res_spec, idx):
    """Run the implementation (real + dry + _apply alone) and build the Coq case term."""
    from codemodder.codemods import regex_transformer as rt
    from codemodder.diff import create_diff
    from codemodder.file_context import FileContext
    # `text` is a str, or bytes that do not decode as UTF-8 (fault stream)
    decodes = isinstance(text, str)
    data = text.encode("utf-8") if decodes else text
    if not decodes:
        text = ""
    lines = text.splitlines(keepends=True)
    if "".join(lines) != text:
        ctx.mismatch("str.splitlines contract", "join(splitlines(keepends)) != text", {"text": text})
    sast = cls_name == "SastRegexTransformerPipeline"
    real, exc_r = run_regex_once(ctx, cls_name, pattern, repl, data, fc_spec, res_spec, False, "real")
    dry, exc_d = run_regex_once(ctx, cls_name, pattern, repl, data, fc_spec, res_spec, True, "dry")
    # the oracles' graphs
    graph = []
    for l in dict.fromkeys(lines):
        graph.append((l, re.sub(pattern, repl, l)))
    diffs = []
    try:
        p = ctx.scratch / "proj" / "t_apply.txt"
        fc = FileContext(ctx.scratch / "proj", p, results=None if fc_spec is None else mk_results(fc_spec, p))
        _, upd = getattr(rt, cls_name)(pattern, repl, DESCRIPTION)._apply(
            lines, fc, None if res_spec is None else mk_results(res_spec, p))
        diffs.append((list(upd), create_diff(lines, list(upd))))
    except Exception:  # noqa  (results=None on the SAST class)
        pass
    meta = {"pipeline": cls_name, "pattern": pname, "text": text if decodes else None, "data": None if decodes else list(data),
            "fc_results": fc_spec, "results": res_spec,
            "real": _jsonable(real), "dry": _jsonable(dry), "raised": [exc_r, exc_d]}

    def c_results(spec):
        return clist(["{| r_locs := %s; r_finding := %s |}" % (
            clist([cpair(cN(a), cN(b)) for a, _, b, _ in locs], "N * N"), copt(None if fid is None else cN(fid), "N"))
            for locs, fid in spec], "result")

    def c_obs(o):
        if o is None:
            return "(None : obs)"
        ret = o["ret"]
        cret = copt(None if ret is None else cpair(cstr(ret["diff"]), clist(
            ["{| c_line := %s; c_findings := %s |}" % (cN(n), clist([cN(x) for x in fs], "N")) for n, fs in ret["changes"]], "change")),
            "str * list change")
        return "(Some %s : obs)" % cpair(cret, cstr(as_code(o["file"])), clist([cpair(cN(i), cN(n or 0)) for i, n in o["unfixed"]], "N * N"),
                                         cbool(o["failed"]))

    term = ("{| rc_sast := %s; rc_raw := %s; rc_decodes := %s; rc_lines := %s; rc_graph := %s; rc_fc := %s; rc_results := %s; rc_diffs := %s; "
            "rc_real := %s; rc_dry := %s |}") % (
        cbool(sast), cstr(as_code(data)), cbool(decodes), clist([cstr(l) for l in lines], "str"),
        clist([cpair(cstr(a), cstr(b)) for a, b in graph], "str * str"),
        c_results(fc_spec or []), copt(None if res_spec is None else c_results(res_spec), "list result"),
        clist([cpair(clist([cstr(l) for l in u], "str"), cstr(d)) for u, d in diffs], "list str * str"),
        c_obs(real), c_obs(dry))
    # python-side checks of what the model does not carry: path, description, reason
    for o in (real, dry):
        if o and o["ret"] is not None:
            if o["ret"]["path"] != f"sub_{'real' if o is real else 'dry'}/t.txt" or o["ret"]["descriptions"] != [DESCRIPTION]:
                ctx.violation("kf_regex_change_metadata", f"ChangeSet path/description wrong: {o['ret']['path']} {o['ret']['descriptions']}", meta)
        want = READ_REASON if not decodes else TRANSFORM_REASON if (sast and res_spec is None) else REASON
        if o and o["unfixed_meta"] and any(r != want for _, r in o["unfixed_meta"]):
            ctx.violation("kf_regex_change_metadata", f"unfixed finding reason/path wrong: {o['unfixed_meta']} (expected reason {want!r})", meta)
    edited = sum(1 for a, b in zip(lines, diffs[0][0]) if a != b) if diffs else 0
    return term, meta, edited, len(lines)


def _jsonable(o):
    if o is None:
        return None
    d = dict(o)
    d["file"] = d["file"].decode("utf-8", errors="replace")
    return d


def _spec(j):
    return None if j is None else [([tuple(l) for l in locs], fid) for locs, fid in j]


def load_regex_corpus():
    """corpus/C19/regex.json: hand-picked regression inputs and the witness of the refuted (pinned) index form"""
    f = core.VERIF / "corpus" / "C19" / "regex.json"
    return [(e["name"], e["pname"], e["pattern"], e["repl"], bytes(e["bytes"]) if "bytes" in e else e["text"],
             _spec(e["fc_results"]), _spec(e["results"]))
            for e in json.loads(f.read_text())] if f.exists() else []


# fault stream: bytes that do not decode as UTF-8 (DESIGN §6 #21; isolated since fix 49f7472)
UNDECODABLE = [b"foo\xff\n", b"\xfe\xff\x00f\x00o", b"ok\nfoo \xc3\x28\n", b"\x80", b"foo\n\xed\xa0\x80\n"]


def run_regex(ctx):
    rng = ctx.rng
    n = 260 if ctx.quick() else 2500
    if getattr(ctx, "deep", False):
        n *= 3
    plan = []
    for name, pname, pat, repl, text, fcs, rs in load_regex_corpus():
        name = 'corpus:' + name
        for cls in ("RegexTransformerPipeline", "SastRegexTransformerPipeline"):
            plan.append((name, cls, pname, pat, repl, text, fcs, rs))
    for i in range(n):
        mode, text = gen_text(rng)
        pname, pat, repl = rng.choice(PATTERNS)
        nlines = len(text.splitlines())
        fcs = gen_findings(rng, nlines)
        for cls in ("RegexTransformerPipeline", "SastRegexTransformerPipeline"):
            r = rng.random()
            if cls.startswith("Sast"):
                # the results handed to apply(): usually the file context's, sometimes a subset / other list / [] / None
                rs = fcs if r < 0.6 else (fcs[: len(fcs) // 2] if r < 0.75 else (gen_findings(rng, nlines) if r < 0.93 else ([] if r < 0.98 else None)))
            else:
                rs = fcs if r < 0.8 else None
            fc_spec = fcs if rng.random() < 0.95 else None
            plan.append((f"gen:{mode}", cls, pname, pat, repl, text, fc_spec, rs))
    for i in range(6 if ctx.quick() else 40):
        data = rng.choice(UNDECODABLE) + (rng.choice(["", "foo\n", "é"]).encode() if i >= len(UNDECODABLE) else b"")
        data = UNDECODABLE[i] if i < len(UNDECODABLE) else data
        fcs = gen_findings(rng, 3)
        for cls in ("RegexTransformerPipeline", "SastRegexTransformerPipeline"):
            plan.append(("fault:undecodable", cls, "literal", r"foo", "bar", data, fcs, fcs if rng.random() < 0.8 else None))
    # exhaustive small scope (thorough): every text of <= 3 lines over {"foo\n","zz\n","foo"} x every single-location finding
    if not ctx.quick():
        atoms = ["foo\n", "zz\n", "foo\r\n"]
        texts = [""] + ["".join(t) for k in (1, 2, 3) for t in __import__("itertools").product(atoms, repeat=k)]
        for text in texts:
            nl = len(text.splitlines())
            for a in range(0, nl + 2):
                for b in range(a, nl + 2):
                    fcs = [([(a, 1, b, 1)], 1), ([(1, 1, 1, 1)], 2)]
                    for cls in ("RegexTransformerPipeline", "SastRegexTransformerPipeline"):
                        plan.append(("exhaustive", cls, "literal", r"foo", "bar", text, fcs, fcs))

    terms, metas = [], []
    for mode, cls, pname, pat, repl, text, fcs, rs in plan:
        term, meta, edited, nlines = regex_case(ctx, cls, pname, pat, repl, text, fcs, rs, len(terms))
        meta["mode"] = mode
        terms.append(term)
        metas.append(meta)
        ctx.count("regex_class:" + cls)
        ctx.count("regex_text:" + mode.split(":")[0])
        ctx.count("regex_pattern:" + pname)
        ctx.count("regex_edited_lines:" + ("0" if edited == 0 else "all" if edited == nlines else "some"))
        ctx.count("regex_results:" + ("None" if rs is None else "empty" if not rs else "some"))
        if meta["raised"][0]:
            ctx.count("regex_raised:" + meta["raised"][0])
        overlap = bool(meta["real"] and meta["real"]["ret"] and any(fs for _, fs in meta["real"]["ret"]["changes"]))
        nontrivial = (0 < edited < nlines) or overlap
        ctx.case({"class": cls, "pattern": pname, "text": text if isinstance(text, str) else repr(text), "fc_results": fcs, "results": rs,
                  "returned": meta["real"] and meta["real"]["ret"]},
                 nontrivial_key=(cls, pname, text, repr(fcs), repr(rs)) if nontrivial else None,
                 sample=nontrivial and overlap)

    checks = ["regex_model_ok", "regex_spec_file_ok", "regex_spec_changes_ok", "regex_spec_findings_ok", "regex_spec_unfixed_ok",
              "regex_spec_isolation_ok"]
    bad = core.eval_bad_indices(ctx, "c19_regex", IMPORTS, "regex_case", terms, checks, chunk=300)
    for i in bad["regex_model_ok"]:
        m = metas[i]
        ctx.mismatch(f"{m['pipeline']}.apply vs Model.RegexPipe", f"apply() differs from the model: pattern={m['pattern']} text={(m['text'] if m['text'] is not None else bytes(m['data']))!r} "
                     f"fc_results={m['fc_results']} results={m['results']} observed={m['real']}", {"half": "regex", **m})
    what = {
        "regex_spec_file_ok": ("kf_regex_untargeted_changed", "file content is not 'every line identical or a target line (SAST: a line that carries a finding "
                               "of the results handed in) replaced by its substitution; dry-run / no change untouched'"),
        "regex_spec_changes_ok": ("kf_regex_changes_not_edits", "changes are not one per edited line (1-based, in order), or None/ChangeSet or diff wrong"),
        "regex_spec_findings_ok": ("kf_regex_findings_off_by_one", "a change does not carry exactly the findings whose range contains its line"),
        "regex_spec_unfixed_ok": ("kf_regex_unfixed_wrong", "an unfixed finding is reported for an edited line, for a line that carries no finding, or is not a finding of that line"),
        "regex_spec_isolation_ok": ("kf_regex_no_isolation", "a file that cannot be read (undecodable) or transformed (_apply raises) is not isolated: "
                                    "the exception escapes apply(), or no failure is recorded / the file is touched / its findings are not reported "
                                    "unfixed at line 0 (or a failure is recorded for a good file)"),
    }
    for chk, (cls, text) in what.items():
        for i in bad[chk]:
            m = metas[i]
            ctx.violation(cls, f"{m['pipeline']}: {text}; pattern={m['pattern']} text={(m['text'] if m['text'] is not None else bytes(m['data']))!r} fc_results={m['fc_results']} "
                          f"results={m['results']} observed(real)={m['real']} observed(dry)={m['dry']}", {"half": "regex", **m})

    if ctx.tables.get("regex_apply_isolation") == "NoTry":
        ctx.notes.append("regex_transformer.py has the pinned apply(): an undecodable file / a raising _apply escapes (DESIGN §6 #21)")


# ------------------------------------------------------------------------------------------------
def run(ctx: core.Ctx):
    """An exception while driving the implementation (a constructor of the harness' own set-up that no longer fits, coqc
    rejecting a case file, ...) is not an observation about the property: it breaks the tie (ctx.mismatch), it is never
    reported as a violation with a concrete input and never kills the check."""
    import traceback
    for name, part in (("regex", run_regex), ("xml", _run_xml)):
        try:
            part(ctx)
        except Exception as e:  # noqa
            ctx.mismatch(f"C19 harness ({name} half)", f"could not drive the implementation / evaluate the model: {type(e).__name__}: {e}",
                         {"half": name + "-harness", "traceback": traceback.format_exc()[-3000:]})


def _run_xml(ctx):
    from harness import c19_xml
    c19_xml.run(ctx)


def replay(ctx, body):
    if str(body.get("half", "")).endswith("-harness"):
        print("tie break recorded by the harness itself, no input to replay:\n", body.get("traceback"))
        return 0
    if str(body.get("half", "")).startswith("xml"):
        from harness import c19_xml
        return c19_xml.replay(ctx, body)
    pats = {p[0]: p for p in PATTERNS}
    pats.update({c[1]: (c[1], c[2], c[3]) for c in load_regex_corpus()})
    _, pat, repl = pats[body["pattern"]]
    fcs, rs = _spec(body["fc_results"]), _spec(body["results"])
    for dry in (False, True):
        data = bytes(body["data"]) if body.get("data") is not None else body["text"].encode()
        o, exc = run_regex_once(ctx, body["pipeline"], pat, repl, data, fcs, rs, dry, "replay")
        print(f"dry_run={dry}: raised={exc} observed now: {_jsonable(o)}")
    print("recorded (real):", body.get("real"))
    print("expected: one change per edited line, lineNumber 1-based, findings = those whose [start.line, end.line] contains it; "
          "untargeted lines identical; dry-run writes nothing; an unreadable file or a raising _apply is a recorded failure "
          "(apply returns None, file untouched, findings unfixed at line 0), never an escaping exception")
    return 0
