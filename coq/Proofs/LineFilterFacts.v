(** Lemmas for C13. *)
From CM Require Import Model.LineFilter Spec.LineFilterSpec Proofs.GlobFacts.
From Coq Require Import Lia.

Lemma memZ_In z l : memZ z l = true <-> In z l.
Proof.
  unfold memZ. rewrite existsb_exists. split.
  - intros [x [Hx He]]. apply Z.eqb_eq in He. subst. exact Hx.
  - intros H. exists z. split; [exact H | apply Z.eqb_refl].
Qed.

Lemma match_line_single p n : single_line p n -> forall l, match_line p l = Z.eqb n l.
Proof. intros [Hs He] l. unfold match_line. rewrite Hs, He. destruct (Z.eqb n l); reflexivity. Qed.

Lemma match_line_true p l : match_line p l = true <-> single_line p l.
Proof. unfold match_line, single_line. rewrite Bool.andb_true_iff, !Z.eqb_eq. reflexivity. Qed.

Lemma match_line_multiline p : start_line p <> end_line p -> forall l, match_line p l = false.
Proof.
  intros H l. destruct (match_line p l) eqn:E; [| reflexivity]. apply match_line_true in E. destruct E; congruence.
Qed.

Lemma existsb_match_line_single p n l : single_line p n -> existsb (match_line p) l = memZ n l.
Proof.
  intros H. unfold memZ. induction l as [| x l IH]; simpl; [reflexivity |]. rewrite (match_line_single p n H), IH. reflexivity.
Qed.

(** the repaired rule decides exactly [permittedb] on single-line nodes *)
Lemma filter_single p n ex inc : single_line p n ->
  filter_by_path_includes_or_excludes ExcludeThenInclude ex inc p = permittedb ex inc n.
Proof.
  intros H. unfold filter_by_path_includes_or_excludes, permittedb.
  destruct ex as [| e ex]; destruct inc as [| i inc]; rewrite ?(existsb_match_line_single p n _ H); try reflexivity.
  - destruct (memZ n (e :: ex)); reflexivity.
  - destruct (memZ n (e :: ex)); reflexivity.
Qed.

(** the rule as written decides [shadow_permittedb], which is [permittedb] as long as one of the lists is empty *)
Lemma filter_single_shadow p n ex inc : single_line p n ->
  filter_by_path_includes_or_excludes ExcludeShadowsInclude ex inc p = shadow_permittedb ex inc n.
Proof.
  intros H. unfold filter_by_path_includes_or_excludes, shadow_permittedb.
  destruct ex as [| e ex]; [destruct inc as [| i inc]; [reflexivity |] |]; rewrite (existsb_match_line_single p n _ H); reflexivity.
Qed.
Lemma shadow_permittedb_alone ex inc n : ex = [] \/ inc = [] -> shadow_permittedb ex inc n = permittedb ex inc n.
Proof.
  intros [-> | ->]; unfold shadow_permittedb, permittedb; simpl.
  - reflexivity.
  - destruct ex; simpl; [reflexivity | now rewrite Bool.andb_true_r].
Qed.

Lemma permittedb_Permitted ex inc n : permittedb ex inc n = true <-> Permitted ex inc n.
Proof.
  unfold permittedb, Permitted. rewrite Bool.andb_true_iff, Bool.negb_true_iff.
  assert (H1 : memZ n ex = false <-> ~ In n ex).
  { rewrite <- memZ_In. destruct (memZ n ex); split; congruence. }
  rewrite H1. destruct inc as [| i inc].
  - split; [intros [H _]; split; [exact H | left; reflexivity] | intros [H _]; split; [exact H | reflexivity]].
  - rewrite memZ_In. split; [intros [H H2]; split; [exact H | right; exact H2] | intros [H [H2 | H2]]; [discriminate | split; assumption]].
Qed.

Lemma In_append_new n : forall extra lines, In n (append_new lines extra) <-> In n lines \/ In n extra.
Proof.
  induction extra as [| x r IH]; intros lines; simpl.
  - tauto.
  - destruct (memZ x lines) eqn:E.
    + rewrite IH. apply memZ_In in E. split; [tauto |]. intros [H | [H | H]]; [tauto | subst; tauto | tauto].
    + rewrite IH, in_app_iff. simpl. tauto.
Qed.

Lemma In_file_line_patterns path : forall pats lines, file_line_patterns path pats = Some lines ->
  forall n, In n lines <-> exists pat g l, In pat pats /\ split_on 58 pat = [g; l] /\ parse_int l = Some n /\ fnmatch path g = true.
Proof.
  induction pats as [| pat r IH]; intros lines H n; simpl in H.
  - injection H as <-. split; [intros [] | intros [pat [g [l [[] _]]]]].
  - assert (Hskip : forall lines', file_line_patterns path r = Some lines' ->
              (forall g l, split_on 58 pat = [g; l] -> fnmatch path g = false) ->
              (In n lines' <-> exists pat0 g l, In pat0 (pat :: r) /\ split_on 58 pat0 = [g; l] /\ parse_int l = Some n /\ fnmatch path g = true)).
    { intros lines' Hr Hno. rewrite (IH lines' Hr n). split.
      - intros [p [g [l [Hin Hrest]]]]. exists p, g, l. split; [right; exact Hin | exact Hrest].
      - intros [p [g [l [[<- | Hin] [Hs [Hp Hm]]]]]].
        + rewrite (Hno g l Hs) in Hm. discriminate.
        + exists p, g, l. repeat split; assumption. }
    destruct (split_on 58 pat) as [| g [| l [| x t]]] eqn:Es; try (apply (Hskip lines H); intros; discriminate).
    destruct (fnmatch path g) eqn:Em.
    + destruct (parse_int l) as [k |] eqn:Ep; [| discriminate].
      destruct (file_line_patterns path r) as [ns |] eqn:Er; [| discriminate]. injection H as <-. simpl. rewrite (IH ns eq_refl n). split.
      * intros [<- | [p [g' [l' [Hin Hrest]]]]].
        -- exists pat, g, l. repeat split; [left; reflexivity | exact Es | exact Ep | exact Em].
        -- exists p, g', l'. split; [right; exact Hin | exact Hrest].
      * intros [p [g' [l' [[<- | Hin] [Hs [Hp Hm]]]]]].
        -- left. rewrite Es in Hs. injection Hs as <- <-. congruence.
        -- right. exists p, g', l'. repeat split; assumption.
    + apply (Hskip lines H). intros g' l' Hs. injection Hs as <- <-. exact Em.
Qed.

(** [process_file_lines Both] yields exactly the lines the pattern list denotes. *)
Lemma process_file_lines_both as_passed rel pats lines :
  process_file_lines Both as_passed (Some rel) pats = Some lines ->
  forall n, In n lines <-> Denotes pats as_passed rel n.
Proof.
  unfold process_file_lines. destruct (file_line_patterns as_passed pats) as [l1 |] eqn:E1; [| discriminate].
  destruct (file_line_patterns rel pats) as [l2 |] eqn:E2; [| discriminate]. intros H n. injection H as <-.
  rewrite In_append_new, (In_file_line_patterns _ _ _ E1 n), (In_file_line_patterns _ _ _ E2 n). unfold Denotes. split.
  - intros [[p [g [l [Hin [Hs [Hp Hm]]]]]] | [p [g [l [Hin [Hs [Hp Hm]]]]]]]; exists p, g, l; repeat split; try assumption;
      [left | right]; apply fnmatch_GlobMatches; exact Hm.
  - intros [p [g [l [Hin [Hs [Hp [Hm | Hm]]]]]]]; [left | right]; exists p, g, l; repeat split; try assumption;
      apply fnmatch_GlobMatches; exact Hm.
Qed.

Lemma process_file_lines_aspassed as_passed rel pats lines :
  process_file_lines AsPassedAbsolute as_passed rel pats = Some lines ->
  forall n, In n lines <-> exists pat g l, In pat pats /\ split_on 58 pat = [g; l] /\ parse_int l = Some n /\ GlobMatches g as_passed.
Proof.
  unfold process_file_lines. intros H n. rewrite (In_file_line_patterns _ _ _ H n).
  split; intros [p [g [l [Hin [Hs [Hp Hm]]]]]]; exists p, g, l; repeat split; try assumption; apply fnmatch_GlobMatches; exact Hm.
Qed.
