(** C01 — every file codemodder rewrites is still syntactically valid Python.
    Full statement: for all registered codemods K, alone or in sequence, and all parseable files P:
    compile(P) ok => compile(run_K(P)) ok.
    What is proved here is _partial: (i) the lifting theorem reduces the whole-run claim to the local contract of each
    transformer (any codemod list, any options); (ii) kernel theorems for the rewrite logic that is modelled.  For the
    transformers that are not modelled the local contract is only searched (harness/e2e_props.py). *)
From CM Require Import Model.StrLit Proofs.StrLitFacts Generated.Tables.

(** lazy-logging re-quoting: when every literal piece can stand between double quotes as it is, the rebuilt format
    string is exactly one string literal with the joined content ... *)
Theorem C01_requote_lexes : forall ps, forallb piece_safe ps = true -> lexes_as_one (requote ps) (concat (map piece_text ps)).
Proof. exact requote_lexes. Qed.
Print Assumptions C01_requote_lexes.

(** ... and outside that guard the faithful model produces text that is NOT one literal (finding class kf_lazy_logging_quote). *)
Theorem C01_requote_refuted : forallb piece_safe w_pieces = false /\ ~ exists body, lexes_as_one (requote w_pieces) body.
Proof. exact requote_refuted. Qed.
Print Assumptions C01_requote_refuted.

Example C01_requote_example : forallb piece_safe [Lit [97; 92; 34; 32]%N; Other; Lit [39]%N] = true.
Proof. reflexivity. Qed.
