(** Model of the dependency-manifest writers (C14), mirroring the code as written.
    Sources: codemodder/dependency_management/{base_dependency_writer,requirements_txt_writer,setupcfg_writer}.py,
    codemodder/project_analysis/file_parsers/{package_store,requirements_txt_file_parser}.py,
    codemodder/project_analysis/python_repo_manager.py, codemodder/context.py (process_dependencies, add_description).
    Text is [str] (code points of the utf-8 decoded file), lines are [list str].  Definitions only. *)
From CM Require Export Base.Str Base.Types_Manifest.

Definition LF : N := 10.
Definition CR : N := 13.

(* ------------------------------------------------------------------------------------------------ *)
(** * Text-mode file I/O of CPython *)

(** [open(path, "r")] (newline=None): "\r\n" and a lone "\r" are read as "\n". *)
Fixpoint univ_nl (s : str) : str :=
  match s with
  | [] => []
  | c :: r =>
      if N.eqb c CR then
        match r with
        | c' :: r' => if N.eqb c' LF then LF :: univ_nl r' else LF :: univ_nl r
        | [] => [LF]
        end
      else c :: univ_nl r
  end.

(** [f.readlines()] after newline translation: cut after every "\n"; the last piece is kept when non-empty. *)
Fixpoint readlines_lf (s : str) : list str :=
  match s with
  | [] => []
  | c :: r =>
      if N.eqb c LF then [LF] :: readlines_lf r
      else match readlines_lf r with
           | [] => [[c]]
           | l :: ls => (c :: l) :: ls
           end
  end.
Definition readlines (text : str) : list str := readlines_lf (univ_nl text).

(** [f.writelines(lines)] on a file opened with "w" (newline=None, os.linesep = "\n"): plain concatenation. *)
Definition writelines (lines : list str) : str := concat lines.

Fixpoint ends_lf (l : str) : bool :=
  match l with
  | [] => false
  | [c] => N.eqb c LF
  | _ :: r => ends_lf r
  end.

(* ------------------------------------------------------------------------------------------------ *)
(** * Names: PackageStore.has_requirement, DependencyWriter.add / write *)

Definition lower_ascii (c : N) : N := if (65 <=? c)%N && (c <=? 90)%N then (c + 32)%N else c.
Definition is_name_sep (c : N) : bool := N.eqb c 45 || N.eqb c 95 || N.eqb c 46.   (* - _ . *)

(** packaging.utils.canonicalize_name: re.sub(r"[-_.]+", "-", name).lower()  (names are ASCII). *)
Fixpoint canon (s : str) : str :=
  match s with
  | [] => []
  | c :: r =>
      if is_name_sep c then
        match r with
        | c' :: _ => if is_name_sep c' then canon r else 45%N :: canon r
        | [] => [45%N]
        end
      else lower_ascii c :: canon r
  end.

Definition name_key (v : name_cmp) (n : str) : str :=
  match v with Exact => n | Canonical => canon n end.

(** [has_requirement]: membership of the (compared form of the) name in the set of declared names. *)
Definition has_requirement (v : name_cmp) (declared : list str) (n : str) : bool :=
  mem_str (name_key v n) (map (name_key v) declared).

(** A dependency to add: [requirement.name] and [str(requirement)]. *)
Record dep := { dname : str; dline : str }.

(** [DependencyWriter.add]: keep the dependencies not yet declared; each kept one is added to the store's
    set at once, so a later dependency of the same name is dropped. *)
Fixpoint add_deps (v : name_cmp) (deps : list dep) (declared : list str) : list dep :=
  match deps with
  | [] => []
  | d :: r =>
      if has_requirement v declared (dname d) then add_deps v r declared
      else d :: add_deps v r (declared ++ [dname d])
  end.

(** Result of a writer: [WNone] = `return None`; [WCrash] = an exception escapes; [WSome] = a changeset
    (we keep the line numbers of its changes). *)
Inductive wres := WNone | WCrash | WSome (linenums : list N).

(* ------------------------------------------------------------------------------------------------ *)
(** * requirements.txt: RequirementsTxtWriter.add_to_file *)

(** `if not original_lines[-1].endswith("\n"): original_lines[-1] += "\n"` ; [None] = IndexError on []. *)
Fixpoint fix_last (ls : list str) : option (list str) :=
  match ls with
  | [] => None
  | [l] => Some [if ends_lf l then l else l ++ [LF]]
  | l :: r => match fix_last r with Some r' => Some (l :: r') | None => None end
  end.

Definition req_lines (deps : list dep) : list str := map (fun d => dline d ++ [LF]) deps.

Fixpoint linenums_from (n : N) (deps : list dep) : list N :=
  match deps with [] => [] | _ :: r => N.succ n :: linenums_from (N.succ n) r end.

(** Returns the result and the text of the file afterwards. [g] is the dry-run guard found in the source. *)
Definition req_add_to_file (g : dry_guard) (dry : bool) (text : str) (deps : list dep) : wres * str :=
  match fix_last (readlines text) with
  | None => (WCrash, text)
  | Some original_lines =>
      let updated := original_lines ++ req_lines deps in
      let written := match g with DryGuarded => negb dry | DryIgnored => true end in
      (WSome (linenums_from (N.of_nat (length original_lines)) deps),
       if written then writelines updated else text)
  end.

(** [DependencyWriter.write] for requirements.txt. *)
Definition req_write (v : name_cmp) (g : dry_guard) (dry : bool) (text : str) (declared : list str) (deps : list dep)
  : wres * str :=
  match add_deps v deps declared with
  | [] => (WNone, text)
  | new => req_add_to_file g dry text new
  end.

(* ------------------------------------------------------------------------------------------------ *)
(** * requirements.txt parser side: str.splitlines and RequirementsTxtParser._clean_lines *)

(** str.isspace() *)
Definition is_space (c : N) : bool :=
  ((9 <=? c) && (c <=? 13) || (28 <=? c) && (c <=? 32) || N.eqb c 133 || N.eqb c 160 || N.eqb c 5760
   || (8192 <=? c) && (c <=? 8202) || N.eqb c 8232 || N.eqb c 8233 || N.eqb c 8239 || N.eqb c 8287 || N.eqb c 12288)%N.

(** line boundaries of str.splitlines (besides "\r\n") *)
Definition is_linebreak (c : N) : bool :=
  ((10 <=? c) && (c <=? 13) || (28 <=? c) && (c <=? 30) || N.eqb c 133 || N.eqb c 8232 || N.eqb c 8233)%N.

(** str.splitlines() (keepends=False); [cur] is the current line, reversed. *)
Fixpoint splitlines_aux (cur : str) (s : str) : list str :=
  match s with
  | [] => match cur with [] => [] | _ => [rev cur] end
  | c :: r =>
      if is_linebreak c then
        match r with
        | c' :: r' => if N.eqb c CR && N.eqb c' LF then rev cur :: splitlines_aux [] r'
                      else rev cur :: splitlines_aux [] r
        | [] => [rev cur]
        end
      else splitlines_aux (c :: cur) r
  end.
Definition splitlines (s : str) : list str := splitlines_aux [] s.

Fixpoint lstrip (s : str) : str :=
  match s with
  | [] => []
  | c :: r => if is_space c then lstrip r else s
  end.
Definition rstrip (s : str) : str := rev (lstrip (rev s)).
Definition strip (s : str) : str := lstrip (rstrip s).

Fixpoint starts_with (p s : str) : bool :=
  match p, s with
  | [], _ => true
  | a :: p', b :: s' => N.eqb a b && starts_with p' s'
  | _ :: _, [] => false
  end.
Definition ends_with (s suffix : str) : bool := starts_with (rev suffix) (rev s).

(** s.split(sep)[0] for a one-character separator *)
Fixpoint before_char (sep : N) (s : str) : str :=
  match s with
  | [] => []
  | c :: r => if N.eqb c sep then [] else c :: before_char sep r
  end.

(** `line.split("#")[0].strip() for line in lines if not line.startswith(("#", "-r "))` (as a list; the
    implementation builds a set). *)
Definition clean_line (l : str) : str := strip (before_char 35 l).
Definition keep_line (l : str) : bool := negb (starts_with [35%N] l || starts_with [45; 114; 32]%N l).
Definition clean_lines (lines : list str) : list str := map clean_line (List.filter keep_line lines).

(* ------------------------------------------------------------------------------------------------ *)
(** * setup.cfg: SetupCfgWriter.build_new_lines / add_to_file *)

(** s.split(sep) for a one-character separator: always at least one piece. *)
Fixpoint split_on (sep : N) (s : str) : list str :=
  match s with
  | [] => [[]]
  | c :: r =>
      if N.eqb c sep then [] :: split_on sep r
      else match split_on sep r with
           | [] => [[c]]
           | p :: ps => (c :: p) :: ps
           end
  end.

(** list.index: position of the FIRST element equal to [x]; [None] = ValueError. *)
Fixpoint index_of (x : str) (l : list str) : option nat :=
  match l with
  | [] => None
  | y :: r => if str_eqb y x then Some O else match index_of x r with Some i => Some (S i) | None => None end
  end.

(** re.match(r"(\s+)", s): the leading run of whitespace ("" when there is none). *)
Fixpoint leading_ws (s : str) : str :=
  match s with
  | [] => []
  | c :: r => if is_space c then c :: leading_ws r else []
  end.

Fixpoint last_opt {A} (l : list A) : option A :=
  match l with [] => None | [x] => Some x | _ :: r => last_opt r end.

(** ",".join(parts) *)
Fixpoint join_comma (parts : list str) : str :=
  match parts with
  | [] => []
  | [p] => p
  | p :: r => p ++ [44%N] ++ join_comma r
  end.

Inductive built := BNone | BCrash | BLines (newline_separated : bool) (lines : list str).

(** [build_new_lines(original_lines, defined_dependencies, dependencies_to_add)] as written.
    [defined] is what configparser returns for options.install_requires (oracle input). *)
Definition cfg_build_new_lines (original_lines : list str) (defined : str) (deps : list dep) : built :=
  let clean := map strip original_lines in
  let parts := split_on LF defined in
  if (1 <? length parts)%nat then
    let last_dep_line := last parts [] in
    match index_of last_dep_line clean with
    | None => BNone
    | Some i =>
        let formatting := leading_ws (nth i original_lines []) in
        BLines true (firstn (S i) original_lines
                     ++ map (fun d => formatting ++ dline d ++ [LF]) deps
                     ++ skipn (S i) original_lines)
    end
  else
    match last_opt (List.filter (fun l => ends_with l defined) clean) with
    | None => BCrash                                   (* [...][-1] on an empty list *)
    | Some last_dep_line =>
        match index_of last_dep_line clean with
        | None => BNone
        | Some i =>
            let new_dep := join_comma (map (fun d => dline d ++ [44%N]) deps) in
            BLines false (firstn i original_lines
                          ++ [rstrip (nth i original_lines []) ++ [44; 32]%N ++ new_dep ++ [LF]]
                          ++ skipn (S i) original_lines)
        end
    end.

(** [add_to_file]: [defined = None] stands for ParsingError / no [options] section; an empty value returns None too.
    The write happens BEFORE the diff and the change list are computed; in the comma-separated branch the diff
    has one changed line number, so `added_line_nums[i]` raises IndexError for a second dependency
    (difflib is an oracle: only the number of changed lines is modelled). *)
(** The lines handed to build_new_lines (and to the diff): `f.readlines()`, in the repaired form with the last
    line terminated (`if original_lines and not original_lines[-1].endswith("\n"): original_lines[-1] += "\n"`). *)
Definition cfg_lines (lv : cfg_last_line) (text : str) : list str :=
  match lv with
  | LastLineAsIs => readlines text
  | LastLineTerminated => match fix_last (readlines text) with Some ls => ls | None => readlines text end
  end.

Definition cfg_add_to_file (lv : cfg_last_line) (g : dry_guard) (dry : bool) (text : str) (defined : option str)
           (deps : list dep) : wres * str :=
  match defined with
  | None => (WNone, text)
  | Some [] => (WNone, text)
  | Some df =>
      let original_lines := cfg_lines lv text in
      match cfg_build_new_lines original_lines df deps with
      | BNone => (WNone, text)
      | BCrash => (WCrash, text)
      | BLines nlsep new_lines =>
          match new_lines with
          | [] => (WNone, text)
          | _ =>
              let written := match g with DryGuarded => negb dry | DryIgnored => true end in
              let after := if written then writelines new_lines else text in
              if negb nlsep && (1 <? length deps)%nat then (WCrash, after) else (WSome [], after)
          end
      end
  end.

Definition cfg_write (v : name_cmp) (lv : cfg_last_line) (g : dry_guard) (dry : bool) (text : str)
           (defined : option str) (declared : list str) (deps : list dep) : wres * str :=
  match add_deps v deps declared with
  | [] => (WNone, text)
  | new => cfg_add_to_file lv g dry text defined new
  end.

(* ------------------------------------------------------------------------------------------------ *)
(** * context.process_dependencies / add_description over abstract writer outcomes *)

(** [outs] = what `DependencyManager(store, dir).write(deps, dry_run)` returns for each store of
    `repo_manager.package_stores`, in order ([true] = a changeset, [false] = None).  The result lists the
    indices of the stores whose changeset is recorded (= whose manifest has been written). *)
Fixpoint pd_loop (form : dep_loop) (i : nat) (outs : list bool) : list nat :=
  match outs with
  | [] => []
  | false :: r => pd_loop form (S i) r
  | true :: r => i :: match form with FirstWinsBreak => [] | NoBreak => pd_loop form (S i) r end
  end.

Inductive notification := NoNotice | AddedTo (store : nat) | FailedNotice.

(** `_dependency_update_by_codemod[codemod_id]` after the loop = the LAST store recorded. *)
Definition add_description (has_deps : bool) (recorded : list nat) : notification :=
  if has_deps then match last_opt recorded with Some s => AddedTo s | None => FailedNotice end
  else NoNotice.

Definition process_dependencies (form : dep_loop) (has_deps : bool) (outs : list bool) : list nat * notification :=
  if has_deps then let rec := pd_loop form O outs in (rec, add_description true rec)
  else ([], NoNotice).

(* ------------------------------------------------------------------------------------------------ *)
(** * Several codemods in one run: the package stores are parsed once (`repo_manager.package_stores` is a cached
    property) and `DependencyWriter.add` records every new name in the store's set BEFORE and REGARDLESS of the write. *)

(** What the model keeps of a PackageStore + its writer: the names held, whether `add_to_file` yields a changeset at
    all (e.g. a pyproject.toml without `dependencies`, a setup.py without install_requires never does), and names the
    writer refuses although the store does not hold them (oracle quirk of tomlkit: KeyAlreadyPresent). *)
Record store_st := { st_declared : list str; st_writable : bool; st_refused : list str }.

(** `DependencyManager(store, dir).write(deps, dry_run)`: the written dependencies ([] = None) and the store afterwards. *)
Definition store_write (v : name_cmp) (s : store_st) (deps : list dep) : list dep * store_st :=
  let new := add_deps v deps (st_declared s) in
  let s' := {| st_declared := st_declared s ++ map dname new; st_writable := st_writable s; st_refused := st_refused s |} in
  (if st_writable s && forallb (fun d => negb (mem_str (dname d) (st_refused s))) new then new else [], s').

Definition stores := nat -> store_st.
Definition upd_store (S : stores) (j : nat) (s : store_st) : stores := fun i => if Nat.eqb i j then s else S i.

(** The loop of process_dependencies for one codemod over the store indices [idxs]; the log lists, per store offered
    the dependencies, what was written to it. *)
Fixpoint visit_stores (v : name_cmp) (form : dep_loop) (idxs : list nat) (deps : list dep) (S : stores)
  : list (nat * list dep) * stores :=
  match idxs with
  | [] => ([], S)
  | j :: r =>
      let '(w, s') := store_write v (S j) deps in
      let S' := upd_store S j s' in
      match w, form with
      | _ :: _, FirstWinsBreak => ([(j, w)], S')
      | _, _ => let '(l, S'') := visit_stores v form r deps S' in ((j, w) :: l, S'')
      end
  end.

Definition recorded_of (l : list (nat * list dep)) : list nat :=
  map fst (List.filter (fun p => match snd p with [] => false | _ => true end) l).

(** All codemods of a run, in order, over the shared stores. *)
Fixpoint run_codemods (v : name_cmp) (form : dep_loop) (idxs : list nat) (cms : list (list dep)) (S : stores)
  : list (list (nat * list dep)) * stores :=
  match cms with
  | [] => ([], S)
  | deps :: r =>
      let '(l, S') := match deps with [] => ([], S) | _ => visit_stores v form idxs deps S end in
      let '(ls, S'') := run_codemods v form idxs r S' in
      (l :: ls, S'')
  end.

(** the dependencies written to store [i] according to a log *)
Definition writes_to (i : nat) (log : list (nat * list dep)) : list dep :=
  flat_map (fun p => if Nat.eqb (fst p) i then snd p else []) log.

Definition notice_of (deps : list dep) (l : list (nat * list dep)) : notification :=
  add_description (match deps with [] => false | _ => true end) (recorded_of l).
