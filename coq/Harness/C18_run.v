(** Checkers for the C18 correspondence (positional join of the default leave_Call/leave_Assign/leave_ClassDef). *)
From CM Require Import Harness.RunBase Harness.C06_run Base.Dict Model.Location Generated.Tables.
Local Open Scope Z_scope.

(** results, line_exclude, line_include, Call/Assign/ClassDef nodes of the module in leave order,
    observed: ids handed to on_result_found (in order), change entries (line, finding ids) *)
Definition join_case := (list result * list Z * list Z * list node * list N * list (Z * list str))%type.
Definition join_model_ok (c : join_case) : bool :=
  let '(rs, excl, inc, nodes, obs_ids, obs_changes) := c in
  list_eqb N.eqb (map nid (on_result_found_nodes T_now FDefault (Some rs) excl inc nodes)) obs_ids &&
  list_eqb (pair_eqb Z.eqb (list_eqb str_eqb))
           (map (fun ch => (ch_line ch, map fid (ch_findings ch)))
                (reported_changes T_now findings_attach_rule FDefault (Some rs) excl inc nodes))
           obs_changes.

(** rule-id truncation of the internal semgrep run *)
Definition short_case := (str * str)%type.
Definition short_model_ok (c : short_case) : bool := str_eqb (short_id (fst c)) (snd c).
