(** Idempotence of top-down transformers under the guard "no site inside what a site is replaced by":
    [td f (td f e) = td f e].  Without the guard it fails for the three kernels below, because the replacement is built from
    the ORIGINAL operands (Proofs/RewriteFacts.v: C07_kernel_*_refuted). *)
From CM Require Import Model.MiniPy Model.PySem Model.Rewrites Spec.RewritesSpec Proofs.PySemFacts Proofs.RewriteFacts Proofs.WholeTree.

Definition is_site (f : expr -> option expr) (e : expr) : bool := match f e with Some _ => true | None => false end.
(** every replacement made by [td f] on [e] is free of further sites *)
Fixpoint sites_clean (f : expr -> option expr) (e : expr) : bool :=
  let all := fix all (es : list expr) : bool := match es with [] => true | a :: t => sites_clean f a && all t end in
  match f e with
  | Some e' => negb (any_sub (is_site f) e')
  | None =>
      match e with
      | EName _ | EConst _ | EType _ => true
      | ETuple es | EList es | ESet es => all es
      | EMeth _ _ args | ECall _ args => all args
      | EBool _ _ l r | EFloorDiv l r => sites_clean f l && sites_clean f r
      | ENot _ a | EJuxt _ a => sites_clean f a
      | ECmp _ l rest => sites_clean f l &&
                         (fix go (rs : list (cmpop * expr)) : bool :=
                            match rs with [] => true | (_, b) :: t => sites_clean f b && go t end) rest
      | EListComp elt _ it | EGen _ elt _ it => sites_clean f elt && sites_clean f it
      end
  end.

Lemma rebuild_ext g h e : Forall (fun c => g c = h c) (children e) -> rebuild g e = rebuild h e.
Proof.
  intros HF. destruct e; cbn [rebuild children] in *; try reflexivity;
    try (f_equal; apply map_ext_in; intros a Ha; rewrite Forall_forall in HF; apply HF, Ha);
    try (inversion HF as [|? ? H1 HF']; subst; inversion HF' as [|? ? H2 _]; subst; rewrite H1, H2; reflexivity);
    try (inversion HF as [|? ? H1 _]; subst; rewrite H1; reflexivity).
  inversion HF as [|? ? H1 HF']; subst. rewrite H1. f_equal. apply map_ext_in. intros [c b] Hcb. cbn [fst snd]. f_equal.
  rewrite Forall_forall in HF'. apply HF'. apply in_map_iff. exists (c, b). split; [reflexivity|exact Hcb].
Qed.
Lemma rebuild_id e : rebuild (fun c => c) e = e.
Proof.
  destruct e; cbn [rebuild]; try reflexivity; try (rewrite map_id; reflexivity).
  f_equal. rewrite <- (map_id rest) at 2. apply map_ext. intros [c b]. reflexivity.
Qed.
Lemma rebuild_rebuild g h e : rebuild g (rebuild h e) = rebuild (fun c => g (h c)) e.
Proof.
  destruct e; cbn [rebuild]; try reflexivity; try (rewrite map_map; reflexivity).
Qed.

Lemma anyb_fix bad es :
  (fix anyb (es : list expr) : bool := match es with [] => false | a :: t => any_sub bad a || anyb t end) es = existsb (any_sub bad) es.
Proof. induction es as [|a t IH]; cbn; [reflexivity|]. rewrite IH. reflexivity. Qed.
Lemma any_cmp_fix bad rest :
  (fix go (rs : list (cmpop * expr)) : bool := match rs with [] => false | (_, b) :: t => any_sub bad b || go t end) rest
  = existsb (any_sub bad) (map snd rest).
Proof. induction rest as [|[c b] t IH]; cbn; [reflexivity|]. rewrite IH. reflexivity. Qed.
Lemma any_sub_unfold bad e : any_sub bad e = bad e || existsb (any_sub bad) (children e).
Proof.
  destruct e; cbn [any_sub children existsb]; rewrite ?anyb_fix, ?any_cmp_fix, ?orb_false_r; reflexivity.
Qed.
Lemma any_sub_children bad e : any_sub bad e = false -> bad e = false /\ Forall (fun c => any_sub bad c = false) (children e).
Proof.
  rewrite any_sub_unfold. intros H. apply orb_false_iff in H as [H0 H]. split; [exact H0|].
  apply Forall_forall. intros c Hc. destruct (any_sub bad c) eqn:E; [|reflexivity].
  assert (existsb (any_sub bad) (children e) = true) by (apply existsb_exists; eauto). congruence.
Qed.

Section TdIdem.
  Variable f : expr -> option expr.
  (** the node function's answer "not a site" survives the rewriting of the node's children *)
  Hypothesis f_stable : forall e, f e = None -> f (rebuild (td f) e) = None.

  Lemma Forall_mp (P Q : expr -> Prop) l : Forall (fun c => P c -> Q c) l -> Forall P l -> Forall Q l.
  Proof. induction 1; intros H2; inversion H2; subst; constructor; auto. Qed.
  Lemma td_no_site : forall e, any_sub (is_site f) e = false -> td f e = e.
  Proof.
    intros e. induction e using expr_ind'; intros H0; destruct (any_sub_children _ _ H0) as [Hs Hc]; rewrite td_unfold;
      unfold is_site in Hs; (destruct (f _) eqn:F; [discriminate Hs|]);
      (rewrite <- rebuild_id; apply rebuild_ext);
      (eapply Forall_mp; [|exact Hc]); apply (children_Forall (fun c => any_sub (is_site f) c = false -> td f c = c)); auto.
  Qed.

  Lemma clean_all_fix es :
    (fix all (es : list expr) : bool := match es with [] => true | a :: t => sites_clean f a && all t end) es = forallb (sites_clean f) es.
  Proof. induction es as [|a t IH]; cbn; [reflexivity|]. rewrite IH. reflexivity. Qed.
  Lemma clean_cmp_fix rest :
    (fix go (rs : list (cmpop * expr)) : bool := match rs with [] => true | (_, b) :: t => sites_clean f b && go t end) rest
    = forallb (sites_clean f) (map snd rest).
  Proof. induction rest as [|[c b] t IH]; cbn; [reflexivity|]. rewrite IH. reflexivity. Qed.
  Lemma sites_clean_unfold e :
    sites_clean f e = match f e with
                      | Some e' => negb (any_sub (is_site f) e')
                      | None => forallb (sites_clean f) (children e)
                      end.
  Proof.
    destruct e; cbn [sites_clean children forallb]; destruct (f _); rewrite ?clean_all_fix, ?clean_cmp_fix, ?andb_true_r; reflexivity.
  Qed.

  Lemma td_idem_node e :
    sites_clean f e = true ->
    Forall (fun c => sites_clean f c = true -> td f (td f c) = td f c) (children e) ->
    td f (td f e) = td f e.
  Proof.
    intros C IHc. rewrite sites_clean_unfold in C. rewrite (td_unfold f e). destruct (f e) eqn:F.
    - apply td_no_site. apply negb_true_iff, C.
    - rewrite td_unfold, (f_stable e F), rebuild_rebuild. apply rebuild_ext.
      eapply Forall_mp; [exact IHc|]. rewrite forallb_forall in C. apply Forall_forall. exact C.
  Qed.
  Theorem td_idempotent : forall e, sites_clean f e = true -> td f (td f e) = td f e.
  Proof.
    intros e. induction e using expr_ind'; intros C; (apply td_idem_node; [exact C|]);
      apply (children_Forall (fun c => sites_clean f c = true -> td f (td f c) = td f c)); auto.
  Qed.
End TdIdem.

(** * Instances *)
(** fix-empty-sequence-comparison: a site is a comparison, and a rebuilt comparison is a comparison *)
Lemma empty_seq_f_stable cfg e : empty_seq_f cfg e = None -> empty_seq_f cfg (rebuild (td (empty_seq_f cfg)) e) = None.
Proof. destruct e; cbn; intros H; try reflexivity; discriminate H. Qed.
Theorem empty_seq_idempotent cfg e : sites_clean (empty_seq_f cfg) e = true ->
  td (empty_seq_f cfg) (td (empty_seq_f cfg) e) = td (empty_seq_f cfg) e.
Proof. apply td_idempotent, empty_seq_f_stable. Qed.

(** literal-or-new-object-identity: whether an operand is a literal / new object is not changed by rewriting below it *)
Lemma td_identity_literal e : is_literal_or_new (td identity_f e) = is_literal_or_new e.
Proof.
  rewrite td_unfold. destruct (identity_f e) as [e'|] eqn:F.
  - destruct e as [| | | | | | | | | |p l rest| | | |]; try discriminate F. destruct rest as [|[o c] [|? ?]]; try discriminate F.
    cbn [identity_f] in F. destruct (is_literal_or_new l || is_literal_or_new c); [|discriminate F].
    destruct o; try discriminate F; injection F as <-; reflexivity.
  - destruct e; reflexivity.
Qed.
Lemma identity_f_stable e : identity_f e = None -> identity_f (rebuild (td identity_f) e) = None.
Proof.
  destruct e as [| | | | | | | | | |p l rest| | | |]; try (intros; reflexivity).
  destruct rest as [|[o c] [|? ?]]; try (intros; reflexivity). cbn [rebuild map fst snd identity_f].
  rewrite !td_identity_literal. destruct (is_literal_or_new l || is_literal_or_new c); [|reflexivity].
  destruct o; intros H; try discriminate H; reflexivity.
Qed.
Theorem identity_idempotent e : sites_clean identity_f e = true -> rw_identity (rw_identity e) = rw_identity e.
Proof. apply td_idempotent, identity_f_stable. Qed.

(** use-set-literal *)
Lemma td_set_literal_is_list e : (match td set_literal_f e with EList _ => true | _ => false end) = (match e with EList _ => true | _ => false end).
Proof.
  rewrite td_unfold. destruct (set_literal_f e) as [e'|] eqn:F.
  - destruct (set_literal_f_shape e e' F) as [es [-> ->]]. destruct es; reflexivity.
  - destruct e; reflexivity.
Qed.
Lemma set_literal_f_stable e : set_literal_f e = None -> set_literal_f (rebuild (td set_literal_f) e) = None.
Proof.
  destruct e; try (intros; reflexivity). destruct f; try (intros; reflexivity).
  destruct args as [|a [|b t]]; try (intros; reflexivity).
  cbn [rebuild map]. pose proof (td_set_literal_is_list a) as H. intros F.
  destruct a; try discriminate F; destruct (td set_literal_f _); try discriminate H; reflexivity.
  intros _. cbn [rebuild map set_literal_f]. destruct (td set_literal_f a); reflexivity.
Qed.
Theorem set_literal_idempotent e : sites_clean set_literal_f e = true -> rw_set_literal (rw_set_literal e) = rw_set_literal e.
Proof. rewrite !rw_set_literal_td. apply td_idempotent, set_literal_f_stable. Qed.

(** the guards hold on rewritable inputs, and fail on the refutation witnesses *)
Example idempotence_guards :
  sites_clean (empty_seq_f repaired_empty_seq) (EBool true BAnd (ECmp true (EName 1) [(Eq, EList [])]) (ENot true (ECmp true (ETuple []) [(NotEq, EName 2)]))) = true /\
  sites_clean (empty_seq_f repaired_empty_seq) w_es_nested = false /\
  sites_clean identity_f (EList [ECmp true (EName 1) [(Is, EList [])]; ECmp true (EName 1) [(Is, ECmp true (EName 3) [(IsNot, ETuple [])])]]) = true /\
  sites_clean identity_f w_id_nested = false /\
  sites_clean set_literal_f (ECall BLen [ECall BSet [EList [EName 1; EConst (CInt 2)]]]) = true /\
  sites_clean set_literal_f w_set_nested = false.
Proof. vm_compute. repeat split. Qed.
