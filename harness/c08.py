"""C08 — refactoring codemods preserve program behaviour (kernels proved; the other refactorings only searched).

Per generated case (kernel K, environment rho, MiniPy expression e, every node in its own parentheses):
  (a) evaluator vs CPython      `pp e` and the real codemod's output are executed by CPython (`python -I` subprocess) under
                                 the generated environment; Coq's `show_result (eval rho (norm .))` must print the same.
  (b) rewrite vs real codemod   the file `result = <pp e>` goes through the real CLI with `--codemod-include pixee:python/<K>`;
                                 the tree CPython parses from the output must be Coq's `norm (rw_K e)` (table values of the
                                 current source); `wf (rw_K e)` must agree with "the output parses".
  (c) search                    CPython(original) vs CPython(rewritten): every difference must fall into a finding class
                                 computed by Coq (complement of the theorem's guard); a difference under the guard, or in no
                                 class, is a VIOLATION.  Same search for the unmodelled refactorings on closed program
                                 families (harness/c08_families.py)."""
from __future__ import annotations

import concurrent.futures
import json
from pathlib import Path

from harness import core
from harness import minipy as M

META = {
    "rule": "random MiniPy expressions (sizes 1-25, every node parenthesised) per kernel: and/or/not trees over combinable calls "
            "(literal / tuple / name arguments, names bound to strings, tuples, ints, types, unbound), negated comparisons "
            "(all ten operators, chains, operands int/str/set/NaN/None/list), any/all/sum/min/max over list comprehensions "
            "(raising elements, second arguments, nesting inside calls), set([...]), hasattr(x, \"__call__\") over objects with "
            "class-level / instance-level __call__; each placed in a random context (operand of not/and/or/comparison, call "
            "argument, display element, comprehension); non-trivial = the real codemod changed the file; distinct by "
            "(kernel, expression, environment)",
    "trusted": ["CPython 3.12 as the meaning of program behaviour and of 'parses' (ast.parse / exec in `python -I` subprocesses)",
                "harness/minipy.py: Python twin of MiniPy's printer (re-checked against Coq's pp on every case), of `show`, "
                "and the ast -> MiniPy converter",
                "semgrep 1.90 (detector of fix-hasattr-call)"],
    "assumptions": ["the generated file contains only `result = <expr>`; names v0..v7, NAN, C<n> are bound by a prelude that the "
                    "codemod never sees (closed programs: no shadowing of builtins)",
                    "MiniPy covers a fragment of Python; the model declines (OutOfModel) identity of ints/strings/containers, "
                    "non-int set elements, float arithmetic, ordering of tuples/lists, iteration order of sets outside 0..7",
                    "the unmodelled refactoring codemods (walrus-if, f-str, logging, imports, abc, resource leak, lock, "
                    "module global, sql) are only searched on closed program families, never proved"],
}

KERNELS = {
    "KCombineSW": "combine-startswith-endswith",
    "KCombineInst": "combine-isinstance-issubclass",
    "KInvert": "invert-boolean-check",
    "KGenerator": "use-generator",
    "KSetLit": "use-set-literal",
    "KHasattr": "fix-hasattr-call",
    "KEmptySeq": "fix-empty-sequence-comparison",
    "KEmptySeqTest": "fix-empty-sequence-comparison",
    "KIdentity": "literal-or-new-object-identity",
    "KStrConcat": "str-concat-in-sequence-literals",
}
# kernels that are modelled for C01 / C02 / C07 but are not refactorings in the sense of C08's property text: the model is
# compared with the real codemod, the behaviour of original and rewritten program is not
OUT_OF_C08_SCOPE = {"KStrConcat"}


def file_of(kernel, text):
    """the file given to CPython and to the codemod: `result = <expr>`, or the expression as the test of an `if`"""
    if kernel == "KEmptySeqTest":
        return f"if {text}:\n    result = True\nelse:\n    result = False\n"
    return "result = " + text + "\n"


def expr_of(kernel, filetext):
    """the expression text inside a (possibly rewritten) file"""
    if kernel == "KEmptySeqTest":
        first = filetext.split("\n", 1)[0]
        return first[3:-1] if first.startswith("if ") and first.endswith(":") else first
    return filetext.strip()[9:]
CLASSES = {
    1: "kf_combine_regroup", 2: "kf_combine_tuple_name", 3: "kf_combine_eager_args", 4: "kf_combine_lost_parens",
    5: "kf_invert_default_branch", 6: "kf_invert_chain", 7: "kf_invert_partial_order", 8: "kf_invert_is_literal",
    9: "kf_invert_lost_parens", 10: "kf_generator_shortcircuit", 11: "kf_generator_dropped_args",
    12: "kf_hasattr_instance_call", 13: "kf_hasattr_arity",
    14: "kf_empty_seq_other_type", 15: "kf_empty_seq_lost_parens", 16: "kf_identity_differs",
}
# when several classes apply to one case, report the most specific cause first
CLASS_PRIORITY = [5, 6, 1, 11, 4, 9, 15, 2, 7, 8, 12, 13, 10, 3, 14, 16]

IMPORTS = ("From CM Require Import Harness.RunBase Harness.C08_run Model.MiniPy Model.PySem Model.Rewrites Spec.RewritesSpec.\n"
           "Local Open Scope N_scope.\n")


# ------------------------------------------------------------------------------------------------ cases
def gen_cases(ctx, n_per_kernel):
    rng = ctx.rng
    cases = []
    plan = [("KCombineSW", "sw", lambda: M.gen_combine(rng, "sw")), ("KCombineInst", "inst", lambda: M.gen_combine(rng, "inst")),
            ("KInvert", "num", lambda: M.gen_invert(rng)), ("KGenerator", "num", lambda: M.gen_generator(rng)),
            ("KSetLit", "num", lambda: M.gen_setlit(rng)), ("KHasattr", "obj", lambda: M.gen_hasattr(rng)),
            ("KEmptySeq", "seq", lambda: M.gen_empty_seq(rng)), ("KEmptySeqTest", "seq", lambda: M.gen_empty_seq(rng, top=True)),
            ("KIdentity", "seq", lambda: M.gen_identity(rng)), ("KStrConcat", "seq", lambda: M.gen_str_concat(rng))]
    for kernel, profile, g in plan:
        for _ in range(n_per_kernel):
            e = g()
            for _try in range(5):
                if M.size(e) <= 25:
                    break
                e = g()
            origin = "targeted"
            if rng.random() < 0.4:      # the same tree with only the parentheses Python's precedences need
                e, origin = M.minimal_flags(e), "targeted-minimal-parens"
            cases.append({"kernel": kernel, "env": M.gen_env(rng, profile), "expr": e, "origin": origin})
    # free-form expressions over the whole AST through every kernel (mostly exercises the evaluator and the no-op paths)
    for _ in range(n_per_kernel):
        e = M.gen_expr(rng, rng.randint(1, 25))
        cases.append({"kernel": rng.choice(list(KERNELS)), "env": M.gen_env(rng, "mixed"), "expr": e, "origin": "free"})
    return cases


def load_corpus():
    out = []
    d = core.VERIF / "corpus" / "C08"
    for f in sorted(d.glob("*.json")) if d.is_dir() else []:
        body = json.loads(f.read_text())
        for c in body if isinstance(body, list) else [body]:
            if "kernel" not in c:          # whole programs (programs.json) belong to harness/c08_families.py
                continue
            out.append({"kernel": c["kernel"], "env": [(x, untuple(v)) for x, v in c["env"]], "expr": untuple(c["expr"]),
                        "origin": "corpus:" + f.stem, "note": c.get("note", ""), "expect_class": c.get("expect_class")})
    return out


def untuple(x):
    """JSON lists back to the tuple trees of minipy (lists stay lists where minipy uses lists)"""
    if isinstance(x, list) and x and isinstance(x[0], str) and (x[0][0] in "EVC" or x[0] == "TUser"):
        k = x[0]
        list_fields = {"ETuple": [1], "EList": [1], "ESet": [1], "EMeth": [3], "ECall": [2], "VTuple": [1], "VList": [1],
                       "VSet": [1], "VObj": [2, 3]}.get(k, [])
        out = [k]
        for i, y in enumerate(x[1:], 1):
            if i in list_fields:
                out.append([untuple(z) for z in y])
            elif k == "ECmp" and i == 3:
                out.append([(o, untuple(b)) for o, b in y])
            else:
                out.append(untuple(y))
        return tuple(out)
    return x


# ------------------------------------------------------------------------------------------------ the real codemods
def run_codemod(ctx, codemod, texts, tag):
    """texts: list of `result = ...` sources; returns the list of file contents after the real CLI ran (None = CLI failure)"""
    root = ctx.scratch / f"proj-{tag}"
    root.mkdir(parents=True)
    for i, t in enumerate(texts):
        (root / f"case_{i:04d}.py").write_text(t)
    out = ctx.scratch / f"out-{tag}.json"
    r = core.run_cli([str(root), "--output", str(out), "--codemod-include", f"pixee:python/{codemod}"], cwd=ctx.scratch, timeout=900)
    ctx.cli_runs += 1
    if r["rc"] != 0:
        return [None] * len(texts), r
    return [(root / f"case_{i:04d}.py").read_text() for i in range(len(texts))], r


def run_codemods(ctx, jobs, per_run=60):
    """jobs: list of (codemod, text).  Batches per codemod, CLI runs in parallel.  Returns after-texts in order."""
    by = {}
    for idx, (cm, t) in enumerate(jobs):
        by.setdefault(cm, []).append((idx, t))
    batches = []
    for cm, items in by.items():
        for off in range(0, len(items), per_run):
            batches.append((cm, items[off:off + per_run]))
    after = [None] * len(jobs)
    failures = []
    with concurrent.futures.ThreadPoolExecutor(max_workers=12) as ex:
        futs = {ex.submit(run_codemod, ctx, cm, [t for _, t in items], f"{cm}-{n}"): (cm, items) for n, (cm, items) in enumerate(batches)}
        for fut in concurrent.futures.as_completed(futs):
            cm, items = futs[fut]
            res, r = fut.result()
            if res[0] is None and items:
                failures.append((cm, r["stderr"][-600:]))
            for (idx, _), a in zip(items, res):
                after[idx] = a
    return after, failures


# ------------------------------------------------------------------------------------------------ Coq side
def c_case(c):
    after = c["after_tree"]
    return ("{| k_kernel := %s; k_env := %s; k_expr := %s; k_text := %s; k_obs := %s; k_after_text := %s; k_after := %s; k_obs_after := %s |}"
            % (c["kernel"], M.c_env(c["env"]), M.to_coq(c["expr"]), core.cstr(c["text"]), core.cstr(c["obs"]),
               core.cstr(c["after_expr"] if c["after_expr"].isascii() else "?"),
               core.copt(None if after is None else M.to_coq(after), "expr"), core.cstr(c["obs_after"])))


CHECKS = ["pp_ok", "eval_defined", "eval_ok", "eval_after_ok", "norm_input_ok", "rw_ok", "changed", "wf_after", "wf_input", "juxt_after",
          "guard_holds", "theorem_instance_ok"] + [f"(fun c => negb (in_class {n} c))" for n in sorted(CLASSES)]


def coq_checks(ctx, cases, chunk=150):
    terms = [c_case(c) for c in cases]
    parts = [(off, terms[off:off + chunk]) for off in range(0, len(terms), chunk)]
    bad = {c: set() for c in CHECKS}

    def one(off, part):
        return off, core.eval_bad_indices(ctx, f"c08_{off}", IMPORTS, "kcase", part, CHECKS, chunk=chunk)
    with concurrent.futures.ThreadPoolExecutor(max_workers=min(8, core.NCPU)) as ex:
        for off, res in ex.map(lambda p: one(*p), parts):
            for c, idx in res.items():
                bad[c].update(off + i for i in idx)
    return bad


# ------------------------------------------------------------------------------------------------ one round
def observe(ctx, cases):
    """fill text, obs, after_text, after_tree, obs_after for every case (implementation side only)"""
    for c in cases:
        c["text"] = M.pp(c["expr"])
        c["prelude"] = M.prelude(c["env"])
    obs = M.run_sandbox(ctx, [(c["prelude"], file_of(c["kernel"], c["text"])) for c in cases])
    after, failures = run_codemods(ctx, [(KERNELS[c["kernel"]], file_of(c["kernel"], c["text"])) for c in cases])
    for cm, err in failures:
        ctx.mismatch(f"real CLI run of {cm}", "the codemodder CLI failed on a generated project: " + err, {"codemod": cm})
    for c, o, a in zip(cases, obs, after):
        c["obs"] = o
        c["after_text"] = a if a is not None else file_of(c["kernel"], c["text"])
        c["cli_failed"] = a is None
    obs_after = M.run_sandbox(ctx, [(c["prelude"], c["after_text"]) for c in cases])
    for c, o in zip(cases, obs_after):
        c["obs_after"] = o
        try:
            c["after_tree"] = M.from_source(c["after_text"])
            c["after_parses"] = True
        except SyntaxError:
            c["after_tree"], c["after_parses"] = None, False
        except M.NotMiniPy:
            c["after_tree"], c["after_parses"] = None, True
        c["impl_changed"] = c["after_text"].strip() != file_of(c["kernel"], c["text"]).strip()
        c["after_expr"] = expr_of(c["kernel"], c["after_text"])


def replay_of(c):
    return {"kernel": c["kernel"], "codemod": KERNELS[c["kernel"]], "env": c["env"], "expr": c["expr"], "source": file_of(c["kernel"], c["text"]),
            "prelude": c["prelude"], "rewritten": c["after_text"], "observed_original": c["obs"], "observed_rewritten": c["obs_after"],
            "origin": c.get("origin")}


FRAGMENT_KERNELS = {
    "kernel_combine_base": ["KCombineSW", "KCombineInst"], "kernel_combine_sw": ["KCombineSW"], "kernel_combine_inst": ["KCombineInst"],
    "kernel_invert": ["KInvert"], "kernel_generator": ["KGenerator"], "kernel_set_literal": ["KSetLit"], "kernel_hasattr": ["KHasattr"],
    "kernel_empty_seq": ["KEmptySeq", "KEmptySeqTest"], "kernel_identity": ["KIdentity"], "kernel_str_concat": ["KStrConcat"],
}


def unjudged_kernels(ctx):
    """kernels whose source fragment the translator did not recognise: Tables.v then holds a fallback value, which says nothing
    about the current source, so neither the model comparison nor the guard / finding classes of that kernel mean anything.
    The broken tie itself is reported by core.finish (translator: fragment ... unrecognised)."""
    out = set()
    for u in (ctx.build or {}).get("unrecognised", []):
        out.update(FRAGMENT_KERNELS.get(u.get("fragment"), []))
        if u.get("fragment") == "*":
            out.update(k for ks in FRAGMENT_KERNELS.values() for k in ks)
    return out


def judge(ctx, cases, bad):
    skip = unjudged_kernels(ctx)
    for k in sorted(skip):
        ctx.notes.append(f"kernel {k}: source fragment unrecognised, its cases are not judged against the fallback table")
    for i, c in enumerate(cases):
        if c["cli_failed"]:
            continue
        if c["kernel"] in skip:
            ctx.count(f"not_judged:{c['kernel']}")
            ctx.case({"kernel": c["kernel"], "source": c["text"], "not_judged": True})
            continue
        k = c["kernel"]
        ctx.count(f"kernel:{k}")
        ctx.count("parentheses:" + ("minimal" if str(c.get("origin", "")).endswith("minimal-parens") else "every node"))
        ctx.count(f"size:{min(M.size(c['expr']) // 5 * 5, 25)}+")
        ctx.count("orig_outcome:" + c["obs"].split(" ")[0] + ("" if c["obs"].startswith("value") else ":" + c["obs"].split(" ")[1]))
        ctx.count("impl_changed" if c["impl_changed"] else "impl_unchanged")
        if i not in bad["eval_defined"]:
            ctx.count("evaluator_defined")
        else:
            ctx.count("evaluator_declines(OutOfModel)")
        rp = replay_of(c)
        if i in bad["pp_ok"]:
            ctx.mismatch("harness printer vs Coq pp", f"pp differs on {c['text']}", rp)
        if i in bad["norm_input_ok"]:
            ctx.mismatch("Coq norm vs fully parenthesised input", f"norm e <> allpar e on {c['text']}", rp)
        if i in bad["eval_ok"]:
            ctx.mismatch("Coq eval vs CPython (original program)", f"CPython says `{c['obs']}` on `{c['text']}`, the evaluator disagrees", rp)
        if i in bad["eval_after_ok"]:
            ctx.mismatch("Coq eval vs CPython (rewritten program)",
                         f"CPython says `{c['obs_after']}` on `{c['after_text'].strip()}`, the evaluator of the model's output disagrees", rp)
        if i in bad["rw_ok"]:
            ctx.mismatch(f"Rewrites model vs real codemod {KERNELS[k]}",
                         f"`{c['text']}` was rewritten to `{c['after_text'].strip()}`, the model rewrites differently", rp)
        model_changed = i not in bad["changed"]
        wf_after = i not in bad["wf_after"]
        if wf_after and not c["after_parses"]:
            ctx.mismatch("wf model vs CPython parser", f"wf(rw e) holds but `{c['after_text'].strip()}` does not parse", rp)
        if not wf_after and c["after_parses"] and (i in bad["juxt_after"]):
            # (garbled outputs such as `"x""x"` or `[q][q]` happen to be Python: they are never wf in the model)
            ctx.mismatch("wf model vs CPython parser", f"wf(rw e) fails but `{c['after_text'].strip()}` parses", rp)
        if not wf_after:
            ctx.count("rewritten_output_ill_formed(C01)")
        if (i not in bad["wf_input"]) and c["obs"] == "raise SyntaxError":
            ctx.mismatch("wf model vs CPython parser", f"wf e holds but `{c['text']}` does not parse", rp)
        if i in bad["theorem_instance_ok"]:
            ctx.mismatch("C08 theorem instance", f"guard holds but the model's results differ on `{c['text']}`", rp)
        # ---- (c) search: spec = same observation
        classes = [n for n in sorted(CLASSES) if i in bad[f"(fun c => negb (in_class {n} c))"]]
        for n in classes:
            ctx.count("class:" + CLASSES[n])
        differs = c["obs"] != c["obs_after"]
        if k in OUT_OF_C08_SCOPE:
            ctx.count("out_of_c08_scope:" + ("differs" if differs else "same"))
            differs = False
        guard = i not in bad["guard_holds"]
        if guard:
            ctx.count("guard_holds")
        if differs:
            ctx.count("behaviour_differs")
            what = (f"{KERNELS[k]}: `{c['text']}` -> `{c['after_expr']}`; original: {c['obs']}; rewritten: {c['obs_after']}")
            if guard or not classes:
                cls = "unclassified_behaviour_change" + ("_under_guard" if guard else "")
                ctx.violation(cls, what, dict(rp, classes=[], guard=guard))
            else:
                first = [n for n in CLASS_PRIORITY if n in classes][0]
                ctx.violation(CLASSES[first], what, dict(rp, classes=[CLASSES[n] for n in classes], guard=guard))
        exp = c.get("expect_class")
        if exp and (not differs or exp not in [CLASSES[n] for n in classes]):
            # a corpus witness of a known finding no longer reproduces: not an alarm (e.g. the defect was repaired), but say so
            ctx.notes.append(f"corpus witness {c['origin']} ({exp}) not reproduced: differs={differs} classes={[CLASSES[n] for n in classes]}")
        ctx.case({"kernel": k, "source": c["text"], "rewritten": c["after_expr"], "env": M.prelude(c["env"]).splitlines()[-8:],
                  "original": c["obs"], "after": c["obs_after"], "classes": [CLASSES[n] for n in classes]},
                 nontrivial_key=(k, c["text"], repr(c["env"])) if c["impl_changed"] else None,
                 sample=c["impl_changed"] and model_changed)


def kernel_programs(ctx, cases, bad):
    """multi-statement programs for the modelled kernels, for the line-filter stage: statements `r<i> = <expr>` (each in its own
    try block, the expression broken over several lines at its and/or operators) taken from cases on which the theorem's
    guard holds, so that the unfiltered rewrite is known to preserve behaviour"""
    rng = ctx.rng
    by = {}
    for i, c in enumerate(cases):
        if c["cli_failed"] or not c["impl_changed"] or c["obs"] != c["obs_after"] or i in bad["guard_holds"] or c["kernel"] in ("KEmptySeqTest", "KStrConcat") \
                or c["kernel"] in unjudged_kernels(ctx):
            continue
        by.setdefault(c["kernel"], []).append(c)
    out = []
    for k, items in by.items():
        for n in range(min(len(items) // 2, 6 if ctx.quick() else 25)):
            parts = rng.sample(items, min(len(items), rng.choice([2, 3, 3])))
            src = "from _show import show\n"
            for m, c in enumerate(parts):
                text = c["text"]
                if rng.random() < 0.6:
                    text = text.replace(" or ", "\n        or ").replace(" and ", "\n        and ")
                pre = "".join(l + "\n" for l in c["prelude"].splitlines())
                src += pre + f"try:\n    r{m} = {text}\n    print('value', show(r{m}))\nexcept BaseException as ex:\n    print('raise', type(ex).__name__)\n"
            out.append({"codemod": KERNELS[k], "name": f"{k}:statements:{n}", "source": src, "extra_files": {"_show.py": M.SHOW_SRC},
                        "concat_ok": False})
        # the rewritten expression as the whole expression of an f-string replacement field (a display's `{` next to the
        # field's `{`, conversions and format specifications after it)
        plain = [c for c in items if c["obs"].startswith("value") and "<" not in c["obs"] and "'" not in c["text"]]
        for n, c in enumerate(rng.sample(plain, min(len(plain), 4 if ctx.quick() else 20))):
            field = rng.choice(["{%s}", "{%s!r}", "{%s!r:>12}", "a {%s} b", "{%s}{%s}"])
            pre = "".join(l + "\n" for l in c["prelude"].splitlines())
            src = pre + "try:\n    r = f'" + field.replace("%s", c["text"]) + "'\n    print('value', r)\nexcept BaseException as ex:\n    print('raise', type(ex).__name__)\n"
            out.append({"codemod": KERNELS[k], "name": f"{k}:fstring-field:{n}", "source": src, "concat_ok": False})
    return out


def exhaustive_combine():
    """every and/or tree of depth <= 2 over three combinable calls and one plain name (thorough tier)"""
    atoms = [("EMeth", 0, "Startswith", [M.S("x")]), ("EMeth", 0, "Startswith", [M.S("q")]), ("EMeth", 0, "Endswith", [M.S("y")]), M.N(2)]
    d1 = [("EBool", True, o, a, b) for o in ("BOr", "BAnd") for a in atoms for b in atoms]
    lvl = atoms + d1
    d2 = [("EBool", True, o, a, b) for o in ("BOr", "BAnd") for a in lvl for b in lvl if a in d1 or b in d1]
    envs = [[(0, ("VStr", "xy")), (2, ("VBool", False))], [(0, ("VStr", "qy")), (2, ("VInt", 3))]]
    return [{"kernel": "KCombineSW", "env": envs[i % 2], "expr": e, "origin": "exhaustive"} for i, e in enumerate(d1 + d2)]


def parser_model_check(ctx, n):
    """random parenthesisation flags: Coq's norm / wf against CPython's parser (no codemod involved)"""
    rng = ctx.rng
    cases, meta = [], []
    for _ in range(n):
        e = M.randomise_flags(rng, M.gen_expr(rng, rng.randint(2, 14)))
        text = M.pp(e)
        try:
            parsed = M.from_source("result = " + text + "\n")
        except SyntaxError:
            parsed = None
        except M.NotMiniPy as ex:      # cannot happen for printed MiniPy trees
            ctx.mismatch("ast -> MiniPy converter", f"`{text}` is outside MiniPy: {ex}", {"source": text})
            continue
        cases.append("(%s, %s, %s)" % (M.to_coq(e), core.cstr(text), core.copt(None if parsed is None else M.to_coq(parsed), "expr")))
        meta.append(text)
        ctx.count("parser_model:" + ("parses" if parsed is not None else "syntax_error"))
    bad = core.eval_bad_indices(ctx, "c08_parser", IMPORTS, "pcase", cases, ["p_pp_ok", "p_norm_ok", "p_wf_complete"])
    for name, what in [("p_pp_ok", "harness printer vs Coq pp"), ("p_norm_ok", "Coq norm / wf vs CPython's parser")]:
        for i in bad[name]:
            ctx.mismatch(what, f"on `{meta[i]}`", {"source": meta[i]})
    # wf may reject a text that CPython reads as a DIFFERENT tree (`a is (not b)` without its parentheses): counted, not an error
    ctx.count("parser_model:not_wf_but_parses", len(bad["p_wf_complete"]))
    for t in meta:
        ctx.case({"parser_model": t}, nontrivial_key=None)


def run(ctx: core.Ctx):
    b, a = ctx.build or {}, ctx.audit or {}
    if not b.get("make_ok", True) or not a.get("ok", True):
        mine = [f for f in b.get("failed", [])]
        ctx.tie_broken.append("proof: the development no longer builds for the current table values (%s)" % (
            "; ".join(f"{f['file']}:{f['line']}: {f['error'][:160]}" for f in mine) or a.get("error", "audit failed")[:300]))
    n = 50 if ctx.quick() else 500
    if getattr(ctx, "deep", False):
        n *= 3
    cases = load_corpus() + gen_cases(ctx, n)
    if not ctx.quick():
        cases += exhaustive_combine()
    observe(ctx, cases)
    try:
        bad = coq_checks(ctx, cases)
    except RuntimeError as ex:
        # the model itself does not build (e.g. Harness/C08_run.vo missing): the tie cannot be evaluated
        ctx.tie_broken.append("correspondence: Coq could not evaluate the generated cases: " + str(ex)[:400])
        bad = None
    if bad is not None:
        judge(ctx, cases, bad)
    else:
        # still search: spec = equal observations, without classification
        for c in cases:
            if c["obs"] != c["obs_after"]:
                ctx.violation("unclassified_behaviour_change", f"{KERNELS[c['kernel']]}: `{c['text']}` -> `{c['after_expr']}`; "
                              f"original: {c['obs']}; rewritten: {c['obs_after']}", replay_of(c))
            ctx.case({"source": c["text"]}, nontrivial_key=c["text"] if c["impl_changed"] else None)
    try:
        parser_model_check(ctx, 200 if ctx.quick() else 2000)
    except RuntimeError as ex:
        ctx.tie_broken.append("correspondence: parser model could not be evaluated: " + str(ex)[:300])
    from harness import c08_families
    c08_families.run(ctx, kernel_programs(ctx, cases, bad) if bad is not None else ())


def replay(ctx, body):
    if "program" in body:
        from harness import c08_families
        return c08_families.replay(ctx, body)
    c = {"kernel": body["kernel"], "env": [(x, untuple(v)) for x, v in body["env"]], "expr": untuple(body["expr"])}
    observe(ctx, [c])
    print("source    :", "result = " + c["text"])
    print("rewritten :", c["after_text"].strip(), "   (recorded:", body.get("rewritten", "").strip(), ")")
    print("original  :", c["obs"], "   (recorded:", body.get("observed_original"), ")")
    print("rewritten :", c["obs_after"], "   (recorded:", body.get("observed_rewritten"), ")")
    print("expected  : equal observations (C08)")
    return 0 if c["obs"] == c["obs_after"] else 1
