from typing import Optional

from codemodder.codetf import ChangeSet
from codemodder.dependency import Dependency
from codemodder.dependency_management.base_dependency_writer import DependencyWriter
from codemodder.diff import create_diff


def original_lines_strategy(original_lines, i):
    return len(original_lines) + i + 1


class RequirementsTxtWriter(DependencyWriter):
    def add_to_file(
        self, dependencies: list[Dependency], dry_run: bool = False
    ) -> Optional[ChangeSet]:
        if (lines := self._parse_file()) is None:
            return None

        original_lines = lines.copy()
        if not original_lines[-1].endswith("\n"):
            original_lines[-1] += "\n"

        requirement_lines = []
        for dep in dependencies:
            requirement_lines.append(f"{dep.requirement}\n")

        updated_lines = original_lines + requirement_lines

        diff = create_diff(original_lines, updated_lines)

        if not dry_run:
            try:
                with open(self.path, "w", encoding="utf-8") as f:
                    f.writelines(updated_lines)
            except Exception:
                return None

        changes = self.build_changes(
            dependencies, original_lines_strategy, original_lines
        )
        return ChangeSet(
            path=str(self.path.relative_to(self.parent_directory)),
            diff=diff,
            changes=changes,
        )

    def _parse_file(self) -> Optional[list[str]]:
        try:
            with open(self.path, "r", encoding="utf-8") as f:
                return f.readlines()
        except Exception:
            return None
