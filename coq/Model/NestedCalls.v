(** Nested selected calls under libcst's bottom-up traversal (C18_nested, shared with C07/C16).
    A call carries an identity, whether it is still in the form the detector flags, and its argument calls.
    leave_Call(original_node, updated_node): updated_node already holds the rewritten children;
    on_result_found of the argument-replacing codemods (requests-verify, ...) computes
    new_args = replace_args(<node>, ...) and returns updated_node.with_changes(args=new_args). *)
From CM Require Export Base.Str Base.Types_Location.

Inductive call := Call (id : N) (vuln : bool) (args : list call).

Fixpoint rewrite (v : args_from) (sel : N -> bool) (c : call) : call :=
  match c with
  | Call i vuln args =>
      let upd := map (rewrite v sel) args in
      if sel i then Call i false (match v with FromOriginal => args | FromUpdated => upd end)
      else Call i vuln upd
  end.

(** what the detector flags in a tree *)
Fixpoint flagged (c : call) : list N :=
  match c with Call i vuln args => (if vuln then [i] else []) ++ flat_map flagged args end.
