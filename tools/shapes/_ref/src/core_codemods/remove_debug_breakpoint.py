from typing import Union

import libcst as cst

from codemodder.codemods.utils_mixin import AncestorPatternsMixin, NameResolutionMixin
from core_codemods.api import Metadata, ReviewGuidance, SimpleCodemod


class RemoveDebugBreakpoint(SimpleCodemod, NameResolutionMixin, AncestorPatternsMixin):
    metadata = Metadata(
        name="remove-debug-breakpoint",
        summary="Remove Calls to `builtin` `breakpoint` and `pdb.set_trace",
        review_guidance=ReviewGuidance.MERGE_WITHOUT_REVIEW,
        references=[],
    )
    change_description = "Remove breakpoint call"

    def leave_Expr(
        self,
        original_node: cst.Expr,
        updated_node: cst.Expr,
    ) -> Union[cst.Expr, cst.RemovalSentinel]:
        if not self.filter_by_path_includes_or_excludes(
            self.node_position(original_node)
        ):
            return updated_node

        match call_node := original_node.value:
            case cst.Call():
                if self.find_base_name(call_node) == "builtins.breakpoint":
                    self.report_change(original_node)
                    return cst.RemovalSentinel.REMOVE
                if self.find_base_name(call_node) == "pdb.set_trace":
                    self.remove_unused_import(call_node)
                    self.report_change(original_node)
                    return cst.RemovalSentinel.REMOVE

        return updated_node
