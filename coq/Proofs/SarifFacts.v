From CM Require Import Model.Sarif Spec.SarifSpec.
Arguments jget : simpl never.

Lemma mapM_sound {A B} (f : A -> option B) (g : A -> list B) l ys :
  (forall x y, f x = Some y -> g x = [y]) -> mapM f l = Some ys -> ys = flat_map g l.
Proof.
  intros H. revert ys. induction l as [|x l IH]; simpl; intros ys E.
  - now inversion E.
  - destruct (f x) as [y|] eqn:Ex; [|discriminate].
    destruct (mapM f l) as [ys'|] eqn:El; [|discriminate].
    inversion E; subst. rewrite (H _ _ Ex). simpl. f_equal. now apply IH.
Qed.

Lemma mapM_sound_concat {A B} (f : A -> option (list B)) (g : A -> list B) l ys :
  (forall x y, f x = Some y -> g x = y) -> mapM f l = Some ys -> concat ys = flat_map g l.
Proof.
  intros H. revert ys. induction l as [|x l IH]; simpl; intros ys E.
  - now inversion E.
  - destruct (f x) as [y|] eqn:Ex; [|discriminate].
    destruct (mapM f l) as [ys'|] eqn:El; [|discriminate].
    inversion E; subst. simpl. rewrite (H _ _ Ex). f_equal. now apply IH.
Qed.

Ltac unbind H :=
  repeat match type of H with
         | bind ?e _ = Some _ => let x := fresh "x" in let E := fresh "E" in
                                 destruct e as [x|] eqn:E; [cbn [bind] in H | discriminate H]
         end.

Lemma jarr_some j l : jarr j = Some l -> j = JArr l.
Proof. destruct j; simpl; intros E; inversion E; reflexivity. Qed.

Lemma semgrep_result_sound run result fs :
  semgrep_result run result = Some fs ->
  fs = flat_map (fun loc => match semgrep_location (rule_of run result) loc with Some f => [f] | None => [] end)
                (arr_of (jget s_locations result)).
Proof.
  unfold semgrep_result. intros H. unbind H.
  unfold rule_of. rewrite E. apply jarr_some in E1. subst. simpl arr_of.
  eapply mapM_sound; [|exact H]. intros a b Hab. cbv beta. rewrite Hab. reflexivity.
Qed.

Lemma semgrep_run_sound run fs :
  semgrep_run run = Some fs ->
  fs = flat_map (fun result =>
         flat_map (fun loc => match semgrep_location (rule_of run result) loc with Some f => [f] | None => [] end)
                  (arr_of (jget s_locations result))) (arr_of (jget s_results run)).
Proof.
  unfold semgrep_run. intros H. unbind H. inversion H; subst. apply jarr_some in E0. subst. simpl arr_of.
  eapply mapM_sound_concat; [|exact E1]. intros a b Hab. cbv beta. symmetry. now apply semgrep_result_sound.
Qed.

Theorem semgrep_reader_sound doc fs : semgrep_reader doc = Some fs -> fs = semgrep_spec doc.
Proof.
  unfold semgrep_reader, semgrep_spec. intros H. unbind H. inversion H; subst. apply jarr_some in E0. subst. simpl arr_of.
  eapply mapM_sound_concat; [|exact E1]. intros a b Hab. cbv beta. symmetry. now apply semgrep_run_sound.
Qed.

Lemma codeql_result_sound (scd : sc_default) run result fs :
  codeql_result scd run result = Some fs ->
  fs = flat_map (fun loc => match codeql_location scd (rule_of run result) loc with Some f => [f] | None => [] end)
                (arr_of (jget s_locations result)).
Proof.
  unfold codeql_result. intros H. unbind H.
  unfold rule_of. rewrite E. apply jarr_some in E1. subst. simpl arr_of.
  eapply mapM_sound; [|exact H]. intros a b Hab. cbv beta. rewrite Hab. reflexivity.
Qed.

Lemma codeql_run_sound (scd : sc_default) run fs :
  codeql_run scd run = Some fs ->
  fs = if is_codeql run then
         flat_map (fun result =>
           flat_map (fun loc => match codeql_location scd (rule_of run result) loc with Some f => [f] | None => [] end)
                    (arr_of (jget s_locations result))) (arr_of (jget s_results run))
       else [].
Proof.
  unfold codeql_run, is_codeql. intros H. unbind H. destruct x.
  - unbind H. inversion H; subst. apply jarr_some in E1. subst. simpl arr_of.
    eapply mapM_sound_concat; [|exact E2]. intros a b Hab. cbv beta. symmetry. now apply codeql_result_sound.
  - now inversion H.
Qed.

Theorem codeql_reader_sound (scd : sc_default) doc fs : codeql_reader scd doc = Some fs -> fs = codeql_spec scd doc.
Proof.
  unfold codeql_reader, codeql_spec. intros H. unbind H. inversion H; subst. apply jarr_some in E0. subst. simpl arr_of.
  eapply mapM_sound_concat; [|exact E1]. intros a b Hab. cbv beta. symmetry. now apply codeql_run_sound.
Qed.

Theorem dd_reader_sound doc fs : dd_reader doc = Some fs -> fs = dd_spec doc.
Proof.
  unfold dd_reader, dd_spec. destruct (jget s_results doc) as [[| | | |l|]|]; try discriminate. simpl arr_of.
  intros H. eapply mapM_sound; [|exact H]. intros a b Hab. cbv beta. rewrite Hab. reflexivity.
Qed.

(** A foreign run (another tool) next to a CodeQL run does not disturb the CodeQL findings. *)
Lemma codeql_spec_app (scd : sc_default) runs1 runs2 :
  codeql_spec scd (JObj [(s_runs, JArr (runs1 ++ runs2))]) =
  codeql_spec scd (JObj [(s_runs, JArr runs1)]) ++ codeql_spec scd (JObj [(s_runs, JArr runs2)]).
Proof.
  assert (Hg : forall v, jget s_runs (JObj [(s_runs, v)]) = Some v) by (intros v; reflexivity).
  unfold codeql_spec. rewrite !Hg. simpl arr_of. now rewrite flat_map_app.
Qed.

(** Completeness: the readers raise exactly on documents with an individually unreadable element. *)
Lemma mapM_total {A B} (f : A -> option B) l :
  mapM f l = if forallb (fun x => is_some (f x)) l then mapM f l else None.
Proof.
  induction l as [|x l IH]; simpl; [reflexivity|].
  destruct (f x) as [y|]; simpl; [|reflexivity].
  destruct (forallb (fun x0 => is_some (f x0)) l); [reflexivity|]. rewrite IH. reflexivity.
Qed.

Lemma mapM_is_some {A B} (f : A -> option B) l :
  is_some (mapM f l) = forallb (fun x => is_some (f x)) l.
Proof.
  induction l as [|x l IH]; simpl; [reflexivity|].
  destruct (f x) as [y|]; simpl; [|reflexivity].
  rewrite <- IH. destruct (mapM f l); reflexivity.
Qed.

Lemma forallb_ext_in {A} (P Q : A -> bool) l : (forall x, P x = Q x) -> forallb P l = forallb Q l.
Proof. intros H. induction l as [|x l IH]; simpl; [reflexivity|]. now rewrite H, IH. Qed.

Lemma is_some_bind_jarr {B} (o : option json) (k : list json -> option B) :
  is_some (x <- o ;; l <- jarr x ;; k l) = match o with Some (JArr l) => is_some (k l) | _ => false end.
Proof. destruct o as [[| | | |l|]|]; reflexivity. Qed.

Lemma semgrep_result_readable run result :
  is_some (semgrep_result run result) =
  match extract_rule_id result run with
  | Some rule => all_arr (jget s_locations result) (fun loc => is_some (semgrep_location rule loc))
  | None => false
  end.
Proof.
  unfold semgrep_result. destruct (extract_rule_id result run) as [rule|]; cbn [bind]; [|reflexivity].
  rewrite is_some_bind_jarr. unfold all_arr.
  destruct (jget s_locations result) as [[| | | |l|]|]; try reflexivity. apply mapM_is_some.
Qed.

Lemma semgrep_run_readable run :
  is_some (semgrep_run run) =
  all_arr (jget s_results run) (fun result =>
      match extract_rule_id result run with
      | Some rule => all_arr (jget s_locations result) (fun loc => is_some (semgrep_location rule loc))
      | None => false
      end).
Proof.
  unfold semgrep_run. rewrite is_some_bind_jarr. unfold all_arr at 1.
  destruct (jget s_results run) as [[| | | |l|]|]; try reflexivity.
  transitivity (is_some (mapM (semgrep_result run) l)).
  - destruct (mapM (semgrep_result run) l); reflexivity.
  - rewrite mapM_is_some. apply forallb_ext_in. intros x. apply semgrep_result_readable.
Qed.

Lemma semgrep_reader_readable doc : is_some (semgrep_reader doc) = readable_semgrep doc.
Proof.
  unfold semgrep_reader, readable_semgrep. rewrite is_some_bind_jarr. unfold all_arr at 1.
  destruct (jget s_runs doc) as [[| | | |l|]|]; try reflexivity.
  transitivity (is_some (mapM semgrep_run l)).
  - destruct (mapM semgrep_run l); reflexivity.
  - rewrite mapM_is_some. apply forallb_ext_in. intros x. apply semgrep_run_readable.
Qed.

Theorem semgrep_reader_exact doc :
  semgrep_reader doc = if readable_semgrep doc then Some (semgrep_spec doc) else None.
Proof.
  rewrite <- semgrep_reader_readable. destruct (semgrep_reader doc) as [fs|] eqn:E; simpl; [|reflexivity].
  f_equal. now apply semgrep_reader_sound.
Qed.

Lemma codeql_result_readable (scd : sc_default) run result :
  is_some (codeql_result scd run result) =
  match extract_rule_id result run with
  | Some rule => all_arr (jget s_locations result) (fun loc => is_some (codeql_location scd rule loc))
  | None => false
  end.
Proof.
  unfold codeql_result. destruct (extract_rule_id result run) as [rule|]; cbn [bind]; [|reflexivity].
  rewrite is_some_bind_jarr. unfold all_arr.
  destruct (jget s_locations result) as [[| | | |l|]|]; try reflexivity. apply mapM_is_some.
Qed.

Lemma codeql_run_readable (scd : sc_default) run :
  is_some (codeql_run scd run) =
  match codeql_detect run with
  | Some true =>
      all_arr (jget s_results run) (fun result =>
        match extract_rule_id result run with
        | Some rule => all_arr (jget s_locations result) (fun loc => is_some (codeql_location scd rule loc))
        | None => false
        end)
  | Some false => true
  | None => false
  end.
Proof.
  unfold codeql_run. destruct (codeql_detect run) as [[|]|]; cbn [bind]; try reflexivity.
  rewrite is_some_bind_jarr. unfold all_arr at 1.
  destruct (jget s_results run) as [[| | | |l|]|]; try reflexivity.
  transitivity (is_some (mapM (codeql_result scd run) l)).
  - destruct (mapM (codeql_result scd run) l); reflexivity.
  - rewrite mapM_is_some. apply forallb_ext_in. intros x. apply codeql_result_readable.
Qed.

Lemma codeql_reader_readable (scd : sc_default) doc : is_some (codeql_reader scd doc) = readable_codeql scd doc.
Proof.
  unfold codeql_reader, readable_codeql. rewrite is_some_bind_jarr. unfold all_arr at 1.
  destruct (jget s_runs doc) as [[| | | |l|]|]; try reflexivity.
  transitivity (is_some (mapM (codeql_run scd) l)).
  - destruct (mapM (codeql_run scd) l); reflexivity.
  - rewrite mapM_is_some. apply forallb_ext_in. intros x. apply codeql_run_readable.
Qed.

Theorem codeql_reader_exact (scd : sc_default) doc :
  codeql_reader scd doc = if readable_codeql scd doc then Some (codeql_spec scd doc) else None.
Proof.
  rewrite <- codeql_reader_readable. destruct (codeql_reader scd doc) as [fs|] eqn:E; simpl; [|reflexivity].
  f_equal. now apply codeql_reader_sound.
Qed.

Lemma dd_reader_readable doc : is_some (dd_reader doc) = readable_dd doc.
Proof.
  unfold dd_reader, readable_dd, all_arr. destruct (jget s_results doc) as [[| | | |l|]|]; try reflexivity.
  apply mapM_is_some.
Qed.

Theorem dd_reader_exact doc : dd_reader doc = if readable_dd doc then Some (dd_spec doc) else None.
Proof.
  rewrite <- dd_reader_readable. destruct (dd_reader doc) as [fs|] eqn:E; simpl; [|reflexivity].
  f_equal. now apply dd_reader_sound.
Qed.

(** witnesses for the non-vacuity example *)
Definition w_loc (line : Z) : json :=
  JObj [(s_physicalLocation, JObj [(s_artifactLocation, JObj [(s_uri, JStr [97;46;112;121]%N)]);
                                   (s_region, JObj [(s_startLine, JNum line); (s_startColumn, JNum 1);
                                                    (s_endLine, JNum line); (s_endColumn, JNum 9)])])].
Definition w_loc_bad : json := JObj [(s_physicalLocation, JObj [(s_artifactLocation, JObj [])])].
Definition w_run (locs : list json) : json :=
  JObj [(s_tool, JObj [(s_driver, JObj [(s_name, JStr s_CodeQL)])]);
        (s_results, JArr [JObj [(s_ruleId, JStr [114;49]%N); (s_locations, JArr locs)]])].
Definition w_sarif : json := JObj [(s_runs, JArr [w_run [w_loc 3; w_loc 7]])].
Definition w_sarif_bad : json := JObj [(s_runs, JArr [w_run [w_loc 3; w_loc_bad]])].
Definition w_dd : json :=
  JObj [(s_results, JArr [JObj [(s_id, JNum 5); (s_title, JStr [114;49]%N); (s_file_path, JStr [97;46;112;121]%N); (s_line, JNum 3)]])].
