"""Programs with n equally vulnerable sites for the SAST codemods, result files in each tool's own format computed from
the real libcst spans, and observation of what the real CLI rewrote (C06 end to end)."""
from __future__ import annotations

import json
import random
from dataclasses import dataclass, field
from pathlib import Path

import libcst as cst
from libcst.metadata import MetadataWrapper, PositionProvider

DD_DESER = "python.django.security.audit.avoid-insecure-deserialization.avoid-insecure-deserialization"
DD_COOKIE = "python.django.security.audit.secure-cookies.django-secure-set-cookie"


@dataclass
class Template:
    id: str                 # codemod id
    tool: str               # sonar | semgrep | defectdojo
    rule: str               # rule id written into the result file
    header: str             # imports / definitions the statement needs
    stmt: str               # one-line statement of site i; {i} is the site number
    site: str               # selector of the node whose span the tool reports (from the statement node)
    tested: str = "value"   # selector of the node the transformer tests (node_is_selected)
    tested_kind: str = "KCall"
    ovr: str = "FDefault"
    pad_ok: bool = True     # may the statement be preceded by `p = 0; ` on the same line
    min_gap: int = 0        # blank lines forced after the site
    quick: bool = True
    lost_when_enclosed: bool = False   # on_result_found rebuilds a selected node from original_node (replace_args(original_node, ..)):
                                       # the rewrite of a selected node nested in another selected node is discarded
    acts_on_any_selected: bool = True  # the transformer acts on (and reports a change for) every selected tested node; False: it first
                                       # checks that the node is the construct it fixes, so only the site nodes count
    entry: tuple = ((0, 0),)   # change entries reported per selected node: (line offset, line offset at which the findings are
                               # looked up), relative to the start line of the tested node
    own: tuple = (0,)          # line offsets of the entries that are the site's own (may carry its finding)
    ignores_results: bool = False   # the transformer never calls filter_by_result / node_is_selected
    only_last: bool = False    # the transformer keeps one (node, replacement) per module: only the last selected node is fixed
    no_indent: bool = False    # the site must sit at module level (the transformer declines nested definitions)
    block: tuple = ()          # a multi-line site (lines, unindented, {i} = site number) instead of `stmt`
    locate: object = None      # (module, i) -> (reported node, tested node) for block sites
    check: object = None       # (text after the run, i) -> True when site i was rewritten (default: the site text is gone)
    extra: dict = field(default_factory=dict)


TEMPLATES = [
    Template("sonar:python/secure-random", "sonar", "python:S2245", "import random\n", "v{i} = random.random()", "value"),
    Template("sonar:python/timezone-aware-datetime", "sonar", "python:S6903", "import datetime\n",
             "v{i} = datetime.datetime.utcnow()", "value"),
    Template("sonar:python/jwt-decode-verify", "sonar", "python:S5659", "import jwt\n",
             'v{i} = jwt.decode(tok, "k", algorithms=["HS256"], verify=False)', "kw:verify", ovr="FFuzzyCall", lost_when_enclosed=True),
    Template("sonar:python/fix-math-isclose", "sonar", "python:S6727", "import math\n", "v{i} = math.isclose(a{i}, 0)", "func",
             ovr="FFuzzyCall", acts_on_any_selected=False),
    Template("sonar:python/secure-tempfile", "sonar", "python:S5445", "import tempfile\n", "v{i} = tempfile.mktemp()", "value",
             tested="stmt", tested_kind="KStmtLine", ovr="FSameLineStmt", pad_ok=False),
    Template("sonar:python/fix-assert-tuple", "sonar", "python:S5905", "", "assert (m{i}, 1)", "test", tested="test",
             tested_kind="KTuple", pad_ok=False, entry=((0, 0), (1, 1))),
    Template("sonar:python/invert-boolean-check", "sonar", "python:S1940", "", "v{i} = not a{i} == b", "value", tested_kind="KOther"),
    Template("sonar:python/numpy-nan-equality", "sonar", "python:S6725", "import numpy as np\n", "v{i} = a{i} == np.nan", "value",
             tested_kind="KOther"),
    Template("sonar:python/enable-jinja2-autoescape", "sonar", "python:S5247", "from jinja2 import Environment\n",
             "v{i} = Environment()", "value", quick=False),
    Template("semgrep:python/harden-pyyaml", "semgrep", "python.lang.security.deserialization.avoid-pyyaml-load.avoid-pyyaml-load",
             "import yaml\n", "v{i} = yaml.load(d{i})", "value"),
    Template("semgrep:python/subprocess-shell-false", "semgrep", "python.lang.security.audit.subprocess-shell-true.subprocess-shell-true",
             "import subprocess\n", "v{i} = subprocess.run(c{i}, shell=True)", "value"),
    Template("semgrep:python/rsa-key-size", "semgrep",
             "python.cryptography.security.insufficient-rsa-key-size.insufficient-rsa-key-size",
             "from cryptography.hazmat.primitives.asymmetric import rsa\n",
             "v{i} = rsa.generate_private_key(public_exponent=65537, key_size=1024)", "kw:key_size", ovr="FFuzzyCall",
             lost_when_enclosed=True),
    Template("semgrep:python/jwt-decode-verify", "semgrep", "python.jwt.security.unverified-jwt-decode.unverified-jwt-decode",
             "import jwt\n", 'v{i} = jwt.decode(tok, "k", algorithms=["HS256"], verify=False)', "kw:verify", ovr="FFuzzyCall",
             quick=False, lost_when_enclosed=True),
    Template("semgrep:python/enable-jinja2-autoescape", "semgrep",
             "python.flask.security.xss.audit.direct-use-of-jinja2.direct-use-of-jinja2", "from jinja2 import Environment\n",
             "v{i} = Environment()", "value", quick=False),
    Template("sonar:python/url-sandbox", "sonar", "pythonsecurity:S5144", "import requests\n", "v{i} = requests.get(u{i})", "value", quick=False),
    Template("semgrep:python/url-sandbox", "semgrep", "python.django.security.injection.ssrf.ssrf-injection-requests.ssrf-injection-requests",
             "import requests\n", "v{i} = requests.get(u{i})", "value", quick=False),
    Template("sonar:python/sandbox-process-creation", "sonar", "pythonsecurity:S2076", "import subprocess\n", "v{i} = subprocess.run(c{i})",
             "value", quick=False),
    Template("semgrep:python/sandbox-process-creation", "semgrep", "python.lang.security.dangerous-system-call.dangerous-system-call",
             "import subprocess\n", "v{i} = subprocess.run(c{i})", "value", quick=False),
    Template("semgrep:python/django-secure-set-cookie", "semgrep", DD_COOKIE, "", 'v{i} = resp.set_cookie("k{i}", "v")', "value", quick=False),
    Template("semgrep:python/use-defusedxml", "semgrep", "python.lang.security.use-defused-xml-parse.use-defused-xml-parse",
             "from xml.etree.ElementTree import parse\n", 'v{i} = parse("f{i}.xml")', "value", quick=False),
    Template("sonar:python/fix-float-equality", "sonar", "python:S1244", "", "v{i} = a{i} == 0.1", "value", tested_kind="KOther", quick=False),
    Template("defectdojo:python/avoid-insecure-deserialization", "defectdojo", DD_DESER, "import yaml\n", "v{i} = yaml.load(d{i})",
             "value"),
    Template("defectdojo:python/django-secure-set-cookie", "defectdojo", DD_COOKIE, "", 'v{i} = resp.set_cookie("k{i}", "v")', "value"),
]

# ---- sites that are whole statements / blocks, located by a marker ------------------------------------------------------
import libcst.matchers as m


def _fn(module, name):
    return [f for f in m.findall(module, m.FunctionDef()) if f.name.value == name][0]


def _cls(module, name):
    return [c for c in m.findall(module, m.ClassDef()) if c.name.value == name][0]


def _loc_csrf(module, i):
    d = _fn(module, f"view{i}").decorators[0]
    return d, d


def _loc_receiver(module, i):
    d = _fn(module, f"h{i}").decorators[1]
    return d, d


def _loc_expr_stmt(module, i):
    for st in m.findall(module, m.SimpleStatementLine(body=[m.Expr(m.Call())])):
        c = st.body[0].value
        if c.args and isinstance(c.args[0].value, cst.SimpleString) and c.args[0].value.value == f'"m{i}"':
            return c, st
    raise KeyError(i)


def _loc_pytest(module, i):
    for w in m.findall(module, m.With()):
        last = w.body.body[-1]
        if isinstance(last, cst.SimpleStatementLine) and isinstance(last.body[0], cst.Assert) and \
                isinstance(last.body[0].test, cst.Name) and last.body[0].test.value == f"x{i}":
            return last, last
    raise KeyError(i)


def _loc_return_value(module, i):
    r = m.findall(_fn(module, f"view{i}"), m.Return())[0]
    return r.value, r.value


def _loc_funcdef(module, i):
    f = _fn(module, f"meth{i}")
    return f, f


def _loc_classdef(module, i):
    c = _cls(module, f"M{i}")
    return c, c


def _loc_break(module, i):
    for st in m.findall(module, m.If()):
        if isinstance(st.test, cst.Name) and st.test.value == f"cond{i}":
            b = m.findall(st, m.Break())[0]
            return b, b
    raise KeyError(i)


def _loc_execute(module, i):
    for c in m.findall(module, m.Call(func=m.Attribute(attr=m.Name("execute")))):
        if f"name{i}" in cst.Module([]).code_for_node(c):
            return c, c
    raise KeyError(i)


def _loc_graphql(module, i):
    for c in m.findall(module, m.Call()):
        if f'"/g{i}"' in cst.Module([]).code_for_node(c) and "as_view" in cst.Module([]).code_for_node(c.func):
            return c, c
    raise KeyError(i)


SQL_HEADER = "import sqlite3\nconn = sqlite3.connect('x')\ncur = conn.cursor()\n"
SQL_RULE = "python.lang.security.audit.formatted-sql-query.formatted-sql-query"
BLOCK_TEMPLATES = [
    Template("semgrep:python/no-csrf-exempt", "semgrep", "python.django.security.audit.csrf-exempt.no-csrf-exempt",
             "from django.views.decorators.csrf import csrf_exempt\n", "", "", tested_kind="KOther", pad_ok=False,
             block=("@csrf_exempt", "def view{i}(request):", "    return {i}"), locate=_loc_csrf, ignores_results=True,
             check=lambda after, i: f"@csrf_exempt\ndef view{i}(" not in after.replace("    ", "")),
    Template("semgrep:python/nan-injection", "semgrep", "python.django.security.nan-injection.nan-injection", "", "v{i} = float(tid{i})", "value",
             pad_ok=False, entry=((0, 0), (1, 0), (2, 0), (3, 0)), own=(0, 1, 2, 3), acts_on_any_selected=False,
             check=lambda after, i: f'if tid{i}.lower() == "nan"' in after),
    Template("semgrep:python/sql-parameterization", "semgrep", SQL_RULE, SQL_HEADER, "", "", pad_ok=False, acts_on_any_selected=False,
             block=("cur.execute(\"SELECT * FROM t WHERE name ='\" + name{i} + \"'\")",), locate=_loc_execute, quick=False),
    Template("sonar:python/sql-parameterization", "sonar", "pythonsecurity:S3649", SQL_HEADER, "", "", pad_ok=False, acts_on_any_selected=False,
             block=("cur.execute(\"SELECT * FROM t WHERE name ='\" + name{i} + \"'\")",), locate=_loc_execute, quick=False),
    Template("sonar:python/literal-or-new-object-identity", "sonar", "python:S5796", "", "v{i} = a{i} is [1]", "operator", tested="operator",
             tested_kind="KOther", acts_on_any_selected=False),
    Template("sonar:python/django-receiver-on-top", "sonar", "python:S6552", "from django.dispatch import receiver\n", "", "",
             tested_kind="KOther", pad_ok=False, acts_on_any_selected=False,
             block=("@deco{i}", "@receiver(sig{i})", "def h{i}(sender):", "    pass"), locate=_loc_receiver, entry=((0, 0), (-1, -1)),
             check=lambda after, i: f"@receiver(sig{i})\n@deco{i}" in after.replace("    ", ""), quick=False),
    Template("sonar:python/exception-without-raise", "sonar", "python:S3984", "", "", "", tested_kind="KStmtLine", pad_ok=False,
             acts_on_any_selected=False, block=('ValueError("m{i}")',), locate=_loc_expr_stmt,
             check=lambda after, i: f'raise ValueError("m{i}")' in after),
    Template("sonar:python/remove-assertion-in-pytest-raises", "sonar", "python:S5915", "import pytest\n", "", "", tested_kind="KStmtLine",
             pad_ok=False, acts_on_any_selected=False,
             block=("with pytest.raises(ZeroDivisionError):", "    x{i} = 1 / 0", "    assert x{i}"), locate=_loc_pytest, quick=False,
             entry=((-2, -2),)),      # the change is reported for the `with` statement, two lines above the reported assert
    Template("sonar:python/flask-json-response-type", "sonar", "pythonsecurity:S5131",
             "import json\nfrom flask import Flask, make_response\napp = Flask(__name__)\n", "", "", tested_kind="KCall", pad_ok=False,
             acts_on_any_selected=False,
             block=('@app.route("/r{i}")', "def view{i}():", '    return make_response(json.dumps({{"k": {i}}}))'), locate=_loc_return_value,
             quick=False, only_last=True),
    Template("sonar:python/django-json-response-type", "sonar", "pythonsecurity:S5131", "import json\nfrom django.http import HttpResponse\n",
             'v{i} = HttpResponse(json.dumps({{"k": {i}}}))', "value", quick=False),
    Template("sonar:python/fix-missing-self-or-cls", "sonar", "python:S5719", "", "", "", tested_kind="KOther", pad_ok=False,
             acts_on_any_selected=False, block=("class C{i}:", "    def meth{i}():", "        pass"), locate=_loc_funcdef, extra={"funcdef": True},
             no_indent=True,
             check=lambda after, i: f"def meth{i}(self):" in after),
    Template("sonar:python/django-model-without-dunder-str", "sonar", "python:S6554", "from django.db import models\n", "", "",
             tested_kind="KClassDef", pad_ok=False, block=("class M{i}(models.Model):", "    name{i} = models.CharField(max_length=9)"),
             locate=_loc_classdef, ignores_results=True, acts_on_any_selected=False, quick=False,
             check=lambda after, i: __import__("re").search(rf"name{i} = models\.CharField\(max_length=9\)\n\s*\n\s*def __str__", after) is not None),
    Template("sonar:python/break-or-continue-out-of-loop", "sonar", "python:S1716", "", "", "", tested_kind="KOther", pad_ok=False,
             block=("if cond{i}:", "    print({i})", "    break"), locate=_loc_break, ignores_results=True, acts_on_any_selected=False, quick=False,
             check=lambda after, i: f"print({i})\nbreak" not in after.replace("    ", "")),
    Template("sonar:python/disable-graphql-introspection", "sonar", "python:S6786",
             "from graphql_server.flask import GraphQLView\nfrom flask import Flask\napp = Flask(__name__)\n", "", "", pad_ok=False,
             acts_on_any_selected=False,
             block=('app.add_url_rule("/g{i}", view_func=GraphQLView.as_view("/g{i}", schema=schema{i}))',), locate=_loc_graphql, quick=False),
]
TEMPLATES = TEMPLATES + BLOCK_TEMPLATES

# SAST codemods of the registry that have NO end-to-end template here, and why.  A registered SAST codemod that is neither in
# TEMPLATES nor here is reported as lost coverage (mismatch); so is a template whose id is not registered.
NOT_COVERED: dict = {}

RCLASS = {"sonar": "RSonar", "semgrep": "RBase", "defectdojo": "RDefectDojo"}
FOREIGN_RULE = {"sonar": "python:S9999", "semgrep": "python.lang.foreign.other-rule.other-rule", "defectdojo": "foreign.rule.other"}


# ------------------------------------------------------------------------------------------------
# program generation
# ------------------------------------------------------------------------------------------------
def gen_program(rng: random.Random, t: Template, n: int, same_line_pair=False, multiline=False, wrap=None):
    """Returns (source, [site statement text]).  Sites sit at random indentation / column offsets, in blocks."""
    lines = [t.header] if t.header else []
    lines.append("\n" * rng.randint(0, 2))
    stmts = []
    i = 1
    while i <= n:
        indent = 0 if t.no_indent else rng.choice([0, 0, 4, 8])
        if indent == 4:
            lines.append(f"def g{i}(x):\n")
        elif indent == 8:
            lines.append(f"class K{i}:\n    def m(self, x):\n")
        pre = " " * indent
        if t.block:
            text = "".join(pre + l.format(i=i) + "\n" for l in t.block)
            stmts.append(text)
            lines.append(text)
            if indent:
                lines.append(pre + "return x\n")
            lines.append("\n" * max(t.min_gap, rng.randint(0, 2)))
            i += 1
            continue
        s = t.stmt.format(i=i)
        if t.ovr == "FFuzzyCall" and " = " in s and (rng.random() < 0.3 if wrap is None else wrap):
            # the reported call as the argument of another call on the same line: the location lies inside both
            lhs, rhs = s.split(" = ", 1)
            s = f"{lhs} = str({rhs})"
        if multiline and s.endswith(")") and "(" in s:
            # spread the call over three lines: the closing parenthesis on its own line
            head, tail = s[:-1], ")"
            s_text = head + "\n" + pre + "    # c\n" + pre + tail
        else:
            s_text = s
        stmts.append(s_text)
        pad = ""
        if t.pad_ok and rng.random() < 0.5:
            pad = "p" + "q" * rng.randint(0, 6) + f"{i} = 0; "
        if same_line_pair and i < n and t.pad_ok:
            s2 = t.stmt.format(i=i + 1)
            stmts.append(s2)
            lines.append(pre + pad + s_text + "; " + s2 + "\n")
            i += 1
        else:
            lines.append(pre + pad + s_text + "\n")
        if indent:
            lines.append(pre + "return x\n")
        lines.append("\n" * max(t.min_gap, rng.randint(0, 2)))
        i += 1
    return "".join(lines), stmts


# ------------------------------------------------------------------------------------------------
# spans
# ------------------------------------------------------------------------------------------------
def _select(node, sel):
    """node: the small statement (Assign / Assert / Expr) of the site, or its SimpleStatementLine for 'stmt'."""
    if sel == "value":
        return node.value
    if sel == "expr":
        return node.value
    if sel == "test":
        return node.test
    if sel == "func":
        return node.value.func
    if sel == "operator":
        return node.value.comparisons[0].operator
    if sel.startswith("kw:"):
        for a in node.value.args:
            if a.keyword is not None and a.keyword.value == sel[3:]:
                return a
        raise KeyError(sel)
    raise KeyError(sel)


def analyse(src: str, t: Template, n: int):
    """libcst spans of the program: per site the reported node, the tested node; all tested-kind nodes; all candidates."""
    mod = cst.parse_module(src)
    w = MetadataWrapper(mod, unsafe_skip_copy=True)
    pos = w.resolve(PositionProvider)

    def span(nd):
        r = pos[nd]
        return (r.start.line, r.start.column, r.end.line, r.end.column)

    sites = {}
    small_of = {}

    class V(cst.CSTVisitor):
        def __init__(self):
            self.calls, self.assigns, self.classes, self.stmts, self.tuples, self.others = [], [], [], [], [], []

        def visit_SimpleStatementLine(self, node):
            self.stmts.append(node)
            for small in node.body:
                key = None
                if isinstance(small, cst.Assign) and isinstance(small.targets[0].target, cst.Name):
                    nm = small.targets[0].target.value
                    if nm.startswith("v") and nm[1:].isdigit():
                        key = int(nm[1:])
                elif isinstance(small, cst.Assert) and isinstance(small.test, cst.Tuple) and small.test.elements and \
                        isinstance(small.test.elements[0].value, cst.Name) and small.test.elements[0].value.value.startswith("m"):
                    key = int(small.test.elements[0].value.value[1:])
                elif isinstance(small, cst.Expr) and isinstance(small.value, cst.Call) and small.value.args and \
                        isinstance(small.value.args[0].value, cst.SimpleString) and small.value.args[0].value.value.startswith('"m'):
                    key = int(small.value.args[0].value.value[2:-1])
                if key is not None:
                    small_of[key] = (small, node)

        def visit_Call(self, node):
            self.calls.append(node)

        def visit_Assign(self, node):
            self.assigns.append(node)

        def visit_ClassDef(self, node):
            self.classes.append(node)

        def visit_Tuple(self, node):
            self.tuples.append(node)

        def visit_UnaryOperation(self, node):
            self.others.append(node)

        def visit_Comparison(self, node):
            self.others.append(node)

    v = V()
    w.module.visit(v)
    def fspan(f):
        # UtilsMixin.node_position for a FunctionDef: from its start to one past the end of its parameters
        pe = pos[f.params].end
        return (pos[f].start.line, pos[f].start.column, pe.line, pe.column + 1)

    for i in range(1, n + 1):
        if t.locate is not None:
            rep_, tst = t.locate(w.module, i)
            sp = fspan if t.extra.get("funcdef") else span
            sites[i] = {"reported": sp(rep_), "tested": sp(tst), "tested_node": tst, "line": sp(tst)[0],
                        "reported_is_tuple": False, "wrapped": False}
            continue
        small, line = small_of[i]
        wrapped = False
        if isinstance(small, cst.Assign) and isinstance(small.value, cst.Call) and isinstance(small.value.func, cst.Name) and \
                small.value.func.value == "str" and len(small.value.args) == 1 and isinstance(small.value.args[0].value, cst.Call):
            small = small.with_changes(value=small.value.args[0].value)     # selectors address the wrapped call
            wrapped = True
        rep = line if t.site == "stmt" else _select(small, t.site)
        tst = line if t.tested == "stmt" else _select(small, t.tested)
        sites[i] = {"reported": span(rep), "tested": span(tst), "tested_node": tst, "line": span(tst)[0],
                    "reported_is_tuple": isinstance(rep, cst.Tuple), "wrapped": wrapped}
    pool = {"KCall": v.calls, "KStmtLine": v.stmts, "KTuple": v.tuples, "KOther": v.others, "KClassDef": v.classes}[t.tested_kind]
    if t.locate is not None or not t.acts_on_any_selected or t.site == "operator":
        pool = [s_["tested_node"] for s_ in sites.values()]
    tested = []
    site_by_node = {id(s["tested_node"]): i for i, s in sites.items()}
    nxt = 100
    for nd in sorted(pool, key=lambda x: (pos[x].end.line, pos[x].end.column, -pos[x].start.line, -pos[x].start.column)):
        i = site_by_node.get(id(nd))
        if i is None:
            if not t.acts_on_any_selected:
                continue
            nxt += 1
            tested.append((nxt, t.tested_kind, span(nd)))
        else:
            tested.append((i, t.tested_kind, sites[i]["tested"]))
    cands, k = [], 1000
    for kind, nodes in (("KCall", v.calls), ("KAssign", v.assigns), ("KClassDef", v.classes)):
        for nd in nodes:
            k += 1
            cands.append((k, kind, span(nd)))
    if t.tested_kind not in ("KCall", "KAssign", "KClassDef"):
        cands = cands + [(i, kd, s) for (i, kd, s) in tested]
    if t.locate is not None and t.tested_kind not in ("KCall", "KAssign", "KClassDef"):
        # a transformer that tests one particular kind of node (a decorator, a `break`, a FunctionDef signature ...): the span
        # discipline that matters is the one among the nodes it tests
        cands = list(tested)
    return sites, tested, cands


# ------------------------------------------------------------------------------------------------
# locations in the tool's convention and result files
# ------------------------------------------------------------------------------------------------
def tool_location(tool: str, sp, is_tuple=False):
    """(startLine, startCol, endLine, endCol) as the tool writes it for the libcst span sp."""
    l1, c1, l2, c2 = sp
    if tool == "sonar":
        # 1-based lines, 0-based offsets, end exclusive — the same as libcst; a parenthesised tuple is reported with
        # its parentheses (libcst's Tuple span excludes them)
        return (l1, c1 - 1, l2, c2 + 1) if is_tuple else (l1, c1, l2, c2)
    if tool == "semgrep":
        return (l1, c1 + 1, l2, c2 + 1)     # SARIF: 1-based columns, end exclusive
    return (l1, -1, l1, -1)                 # DefectDojo: the line only


def sonar_issue(key, rule, path, loc, status="OPEN", hotspot=False):
    d = {"key": key, "component": f"proj:{path}", "textRange": {"startLine": loc[0], "startOffset": loc[1], "endLine": loc[2],
                                                                 "endOffset": loc[3]},
         "status": status, "message": f"message of {key}", "flows": []}
    d["ruleKey" if hotspot else "rule"] = rule
    return d


def sarif_result(rule, path, loc):
    return {"ruleId": rule, "message": {"text": "m"}, "locations": [{"physicalLocation": {
        "artifactLocation": {"uri": path, "uriBaseId": "%SRCROOT%"},
        "region": {"startLine": loc[0], "startColumn": loc[1], "endLine": loc[2], "endColumn": loc[3], "snippet": {"text": "x"}}}}]}


def write_result_file(path: Path, tool: str, entries: list[dict]):
    """entries: {key, rule, file, loc, status}"""
    if tool == "sonar":
        doc = {"issues": [sonar_issue(e["key"], e["rule"], e["file"], e["loc"], e.get("status", "OPEN")) for e in entries]}
    elif tool == "semgrep":
        doc = {"version": "2.1.0", "runs": [{"tool": {"driver": {"name": "Semgrep OSS", "rules": []}},
                                             "results": [sarif_result(e["rule"], e["file"], e["loc"]) for e in entries]}]}
    else:
        doc = {"results": [{"id": e["key"], "title": e["rule"], "file_path": e["file"], "line": e["loc"][0]} for e in entries]}
    path.write_text(json.dumps(doc, indent=1))


def cli_flag(tool):
    return {"sonar": "--sonar-issues-json", "semgrep": "--sarif", "defectdojo": "--defectdojo-findings-json"}[tool]


def is_open(tool, e):
    return tool != "sonar" or e.get("status", "OPEN").lower() in ("open", "to_review")
