import json
from pathlib import Path

from typing_extensions import Self

from codemodder.codetf import Finding, Rule
from codemodder.result import LineInfo, ResultSet, SarifLocation, SarifResult
from codemodder.sarifs import AbstractSarifToolDetector


class CodeQLSarifToolDetector(AbstractSarifToolDetector):
    @classmethod
    def detect(cls, run_data: dict) -> bool:
        return "tool" in run_data and "CodeQL" in run_data["tool"]["driver"]["name"]


class CodeQLLocation(SarifLocation):
    @classmethod
    def from_sarif(cls, sarif_location) -> Self:
        artifact_location = sarif_location["physicalLocation"]["artifactLocation"]
        file = Path(artifact_location["uri"])

        try:
            region = sarif_location["physicalLocation"]["region"]
        except KeyError:
            # A location without a region indicates a result for the entire file.
            # Use sentinel values of 0 index for start/end
            zero = LineInfo(0)
            return cls(file=file, start=zero, end=zero)

        # SARIF: startColumn defaults to 1 when absent
        start = LineInfo(line=region["startLine"], column=region.get("startColumn", 1))
        end = LineInfo(
            line=region.get("endLine", start.line),
            column=region.get("endColumn", start.column),
        )
        return cls(file=file, start=start, end=end)


class CodeQLResult(SarifResult):
    location_type = CodeQLLocation

    @classmethod
    def from_sarif(
        cls, sarif_result, sarif_run, truncate_rule_id: bool = False
    ) -> Self:
        return cls(
            rule_id=(
                rule_id := cls.extract_rule_id(
                    sarif_result, sarif_run, truncate_rule_id
                )
            ),
            locations=cls.extract_locations(sarif_result),
            codeflows=cls.extract_code_flows(sarif_result),
            related_locations=cls.extract_related_locations(sarif_result),
            finding_id=rule_id,
            finding=Finding(
                id=rule_id,
                rule=Rule(
                    id=rule_id,
                    name=rule_id,
                    # TODO: map to URL
                    # url=,
                ),
            ),
        )


class CodeQLResultSet(ResultSet):
    @classmethod
    def from_sarif(cls, sarif_file: str | Path, truncate_rule_id: bool = False) -> Self:
        with open(sarif_file, "r", encoding="utf-8") as f:
            data = json.load(f)

        result_set = cls()
        for sarif_run in data["runs"]:
            if CodeQLSarifToolDetector.detect(sarif_run):
                for sarif_result in sarif_run["results"]:
                    codeql_result = CodeQLResult.from_sarif(
                        sarif_result, sarif_run, truncate_rule_id
                    )
                    result_set.add_result(codeql_result)
        return result_set
