# Fragments of Model/Location.v (C06, C18).  exec'd inside tools/translate.py.
# Shape fragments: tools/shapes/<fragment>/AsRead.py holds the source of the named definitions as the model was
# written against them; any edit makes the fragment unrecognised (tie broken).  Custom fragments additionally
# extract the numbers/choices the theorems are indexed by.
TABLE_IMPORTS.append("From CM Require Import Base.Types_Location.")

_LOC_PROPS = ["C06", "C18"]


def _z_list(v):
    return "[" + "; ".join(f"({int(x)})%Z" for x in v) + "]" if v else "([] : list Z)"


def _z_pair(v):
    return f"(({int(v[0])})%Z, ({int(v[1])})%Z)"


def _offset_of(node, base_name, base_attr_chain):
    """node is `<base>`, `<base> - k`, `<base> + k` where <base> is Name(base_name) or
    NamedExpr(Name(base_name), Attribute chain); returns the integer offset."""
    def is_base(n):
        if isinstance(n, ast.Name) and n.id == base_name:
            return True
        if isinstance(n, ast.NamedExpr) and isinstance(n.target, ast.Name) and n.target.id == base_name:
            return ast.unparse(n.value) == base_attr_chain
        return False
    if is_base(node):
        return 0
    if isinstance(node, ast.BinOp) and is_base(node.left) and isinstance(node.right, ast.Constant) \
            and isinstance(node.right.value, int) and not isinstance(node.right.value, bool):
        if isinstance(node.op, ast.Sub):
            return -node.right.value
        if isinstance(node.op, ast.Add):
            return node.right.value
    raise Unrecognised(f"column expression `{ast.unparse(node)}` is not {base_name} +/- constant")


_MATCH_LOCATION_REF = '''
def match_location(self, pos, node):
    del node
    return any(
        same_line(pos, location)
        and (pos.start.column in ())
        and (pos.end.column in ())
        for location in self.locations
    )
'''


def _match_location_tolerances(tree):
    import copy
    d = find_def(tree, "Result.match_location")
    if d is None:
        raise Unrecognised("Result.match_location not found")
    d = copy.deepcopy(d)
    tuples = []

    class Strip(ast.NodeTransformer):
        def visit_Compare(self, node):
            if len(node.ops) == 1 and isinstance(node.ops[0], ast.In) and isinstance(node.comparators[0], ast.Tuple):
                tuples.append((ast.unparse(node.left), node.comparators[0].elts))
                node.comparators[0] = ast.Tuple(elts=[], ctx=ast.Load())
            return node
    Strip().visit(d)
    ref = find_def(ast.parse(_MATCH_LOCATION_REF), "match_location")
    if norm_dump(d) != norm_dump(ref):
        raise Unrecognised("Result.match_location is not `any(same_line and start.column in (..) and end.column in (..) for location in self.locations)`")
    if [t[0] for t in tuples] != ["pos.start.column", "pos.end.column"]:
        raise Unrecognised("Result.match_location compares unexpected columns")
    start = [_offset_of(e, "start_column", "location.start.column") for e in tuples[0][1]]
    end = [_offset_of(e, "end_column", "location.end.column") for e in tuples[1][1]]
    # the walrus must be evaluated before the plain name is used
    for elts, nm in ((tuples[0][1], "start_column"), (tuples[1][1], "end_column")):
        first = elts[0] if elts else None
        has_walrus_first = first is not None and any(isinstance(x, ast.NamedExpr) for x in ast.walk(first))
        if not has_walrus_first:
            raise Unrecognised(f"{nm} is not bound by the first tuple element")
    return start, end


custom("loc_tol_start", "src/codemodder/result.py", _LOC_PROPS, "loc_tol_start", "list Z", [-1, 0],
       lambda tree, repo: _match_location_tolerances(tree)[0], printer=_z_list,
       doc="Result.match_location: offsets d with pos.start.column == location.start.column + d")
custom("loc_tol_end", "src/codemodder/result.py", _LOC_PROPS, "loc_tol_end", "list Z", [-1, 0],
       lambda tree, repo: _match_location_tolerances(tree)[1], printer=_z_list,
       doc="Result.match_location: offsets d with pos.end.column == location.end.column + d")

_SONAR_MATCH_REF = '''
def match_location(self, pos, node):
    match node:
        case cst.Tuple():
            new_pos = replace(
                pos,
                start=replace(pos.start, column=pos.start.column),
                end=replace(pos.end, column=pos.end.column),
            )
            return super().match_location(new_pos, node)
    return super().match_location(pos, node)
'''


def _sonar_widen(tree, repo):
    import copy
    d = find_def(tree, "SonarResult.match_location")
    if d is None:
        raise Unrecognised("SonarResult.match_location not found")
    d = copy.deepcopy(d)
    found = {}

    class Strip(ast.NodeTransformer):
        def visit_keyword(self, node):
            self.generic_visit(node)
            if node.arg == "column" and isinstance(node.value, ast.BinOp):
                base = ast.unparse(node.value.left)
                k = node.value.right
                if base in ("pos.start.column", "pos.end.column") and isinstance(k, ast.Constant) and isinstance(k.value, int) \
                        and isinstance(node.value.op, (ast.Add, ast.Sub)):
                    found[base] = k.value if isinstance(node.value.op, ast.Add) else -k.value
                    node.value = node.value.left
            return node
    Strip().visit(d)
    ref = find_def(ast.parse(_SONAR_MATCH_REF), "match_location")
    if norm_dump(d) != norm_dump(ref):
        raise Unrecognised("SonarResult.match_location is not the Tuple-widening wrapper around Result.match_location")
    return [found.get("pos.start.column", 0), found.get("pos.end.column", 0)]


custom("sonar_tuple_widen", "src/core_codemods/sonar/results.py", _LOC_PROPS, "sonar_tuple_widen", "(Z * Z)%type", [-1, 1],
       _sonar_widen, printer=_z_pair, doc="SonarResult.match_location: column deltas applied to the span of a cst.Tuple")


def _sonar_finding_id(tree, repo):
    d = find_def(tree, "SonarResult.from_result")
    if d is None:
        raise Unrecognised("SonarResult.from_result not found")
    calls = [n for n in ast.walk(d) if isinstance(n, ast.Call) and isinstance(n.func, ast.Name) and n.func.id == "Finding"]
    if len(calls) != 1:
        raise Unrecognised("SonarResult.from_result does not build exactly one Finding(...)")
    kw = {k.arg: k.value for k in calls[0].keywords}
    v = kw.get("id")
    if isinstance(v, ast.Name) and v.id == "rule_id":
        return "IdIsRuleId"
    if isinstance(v, ast.Name) and v.id == "finding_id":
        return "IdIsFindingKey"
    raise Unrecognised("Finding(id=...) in SonarResult.from_result is neither rule_id nor finding_id")


custom("sonar_finding_id", "src/core_codemods/sonar/results.py", ["C06"], "sonar_finding_id", "finding_id_source", "IdIsFindingKey",
       _sonar_finding_id, doc="SonarResult.from_result: what Finding.id is")

shape("location_helpers", "src/codemodder/result.py", _LOC_PROPS, "location_helpers_shape", "as_read", "AsRead",
      ["same_line", "fuzzy_column_match", "ResultSet.results_for_rule_and_file", "ResultSet.add_result", "SarifResult.extract_rule_id"],
      doc="same_line, fuzzy_column_match, ResultSet.results_for_rule_and_file/add_result, SarifResult.extract_rule_id")
shape("dd_match_location", "src/core_codemods/defectdojo/results.py", ["C06"], "dd_match_location_shape", "as_read", "AsRead",
      ["DefectDojoResult.match_location", "DefectDojoLocation.from_result"],
      doc="DefectDojoResult.match_location (line containment), DefectDojoLocation.from_result (line only)")
shape("override_jwt", "src/core_codemods/jwt_decode_verify.py", ["C06"], "override_jwt_shape", "as_read", "AsRead",
      ["JwtDecodeVerifySASTTransformer.filter_by_result", "JwtDecodeVerifySASTTransformer.match_location"],
      doc="JwtDecodeVerifySASTTransformer.filter_by_result / match_location (fuzzy, Call only)")
shape("override_isclose", "src/core_codemods/sonar/sonar_fix_math_isclose.py", ["C06"], "override_isclose_shape", "as_read", "AsRead",
      ["FixMathIsCloseSonarTransformer.filter_by_result", "FixMathIsCloseSonarTransformer.match_location"],
      doc="FixMathIsCloseSonarTransformer.filter_by_result / match_location (fuzzy, Call only)")
shape("override_rsa", "src/core_codemods/semgrep/semgrep_rsa_key_size.py", ["C06"], "override_rsa_shape", "as_read", "AsRead",
      ["RsaKeySizeTransformer.filter_by_result", "RsaKeySizeTransformer.match_location"],
      doc="RsaKeySizeTransformer.filter_by_result / match_location (fuzzy, Call only)")
shape("override_mktemp", "src/core_codemods/tempfile_mktemp.py", ["C06"], "override_mktemp_shape", "as_read", "AsRead",
      ["TempfileMktempTransformer.filter_by_result", "TempfileMktempTransformer.match_location"],
      doc="TempfileMktempTransformer.filter_by_result / match_location (same line, SimpleStatementLine only)")
shape("visitor_select", "src/codemodder/codemods/base_visitor.py", _LOC_PROPS, "visitor_select_shape", "as_read", "AsRead",
      ["UtilsMixin.filter_by_result", "UtilsMixin.results_for_node", "UtilsMixin.node_is_selected", "UtilsMixin.node_position",
       "UtilsMixin.filter_by_path_includes_or_excludes", "match_line"],
      doc="UtilsMixin.filter_by_result / results_for_node / node_is_selected / node_position / line filter")
shape("transformer_join", "src/codemodder/codemods/libcst_transformer.py", _LOC_PROPS, "transformer_join_shape", "as_read", "AsRead",
      ["LibcstResultTransformer._new_or_updated_node", "LibcstResultTransformer.leave_Call", "LibcstResultTransformer.leave_Assign",
       "LibcstResultTransformer.leave_ClassDef", "LibcstResultTransformer.report_change",
       "LibcstResultTransformer.report_change_for_line", "LibcstResultTransformer.lineno_for_node"],
      doc="_new_or_updated_node, leave_Call/Assign/ClassDef, report_change, report_change_for_line")
shape("findings_for_location", "src/codemodder/file_context.py", ["C06"], "findings_attach_rule", "attach_rule", "ByLineRange",
      ["FileContext.get_findings_for_location"], doc="FileContext.get_findings_for_location")
shape("remediation_files", "src/codemodder/codemods/base_codemod.py", ["C06"], "remediation_files_shape", "as_read", "AsRead",
      ["RemediationCodemod.get_files_to_analyze", "RemediationCodemod.apply"],
      doc="RemediationCodemod.get_files_to_analyze / apply")

_PROCESS_FILE_REF = '''
def _process_file(self, filename, context, results, rules):
    findings_for_rule = None
    if results is not None:
        findings_for_rule = []
        for rule in rules:
            findings_for_rule.extend(
                results.results_for_rule_and_file(context, rule, filename)
            )

    file_context = FileContext(
        context.directory,
        filename,
        line_exclude,
        line_include,
        findings_for_rule,
    )
    if results is not None and not findings_for_rule:
        return file_context

    if change_set := self.transformer.apply(
        context, file_context, findings_for_rule
    ):
        file_context.add_changeset(change_set)

    return file_context
'''


def _process_file_findings(tree, repo):
    import copy
    d = find_def(tree, "BaseCodemod._process_file")
    if d is None:
        raise Unrecognised("BaseCodemod._process_file not found")
    d = copy.deepcopy(d)
    # the two leading statements computing line_exclude / line_include belong to LineFilter.v (C13)
    body, dropped = [], []
    for s in d.body:
        if isinstance(s, ast.Assign) and len(s.targets) == 1 and isinstance(s.targets[0], ast.Name) \
                and s.targets[0].id in ("line_exclude", "line_include") and not body:
            dropped.append(s.targets[0].id)
            continue
        body.append(s)
    if dropped != ["line_exclude", "line_include"]:
        raise Unrecognised("_process_file does not start with the line_exclude / line_include assignments")
    d.body = body
    ref = find_def(ast.parse(_PROCESS_FILE_REF), "_process_file")
    if norm_dump(d) != norm_dump(ref):
        raise Unrecognised("the findings / short-circuit part of BaseCodemod._process_file differs from the modelled shape")
    return "AsRead"


custom("process_file_findings", "src/codemodder/codemods/base_codemod.py", _LOC_PROPS, "loc_process_file_shape", "as_read", "AsRead",
       _process_file_findings, doc="BaseCodemod._process_file: findings per rule, short circuit, transformer.apply")

# C18: the internal semgrep run keys results by the last dotted component of the rule id and by the path as given
shape("semgrep_internal", "src/codemodder/semgrep.py", ["C18"], "semgrep_internal_shape", "as_read", "AsRead",
      ["InternalSemgrepResultSet.results_for_rule_and_file", "SemgrepResultSet.from_sarif", "SemgrepLocation.from_sarif", "run"],
      doc="InternalSemgrepResultSet.results_for_rule_and_file, SemgrepResultSet.from_sarif, SemgrepLocation.from_sarif, run")
shape("semgrep_rule_detector", "src/codemodder/codemods/semgrep.py", ["C18"], "semgrep_rule_detector_shape", "as_read", "AsRead",
      ["_populate_yaml", "SemgrepRuleDetector.get_yaml_files", "SemgrepRuleDetector.apply"],
      doc="_populate_yaml, SemgrepRuleDetector.get_yaml_files / apply")


def _hardening_args_from(tree, repo):
    d = find_def(tree, "RequestsVerify.on_result_found")
    if d is None:
        raise Unrecognised("RequestsVerify.on_result_found not found")
    calls = [n for n in ast.walk(d) if isinstance(n, ast.Call) and isinstance(n.func, ast.Attribute) and n.func.attr == "replace_args"]
    if len(calls) != 1 or not calls[0].args or not isinstance(calls[0].args[0], ast.Name):
        raise Unrecognised("RequestsVerify.on_result_found does not call self.replace_args(<node>, ...) exactly once")
    ret = [n for n in ast.walk(d) if isinstance(n, ast.Return)]
    if len(ret) != 1 or ast.unparse(ret[0].value) != "self.update_arg_target(updated_node, new_args)":
        raise Unrecognised("RequestsVerify.on_result_found does not return self.update_arg_target(updated_node, new_args)")
    nm = calls[0].args[0].id
    if nm == "original_node":
        return "FromOriginal"
    if nm == "updated_node":
        return "FromUpdated"
    raise Unrecognised(f"replace_args is given `{nm}`")


custom("hardening_args_from", "src/core_codemods/requests_verify.py", ["C18"], "hardening_args_from", "args_from", "FromUpdated",
       _hardening_args_from, doc="RequestsVerify.on_result_found: which node's args replace_args rebuilds from")


def _secure_random_target_from(tree, repo):
    d = find_def(tree, "SecureRandomTransformer.on_result_found")
    if d is None:
        raise Unrecognised("SecureRandomTransformer.on_result_found not found")
    calls = [n for n in ast.walk(d) if isinstance(n, ast.Call) and isinstance(n.func, ast.Attribute) and n.func.attr == "update_call_target"]
    rets = [n for n in ast.walk(d) if isinstance(n, ast.Return)]
    if len(calls) != 2 or len(rets) != 2 or any(r.value not in calls for r in rets):
        raise Unrecognised("SecureRandomTransformer.on_result_found does not return update_call_target(...) in both branches")
    names = {c.args[0].id if c.args and isinstance(c.args[0], ast.Name) else None for c in calls}
    if names == {"updated_node"}:
        return "FromUpdated"
    if names == {"original_node"}:
        return "FromOriginal"
    raise Unrecognised(f"update_call_target is given {sorted(map(str, names))}")


custom("secure_random_target_from", "src/core_codemods/secure_random.py", ["C18"], "secure_random_target_from", "args_from", "FromUpdated",
       _secure_random_target_from, doc="SecureRandomTransformer.on_result_found: which node update_call_target rebuilds the call from")


def _codeql_start_column(tree, repo):
    d = find_def(tree, "CodeQLLocation.from_sarif")
    if d is None:
        raise Unrecognised("CodeQLLocation.from_sarif not found")
    gets = [n for n in ast.walk(d) if isinstance(n, ast.Call) and isinstance(n.func, ast.Attribute) and n.func.attr == "get"
            and n.args and isinstance(n.args[0], ast.Constant) and n.args[0].value == "startColumn"]
    if len(gets) != 1 or ast.unparse(gets[0].func.value) != "region":
        raise Unrecognised("CodeQLLocation.from_sarif does not read region.get('startColumn'...) exactly once")
    g = gets[0]
    if len(g.args) == 1 and not g.keywords:
        return "ScNone"
    if len(g.args) == 2 and isinstance(g.args[1], ast.Constant) and g.args[1].value == 1 and not g.keywords:
        return "ScOne"
    raise Unrecognised(f"startColumn default is `{ast.unparse(g)}`")


custom("codeql_start_column", "src/codemodder/codeql.py", ["C06", "C12"], "codeql_start_column", "sc_default", "ScOne",
       _codeql_start_column, doc="CodeQLLocation.from_sarif: the start column of a region without startColumn")
