"""pytest plugin used ONCE at build time to harvest the *inputs* of the repository's codemod tests
(never the hand-written expected outputs) into /verif/corpus/seeds.  Checks never read /repo/tests."""
import json
import os
from pathlib import Path
from textwrap import dedent

OUT = os.environ["VERIF_HARVEST_OUT"]


def _record(rec):
    with open(f"{OUT}.{os.getpid()}", "a") as f:
        f.write(json.dumps(rec) + "\n")


def pytest_configure(config):
    from codemodder.codemods.test import utils

    def wrap(cls, sast):
        orig = cls.run_and_assert

        def run_and_assert(self, tmpdir, input_code, expected, *a, **kw):
            try:
                files = kw.get("files")
                root = kw.get("root") or Path(str(tmpdir))
                name = str(Path(files[0]).relative_to(root)) if files else f"code.{self.file_extension}"
                cm = self.codemod
                _record({
                    "codemod": cm.id if not isinstance(cm, type) else cm().id,
                    "tool": getattr(self, "tool", None) if sast else None,
                    "filename": name,
                    "code": dedent(input_code),
                    "results": kw.get("results", "") if sast else None,
                    "expect_change": input_code != expected,
                    "lines_to_exclude": kw.get("lines_to_exclude"),
                })
            except Exception as e:  # never disturb the test
                _record({"error": repr(e)})
            return orig(self, tmpdir, input_code, expected, *a, **kw)

        cls.run_and_assert = run_and_assert

    wrap(utils.BaseCodemodTest, False)
    wrap(utils.BaseSASTCodemodTest, True)
