def positional_to_keyword(
    args: Sequence[cst.Arg], pos_to_keyword: list[str | None]
) -> list[cst.Arg]:
    """
    Given a sequence of Args, converts all the positional arguments into keyword arguments according to a given map.
    """
    new_args = []
    for i, arg in enumerate(args):
        if arg.keyword is None and pos_to_keyword[i] is not None:
            new_args.append(arg.with_changes(keyword=cst.Name(pos_to_keyword[i])))
        else:
            new_args.append(arg)
    return new_args
