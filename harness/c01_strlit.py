"""C01 kernel correspondence: lazy-logging's re-quoting (coq/Model/StrLit.v) against the real codemod and CPython's lexer."""
from __future__ import annotations

from harness import core, e2e
from harness.core import cbool, clist, cpair, cstr

IMPORTS = "From CM Require Import Harness.RunBase Harness.C01_run Model.StrLit.\n"
ATOMS = ["a", "b ", " ", '"', "'", "\\\\", '\\"', "\\'", "\\n", "{}", "é", ":"]


def dq_safe(raw: str) -> bool:
    i = 0
    while i < len(raw):
        c = raw[i]
        if c == '"' or c in "\n\r":
            return False
        if c == "\\":
            if i + 1 >= len(raw):
                return False
            i += 2
            continue
        i += 1
    return True


def gen_literal(rng):
    q = rng.choice(["'", "'", '"', '"', "'''", '"""'])
    for _ in range(20):
        body = "".join(rng.choice(ATOMS) for _ in range(rng.randint(0, 5)))
        if len(q) == 3 and rng.random() < 0.3:
            body += "\n tail"
        lit = q + body + q
        try:
            v = eval(compile(lit, "<l>", "eval"))  # a valid literal?  (pure string literal: safe to eval)
        except SyntaxError:
            continue
        if isinstance(v, str) and "%" not in lit:
            import libcst as cst
            if isinstance(cst.parse_expression(lit), cst.SimpleString):
                return lit
    return q + "a" + q


def run(ctx: core.Ctx):
    import libcst as cst
    rng = ctx.rng
    n = 40 if ctx.quick() else 400
    files, meta = {}, {}
    fixed = ["'a\"b '", "\"plain \"", "'it\\'s'", "'''tri\"ple '''", "'back\\\\slash '", "'''two\nlines '''"]
    for i in range(n + len(fixed)):
        shape = rng.choice(["lit+x", "lit+x", "x+lit", "lit+x+lit"])
        lits = [fixed[i]] if i < len(fixed) else [gen_literal(rng)]
        if i < len(fixed):
            shape = "lit+x"
        if shape == "lit+x+lit":
            lits.append(gen_literal(rng))
        if shape == "lit+x":
            expr, pieces = f"{lits[0]} + x", [lits[0], None]
        elif shape == "x+lit":
            expr, pieces = f"x + {lits[0]}", [None, lits[0]]
        else:
            expr, pieces = f"{lits[0]} + x + {lits[1]}", [lits[0], None, lits[1]]
        text = f"import logging\nx = \"1\"\nlogging.info({expr})\n"
        if not e2e.parses(text):
            continue
        name = f"s{i}.py"
        files[name] = text
        meta[name] = {"variant": "strlit:" + shape, "pieces": pieces, "expr": expr}
    job = {"codemod": "pixee:python/lazy-logging", "subprojects": [{"files": files, "meta": meta, "tool": None, "results": None}]}
    out = e2e.run_jobs(ctx, [job])[0]
    if out.get("worker_error") or out["subprojects"][0]["error"]:
        ctx.mismatch("lazy-logging worker", "worker failed", {"error": out.get("worker_error") or out["subprojects"][0]["error"]})
        return
    s = out["subprojects"][0]
    cases, metas = [], []
    for name, before in files.items():
        after = s["after1"].get(name)
        m = meta[name]
        ctx.count("strlit_shape:" + m["variant"])
        if after == before or after is None:
            ctx.count("strlit:not_rewritten")
            ctx.case({"strlit": m["expr"], "rewritten": False})
            continue
        head = "import logging\nx = \"1\"\nlogging.info("
        n_other = sum(1 for p in m["pieces"] if p is None)
        tail = ", " + ", ".join(["x"] * n_other) + ")\n"
        if not (after.startswith(head) and after.endswith(tail)):
            ctx.mismatch("lazy-logging output shape", f"unexpected rewrite of {m['expr']!r}: {after!r}", {"before": before, "after": after})
            continue
        arg = after[len(head):-len(tail)]
        raws = [None if p is None else cst.parse_expression(p).raw_value for p in m["pieces"]]
        py_ok = e2e.parses(after)
        in_class = any(r is not None and not dq_safe(r) for r in raws)
        cases.append(cpair(clist(["Other" if r is None else f"(Lit {cstr(r)})" for r in raws], "piece"), cstr(arg), cbool(py_ok), cbool(in_class)))
        metas.append((m, before, after, arg, py_ok, in_class))
        ctx.case({"strlit": m["expr"], "rewritten_to": arg, "parses": py_ok}, nontrivial_key=("strlit", m["expr"]), sample=not py_ok)
    bad = core.eval_bad_indices(ctx, "c01_strlit", IMPORTS, "strlit_case", cases,
                                ["strlit_model_ok", "strlit_lexer_ok", "strlit_class_ok", "strlit_spec_ok"])
    for key, what in (("strlit_model_ok", "requote model differs from the real lazy-logging output"),
                      ("strlit_lexer_ok", "lexer model disagrees with CPython on the produced literal"),
                      ("strlit_class_ok", "harness class predicate differs from the Coq guard")):
        for i in bad[key]:
            m, before, after, arg, py_ok, in_class = metas[i]
            ctx.mismatch(f"StrLit.{key}", f"{what}: {m['expr']!r} -> {arg!r}", {"before": before, "after": after})
    for i in bad["strlit_spec_ok"]:
        m, before, after, arg, py_ok, in_class = metas[i]
        ctx.violation("unlisted_C01_lazy_logging_requote", f"lazy-logging produced an unparseable literal outside the known class: {m['expr']!r} -> {arg!r}",
                      {"codemod": "pixee:python/lazy-logging", "filename": "code.py", "before": before, "after_first_run": after, "expected": "compile(after) succeeds"})
    # inside the class the known finding is reported by e2e_props through the corpus witness
