from abc import ABCMeta, abstractmethod
from typing import Mapping

import libcst as cst
from libcst.codemod.visitors import AddImportsVisitor, RemoveImportsVisitor

from codemodder.codemods.api import LibcstResultTransformer
from codemodder.codemods.imported_call_modifier import ImportedCallModifier
from codemodder.dependency import Dependency, Security


class MappingImportedCallModifier(ImportedCallModifier[Mapping[str, str]]):
    def update_attribute(self, true_name, original_node, updated_node, new_args):
        if not self.node_is_selected(original_node):
            return updated_node

        import_name = self.matching_functions[true_name]
        self.add_import(import_name)
        RemoveImportsVisitor.remove_unused_import_by_node(self.context, original_node)
        return updated_node.with_changes(
            args=new_args,
            func=cst.Attribute(
                value=cst.parse_expression(import_name),
                attr=cst.Name(value=true_name.split(".")[-1]),
            ),
        )

    def update_simple_name(self, true_name, original_node, updated_node, new_args):
        if not self.node_is_selected(original_node):
            return updated_node

        import_name = self.matching_functions[true_name]
        self.add_import(import_name)
        RemoveImportsVisitor.remove_unused_import_by_node(self.context, original_node)
        return updated_node.with_changes(
            args=new_args,
            func=cst.Attribute(
                value=cst.parse_expression(import_name),
                attr=cst.Name(value=true_name.split(".")[-1]),
            ),
        )

    def add_import(self, import_name):
        AddImportsVisitor.add_needed_import(self.context, import_name)


class ImportModifierCodemod(LibcstResultTransformer, metaclass=ABCMeta):
    call_modifier: type[MappingImportedCallModifier] = MappingImportedCallModifier

    @property
    def dependency(self) -> Dependency | None:
        return None

    @property
    @abstractmethod
    def mapping(self) -> Mapping[str, str]:
        pass

    def transform_module_impl(self, tree: cst.Module) -> cst.Module:
        visitor = self.call_modifier(
            self.context,
            self.file_context,
            self.mapping,
            self.change_description,
            self.results,
        )
        result_tree = visitor.transform_module(tree)
        self.file_context.codemod_changes.extend(visitor.changes_in_file)
        if visitor.changes_in_file and (dependency := self.dependency):
            self.add_dependency(dependency)

        return result_tree


class SecurityCallModifier(MappingImportedCallModifier):
    def add_import(self, import_name: str) -> None:
        AddImportsVisitor.add_needed_import(
            self.context, module=Security.requirement.name, obj=import_name
        )


class SecurityImportModifierCodemod(ImportModifierCodemod, metaclass=ABCMeta):
    call_modifier: type[SecurityCallModifier] = SecurityCallModifier
