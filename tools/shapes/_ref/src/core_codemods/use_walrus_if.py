import itertools
from collections import namedtuple
from typing import List, Optional, Tuple

import libcst as cst
from libcst._position import CodeRange
from libcst.metadata import ParentNodeProvider, ScopeProvider

from codemodder.codemods.utils_mixin import NameResolutionMixin
from core_codemods.api import Metadata, Reference, ReviewGuidance, SimpleCodemod

FoundAssign = namedtuple("FoundAssign", ["assign", "target", "value"])


def pairwise(iterable):
    a, b = itertools.tee(iterable)
    next(b, None)
    return zip(a, b)


class UseWalrusIf(SimpleCodemod, NameResolutionMixin):
    metadata = Metadata(
        name="use-walrus-if",
        summary="Use Assignment Expression (Walrus) In Conditional",
        review_guidance=ReviewGuidance.MERGE_AFTER_CURSORY_REVIEW,
        references=[
            Reference(
                url="https://docs.python.org/3/whatsnew/3.8.html#assignment-expressions"
            ),
        ],
    )
    change_description = (
        "Replaces multiple expressions involving `if` operator with 'walrus' operator."
    )
    METADATA_DEPENDENCIES = (
        *SimpleCodemod.METADATA_DEPENDENCIES,
        ParentNodeProvider,
        ScopeProvider,
    )

    _modify_next_if: List[Tuple[CodeRange, cst.NamedExpr]]
    _if_stack: List[Optional[Tuple[CodeRange, cst.NamedExpr]]]
    assigns: dict[cst.Assign, cst.NamedExpr]

    def __init__(self, *args, **kwargs):
        super().__init__(*args, **kwargs)
        self._modify_next_if = []
        self._if_stack = []
        self.assigns = {}

    def _build_named_expr(self, target, value, parens=True):
        # `x = 1, 2` and `x = yield` are fine as statements, but the value of
        # a walrus must be parenthesized: `x := (1, 2)`, `x := (yield)`
        if isinstance(value, (cst.Tuple, cst.Yield)) and not value.lpar:
            value = value.with_changes(
                lpar=[cst.LeftParen()], rpar=[cst.RightParen()]
            )
        return cst.NamedExpr(
            target=target,
            value=value,
            lpar=[cst.LeftParen()] if parens else [],
            rpar=[cst.RightParen()] if parens else [],
        )

    def _filter_assigns(self, node: cst.CSTNode) -> FoundAssign | None:
        match node:
            case cst.SimpleStatementLine(
                body=[
                    cst.Assign(
                        targets=[
                            cst.AssignTarget(target=cst.Name() as target),
                        ],
                        value=value,
                    ) as assign
                ]
            ):
                return FoundAssign(assign, target, value)
        return None

    def _filter_if(self, node: cst.CSTNode) -> cst.BaseExpression | None:
        match node:
            case cst.If(test=test):
                return test
        return None

    def _single_access(self, original_node: cst.IfExp) -> bool:
        match original_node.test:
            case cst.Name():
                access = self.find_accesses(original_node.test)
            case cst.UnaryOperation():
                access = self.find_accesses(original_node.test.expression)
            case _:
                access = self.find_accesses(original_node.test.left)
        return len(access) == 1

    def on_visit(self, node: cst.CSTNode) -> Optional[bool]:
        if len(node.children) < 2:
            return super().on_visit(node)

        for a, b in pairwise(node.children):
            if not (found_assign := self._filter_assigns(a)):
                continue
            if not (if_test := self._filter_if(b)):
                continue

            assign, target, value = found_assign
            match if_test:
                # If test can be a comparison expression
                case cst.Comparison(
                    left=cst.Name() as left,
                    comparisons=[
                        cst.ComparisonTarget(
                            operator=(
                                cst.Is() | cst.IsNot() | cst.Equal() | cst.NotEqual()
                            )
                        )
                    ],
                ):

                    if left.value == target.value:
                        named_expr = self._build_named_expr(target, value, parens=True)
                        self.assigns[assign] = named_expr
                case cst.Name() as name:
                    # If test can also be a bare name
                    if name.value == target.value:
                        named_expr = self._build_named_expr(target, value, parens=False)
                        self.assigns[assign] = named_expr
                case cst.UnaryOperation(
                    operator=cst.Not(), expression=cst.Name() as name
                ):
                    if name.value == target.value:
                        named_expr = self._build_named_expr(target, value, parens=True)
                        self.assigns[assign] = named_expr
        return super().on_visit(node)

    def visit_If(self, node: cst.If):
        del node
        self._if_stack.append(
            self._modify_next_if.pop() if len(self._modify_next_if) else None
        )

    def leave_If(self, original_node, updated_node):
        # TODO: add filter by include or exclude that works for nodes
        # that that have different start/end numbers.

        if (result := self._if_stack.pop()) is not None:
            position, named_expr = result
            self.add_change_from_position(position, self.change_description)

            # If a variable has a single access, it means it's only assigned and not used again.
            # In this case, do not use a walrus named expr to prevent unused variable warnings.
            # Instead, move the variable's rhs directly into the if statement.
            new_expression = (
                named_expr.value if self._single_access(original_node) else named_expr
            )
            if (
                new_expression is named_expr.value
                and not isinstance(updated_node.test, cst.Name)
                and isinstance(
                    new_expression,
                    (
                        cst.BooleanOperation,
                        cst.Comparison,
                        cst.IfExp,
                        cst.Lambda,
                        cst.UnaryOperation,
                    ),
                )
                and not new_expression.lpar
            ):
                # the value moves into an operand position where it would
                # bind differently: `x = a or b; if x is None` is not
                # `if a or b is None`
                new_expression = new_expression.with_changes(
                    lpar=[cst.LeftParen()], rpar=[cst.RightParen()]
                )

            match updated_node.test:
                case cst.Name():
                    return updated_node.with_changes(test=new_expression)
                case cst.UnaryOperation():
                    return updated_node.with_changes(
                        test=updated_node.test.with_changes(expression=new_expression)
                    )
                case _:
                    return updated_node.with_changes(
                        test=updated_node.test.with_changes(left=new_expression)
                    )

        return original_node

    def leave_Assign(self, original_node: cst.Assign, updated_node: cst.Assign):
        del updated_node
        if named_expr := self.assigns.get(original_node):
            position = self.node_position(original_node)
            self._modify_next_if.append((position, named_expr))
            return cst.RemoveFromParent()

        return original_node

    def leave_SimpleStatementLine(self, original_node, updated_node):
        """
        Preserves the whitespace and comments in the line when all children are removed.

        This feels like a bug in libCST but we'll work around it for now.
        """
        if not updated_node.body:
            trailing_whitespace = (
                (
                    original_node.trailing_whitespace.with_changes(
                        whitespace=cst.SimpleWhitespace(""),
                    ),
                )
                if original_node.trailing_whitespace.comment
                else ()
            )
            # NOTE: The effect of this is to preserve the
            # whitespace and comments. However, the type expected by
            # cst.Module.body is Sequence[Union[SimpleStatementLine, BaseCompoundStatement]].
            # So technically this violates the expected return type since we
            # are not adding a new SimpleStatementLine but instead just bare
            # EmptyLine and Comment nodes.
            # A more correct solution would involve transferring any whitespace
            # and comments to the subsequent SimpleStatementLine (which
            # contains the If statement), but this would require a lot more
            # state management to fit within the visitor pattern. We should
            # revisit this at some point later.
            return cst.FlattenSentinel(
                tuple(original_node.leading_lines) + trailing_whitespace
            )

        return updated_node
