def match_files(
    parent_path: Path,
    input_paths: list[Path],
    exclude_paths: Optional[Sequence[str]] = None,
    include_paths: Optional[Sequence[str]] = None,
) -> list[Path]:
    """
    Find pattern-matching files starting at the parent_path, recursively.

    If a file matches any exclude pattern, it is not matched. If any include
    patterns are passed in, a file must match at least one include patterns.

    :param parent_path: str name for starting directory
    :param exclude_paths: list of UNIX glob patterns to exclude, uses DEFAULT_EXCLUDED_PATHS if None
    :param include_paths: list of UNIX glob patterns to exclude, uses DEFAULT_INCLUDED_PATHS if None

    :return: list of <pathlib.PosixPath> files found within (including recursively) the parent directory
    that match the criteria of both exclude and include patterns.
    """
    paths = [p.relative_to(parent_path) for p in input_paths]
    included_files = set(
        filter_files(
            paths,
            include_paths if include_paths is not None else DEFAULT_INCLUDED_PATHS,
        )
    )
    excluded_files = set(
        filter_files(
            paths,
            exclude_paths if exclude_paths is not None else DEFAULT_EXCLUDED_PATHS,
            exclude=True,
        )
    )

    return [
        parent_path.joinpath(p) for p in list(included_files - excluded_files)
    ]


def files_for_directory(parent_path: Path) -> list[Path]:
    """
    Return list of all (non-symlink) file paths within a directory, recursively.
    """
    return [
        path
        for path in Path(parent_path).rglob("*")
        if Path(path).is_file() and not Path(path).is_symlink()
    ]
