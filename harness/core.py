"""Shared machinery of every check: build (translator + make), audit (Print Assumptions, active branches),
evaluation of case files inside Coq, running the real CLI, known findings, replay files, evidence, verdict."""
from __future__ import annotations

import base64
import fcntl
import hashlib
import json
import os
import random
import re
import shutil
import subprocess
import sys
import tempfile
import time
from pathlib import Path

VERIF = Path(__file__).resolve().parents[1]
COQ = VERIF / "coq"
REPO = Path(os.environ.get("VERIF_REPO", "/repo"))
PY = "/venv/bin/python"
SCRATCH_ROOT = Path(os.environ.get("VERIF_SCRATCH", "/var/tmp"))
GUARD = "CODEMODDER_VERIF"
NCPU = os.cpu_count() or 4

KNOWN_FINDINGS_FILE = VERIF / "known_findings.json"

COMMON_TRUSTED = [
    "Coq 8.16.1 kernel (coqc); vm_compute used for witnesses and case evaluation; native_compute not used",
    "tools/translate.py (shape recognition of the source fragments -> coq/Generated/Tables.v)",
    "correspondence harness (generators, canonicalisation, comparison) under /verif/harness",
    "hand-written Gallina models under coq/Model mirror the named source fragments (modelled, not verified)",
]


def cli_env(extra=None, hashseed="0"):
    env = dict(os.environ)
    env["PATH"] = "/venv/bin:" + env.get("PATH", "")
    env["PYTHONPATH"] = str(REPO / "src")
    env["PYTHONHASHSEED"] = str(hashseed)
    env["SEMGREP_SEND_METRICS"] = "off"
    env["SEMGREP_ENABLE_VERSION_CHECK"] = "0"
    env["PYTHONDONTWRITEBYTECODE"] = "1"
    env.pop("PYTHONSTARTUP", None)
    if extra:
        env.update(extra)
    return env


# ------------------------------------------------------------------------------------------------
# Coq term printing
# ------------------------------------------------------------------------------------------------
def cstr(s: str) -> str:
    if s == "":
        return "([] : str)"
    return "[" + ";".join(str(ord(c)) for c in s) + "]%N"


def cbytes(b: bytes) -> str:
    if not b:
        return "([] : str)"
    return "[" + ";".join(str(x) for x in b) + "]%N"


def clist(items, ty=None) -> str:
    items = list(items)
    if not items:
        return f"([] : list ({ty}))" if ty else "[]"
    return "[" + "; ".join(items) + "]"


def cbool(b) -> str:
    return "true" if b else "false"


def copt(x, ty=None) -> str:
    if x is None:
        return f"(None : option ({ty}))" if ty else "None"
    return f"(Some {x})"


def cN(n: int) -> str:
    return f"{int(n)}%N"


def cZ(n: int) -> str:
    return f"({int(n)})%Z"


def cpair(*xs) -> str:
    return "(" + ", ".join(xs) + ")"


# ------------------------------------------------------------------------------------------------
class Ctx:
    def __init__(self, prop: str, tier: str, seed: int):
        self.prop, self.tier, self.seed = prop, tier, seed
        self.rng = random.Random(f"{prop}:{seed}")
        self.t0 = time.time()
        self.scratch = Path(tempfile.mkdtemp(prefix=f"verif-{prop}-", dir=SCRATCH_ROOT))
        self.violations: list[dict] = []      # concrete failing inputs (spec vs implementation)
        self.mismatches: list[dict] = []      # model vs implementation disagreements (tie (b) broken)
        self.tie_broken: list[str] = []       # names of theorems / correspondences / fragments that no longer check
        self.notes: list[str] = []
        self.evaluations = 0
        self.nontrivial: set = set()
        self.samples: list = []
        self.dist: dict = {}
        self.cli_runs = 0
        self.build = None
        self.audit = None
        self.tables = None

    def quick(self):
        return self.tier == "quick"

    def count(self, key, n=1):
        self.dist[key] = self.dist.get(key, 0) + n

    def case(self, desc, nontrivial_key=None, sample=False):
        """Record one evaluated case; nontrivial_key (hashable) identifies a distinct non-trivial case."""
        self.evaluations += 1
        if nontrivial_key is not None:
            self.nontrivial.add(hashlib.sha1(repr(nontrivial_key).encode()).hexdigest())
        if sample and len(self.samples) < 6:
            self.samples.append(desc)

    def violation(self, cls: str, what: str, replay: dict):
        self.violations.append({"class": cls, "what": what, "replay": replay})

    def mismatch(self, name: str, what: str, replay: dict):
        self.mismatches.append({"correspondence": name, "what": what, "replay": replay})

    def cleanup(self):
        shutil.rmtree(self.scratch, ignore_errors=True)


# ------------------------------------------------------------------------------------------------
# Build: translator + make, serialised by a lock so that concurrent checks share one build tree
# ------------------------------------------------------------------------------------------------
class Lock:
    def __init__(self, path):
        self.path = path

    def __enter__(self):
        self.f = open(self.path, "w")
        fcntl.flock(self.f, fcntl.LOCK_EX)
        return self

    def __exit__(self, *a):
        fcntl.flock(self.f, fcntl.LOCK_UN)
        self.f.close()


def grep_gate() -> list[str]:
    """No Admitted/admit/Axiom/Parameter/Conjecture/unset checks anywhere in the development."""
    bad = []
    pat = re.compile(r"\b(Admitted|admit|Axiom|Axioms|Parameter|Parameters|Conjecture|Hypothesis|Hypotheses|Variable|Variables|Context|Admit Obligations|Unset Guard Checking|Unset Positivity Checking|Unset Universe Checking|bypass_check|type-in-type|impredicative-set)\b")
    for f in sorted(COQ.rglob("*.v")):
        if "_scratch" in f.parts:
            continue
        text = f.read_text()
        text_nc = re.sub(r"\(\*.*?\*\)", lambda m: " " * len(m.group(0)), text, flags=re.S)
        depth = 0
        for ln, line in enumerate(text_nc.splitlines(), 1):
            if re.match(r"\s*Section\b", line):
                depth += 1
            elif re.match(r"\s*End\b", line) and depth > 0:
                depth -= 1
            for m in pat.finditer(line):
                w = m.group(1)
                if w in ("Hypothesis", "Hypotheses", "Variable", "Variables", "Context") and depth > 0:
                    continue  # section-local: discharged as explicit premises
                bad.append(f"{f.relative_to(COQ)}:{ln}: {w}")
    return bad


def v_files():
    return sorted(str(p.relative_to(COQ)) for p in COQ.rglob("*.v") if "_scratch" not in p.parts)


def build(clean=False, timeout=1500) -> dict:
    """Regenerate Tables.v from REPO's working tree and (re)build every .vo that depends on what changed."""
    info = {"translator_rc": None, "unrecognised": [], "make_ok": False, "failed_file": None, "log_tail": "", "gate": []}
    with Lock(COQ / ".build.lock"):
        p = subprocess.run([PY, str(VERIF / "tools" / "translate.py"), "--repo", str(REPO)],
                           stdout=subprocess.PIPE, stderr=subprocess.STDOUT, text=True)
        info["translator_rc"] = p.returncode
        info["translator_out"] = p.stdout[-2000:]
        try:
            tables = json.loads((COQ / "Generated" / "tables.json").read_text())
        except Exception:
            tables = {"values": {}, "unrecognised": [{"fragment": "*", "props": ["*"], "why": "translator crashed: " + p.stdout[-500:]}], "fragments": {}}
        info["tables"] = tables
        info["unrecognised"] = tables["unrecognised"]
        info["gate"] = grep_gate()
        if clean:
            subprocess.run("rm -f Makefile Makefile.conf .Makefile.d; find . -name '*.vo' -o -name '*.vok' -o -name '*.vos' -o -name '*.glob' -o -name '.*.aux' | xargs rm -f",
                           shell=True, cwd=COQ)
        files = v_files()
        mk = COQ / "Makefile"
        listing = COQ / ".vfiles"
        if not mk.exists() or not listing.exists() or listing.read_text() != "\n".join(files):
            subprocess.run(["coq_makefile", "-f", "_CoqProject", *files, "-o", "Makefile"], cwd=COQ,
                           stdout=subprocess.DEVNULL, stderr=subprocess.DEVNULL, check=True)
            listing.write_text("\n".join(files))
        t = time.time()
        try:
            p = subprocess.run(["make", f"-j{NCPU}", "-k"], cwd=COQ, stdout=subprocess.PIPE, stderr=subprocess.STDOUT,
                               text=True, timeout=timeout)
            out = p.stdout
            info["make_ok"] = p.returncode == 0
        except subprocess.TimeoutExpired as e:
            out = (e.stdout or b"").decode(errors="replace") if isinstance(e.stdout, bytes) else (e.stdout or "")
            out += "\nTIMEOUT"
        info["make_s"] = round(time.time() - t, 1)
        failed = re.findall(r'File "\./([^"]+)", line (\d+), characters [\d-]+:\s*\nError:?\s*(.*)', out)
        info["failed"] = [{"file": f, "line": int(l), "error": e.strip()[:300]} for f, l, e in failed]
        info["log_tail"] = out[-3000:]
    return info


def vo_ok(relv: str) -> bool:
    v = COQ / relv
    vo = v.with_suffix(".vo")
    return vo.exists() and vo.stat().st_mtime >= v.stat().st_mtime


def coqc_scratch(ctx: Ctx, name: str, text: str, timeout=600) -> tuple[int, str]:
    d = ctx.scratch / "coq"
    d.mkdir(exist_ok=True)
    f = d / f"{name}.v"
    f.write_text(text)
    p = subprocess.run(["coqc", "-R", str(COQ), "CM", "-w", "-notation-overridden", str(f)], cwd=d,
                       stdout=subprocess.PIPE, stderr=subprocess.STDOUT, text=True, timeout=timeout)
    return p.returncode, p.stdout


def theorems_of(prop: str) -> list[str]:
    f = COQ / "Properties" / f"{prop}.v"
    if not f.exists():
        return []
    text = re.sub(r"\(\*.*?\*\)", "", f.read_text(), flags=re.S)
    return re.findall(r"^\s*(?:Theorem|Example|Corollary)\s+([A-Za-z0-9_']+)", text, flags=re.M)


def statements_of(prop: str) -> list[str]:
    """Names of the table-indexed statements `Cxx_*_statement` applied in Properties/Cxx.v."""
    f = COQ / "Properties" / f"{prop}.v"
    if not f.exists():
        return []
    text = re.sub(r"\(\*.*?\*\)", "", f.read_text(), flags=re.S)
    return re.findall(r"^\s*Theorem\s+[A-Za-z0-9_']+\s*:\s*([A-Za-z0-9_']+_statement)\s+([A-Za-z0-9_' ]+?)\s*\.", text, flags=re.M)


def audit(ctx: Ctx) -> dict:
    """Re-check, with coqc, that Properties/Cxx.vo loads and print the assumptions of each of its theorems."""
    prop = ctx.prop
    thms = theorems_of(prop)
    res = {"theorems": thms, "assumptions": {}, "ok": False, "axioms": []}
    if not thms:
        return res
    if not vo_ok(f"Properties/{prop}.v"):
        res["error"] = f"Properties/{prop}.vo was not (re)built"
        return res
    lines = [f"From CM Require Import Properties.{prop}."]
    for t in thms:
        lines.append(f'Goal True. idtac "@@BEGIN {t}". exact I. Qed.')
        lines.append(f"Print Assumptions {t}.")
        lines.append(f'Goal True. idtac "@@END {t}". exact I. Qed.')
    rc, out = coqc_scratch(ctx, f"audit_{prop}", "\n".join(lines) + "\n")
    if rc != 0:
        res["error"] = out[-1500:]
        return res
    for t in thms:
        m = re.search(rf"@@BEGIN {re.escape(t)}\n(.*?)@@END {re.escape(t)}", out, flags=re.S)
        if not m:
            continue                       # not printed: the theorem does not count as discharged (res["ok"] stays False)
        body = m.group(1).strip()
        if "Closed under the global context" in body:
            res["assumptions"][t] = []
        else:
            ax = re.findall(r"^([A-Za-z0-9_.']+)\s*:", body, flags=re.M)
            res["assumptions"][t] = ax or [body[:200]]
            res["axioms"].extend(ax)
    res["axioms"] = sorted(set(res["axioms"]))
    res["ok"] = all(t in res["assumptions"] for t in thms)
    return res


def coqchk(prop: str, timeout=1500) -> dict:
    """Thorough tier: re-check Properties/Cxx.vo and everything it depends on with the independent checker."""
    try:
        p = subprocess.run(["coqchk", "-silent", "-o", "-R", str(COQ), "CM", f"CM.Properties.{prop}"], cwd=COQ,
                           stdout=subprocess.PIPE, stderr=subprocess.STDOUT, text=True, timeout=timeout)
    except subprocess.TimeoutExpired:
        return {"ok": False, "error": "coqchk timeout"}
    out = p.stdout
    m = re.search(r"\* Axioms:(.*?)\n\s*\n\* Constants", out, flags=re.S)
    axioms = m.group(1).strip() if m else "?"
    bad = [k for k in ("type-in-type", "unsafe (co)fixpoints", "positivity is assumed") if not re.search(re.escape(k) + r"[^\n]*<none>", out)]
    return {"ok": p.returncode == 0 and axioms == "<none>" and not bad, "axioms": axioms, "flags": bad, "rc": p.returncode,
            "tail": out[-600:] if p.returncode != 0 else ""}


def parse_N_list(out: str) -> list[int] | None:
    """Parse the `= [a; b; c] : list N` that `Eval vm_compute in (bad_indices ...)` prints."""
    m = re.search(r"=\s*(\[[^\]]*\])\s*:\s*list N", out, flags=re.S)
    if not m:
        return None
    body = m.group(1).strip()[1:-1]
    body = body.replace("%N", "").strip()
    if not body:
        return []
    return [int(x) for x in re.split(r"\s*;\s*", body.replace("\n", " ")) if x.strip()]


def eval_bad_indices(ctx: Ctx, name: str, imports: str, case_type: str, cases: list[str], checks: list[str],
                     chunk=400) -> dict[str, list[int]]:
    """Evaluate `checks` (names of Coq functions case -> bool) on the given case terms; return the failing indices per check.
    Raises RuntimeError when Coq rejects the file (a harness/model error, not a verdict)."""
    bad = {c: [] for c in checks}
    jobs = []
    for off in range(0, len(cases), chunk):
        part = cases[off:off + chunk]
        text = [imports, f"Definition cases : list ({case_type}) :=", "  [" + ";\n   ".join(part) + "]."]
        for c in checks:
            text.append(f"Eval vm_compute in (bad_indices {c} cases).")
        jobs.append((off, f"{name}_{off}", "\n".join(text) + "\n"))
    for off, nm, text in jobs:
        rc, out = coqc_scratch(ctx, nm, text)
        if rc != 0:
            raise RuntimeError(f"coqc failed on generated case file {nm}: {out[-1500:]}")
        chunks = re.split(r"(?=^\s*=\s)", out, flags=re.M)
        chunks = [c for c in chunks if re.match(r"\s*=\s", c)]
        if len(chunks) != len(checks):
            raise RuntimeError(f"unexpected coqc output for {nm}: {out[-800:]}")
        for c, ch in zip(checks, chunks):
            idx = parse_N_list(ch)
            if idx is None:
                raise RuntimeError(f"cannot parse coqc output for {nm}/{c}: {ch[-400:]}")
            bad[c].extend(off + i for i in idx)
    return bad


def eval_term(ctx: Ctx, name: str, imports: str, term: str) -> str:
    rc, out = coqc_scratch(ctx, name, f"{imports}\nEval vm_compute in ({term}).\n")
    return out.strip()


# ------------------------------------------------------------------------------------------------
# Running the real CLI on a scratch project
# ------------------------------------------------------------------------------------------------
def write_tree(root: Path, files: dict):
    """files: relpath -> bytes | str | ('link', target)"""
    for rel, content in files.items():
        p = root / rel
        p.parent.mkdir(parents=True, exist_ok=True)
        if isinstance(content, tuple) and content[0] == "link":
            os.symlink(content[1], p)
        elif isinstance(content, str):
            p.write_bytes(content.encode("utf-8"))
        else:
            p.write_bytes(content)


def snapshot(root: Path) -> dict:
    """relpath -> ('f', sha1, mode) | ('d',) | ('l', target)"""
    snap = {}
    for dirpath, dirnames, filenames in os.walk(root, followlinks=False):
        for n in dirnames + filenames:
            p = Path(dirpath) / n
            rel = str(p.relative_to(root))
            if p.is_symlink():
                snap[rel] = ("l", os.readlink(p))
            elif p.is_dir():
                snap[rel] = ("d",)
            else:
                snap[rel] = ("f", hashlib.sha1(p.read_bytes()).hexdigest(), p.stat().st_mode & 0o777)
    return snap


def read_tree(root: Path) -> dict:
    out = {}
    for dirpath, dirnames, filenames in os.walk(root, followlinks=False):
        for n in filenames:
            p = Path(dirpath) / n
            if not p.is_symlink():
                out[str(p.relative_to(root))] = p.read_bytes()
    return out


def run_cli(args: list[str], cwd=None, env=None, timeout=600, hashseed="0", preload: str | None = None):
    """Run the real console entry point (codemodder.codemodder.main) from REPO's working tree.
    `preload` is Python source executed in the child before main() — wrappers (delays, faults, counters)
    are installed this way from the harness, never by editing the repository."""
    e = cli_env(env, hashseed)
    e[GUARD] = "1"
    code = "import sys\n"
    if preload:
        code += preload + "\n"
    code += "from codemodder.codemodder import main\nsys.argv=['codemodder']+sys.argv[1:]\nmain()\n"
    t = time.time()
    try:
        p = subprocess.run([PY, "-c", code, *args], cwd=cwd, env=e, stdout=subprocess.PIPE, stderr=subprocess.PIPE,
                           timeout=timeout)
        rc, out, err = p.returncode, p.stdout.decode(errors="replace"), p.stderr.decode(errors="replace")
    except subprocess.TimeoutExpired as ex:
        rc, out, err = -9, "", "TIMEOUT"
    return {"rc": rc, "stdout": out, "stderr": err, "wall": time.time() - t}


def normalise_report(rep: dict) -> dict:
    rep = json.loads(json.dumps(rep))
    run = rep.get("run", {})
    for k in ("elapsed", "directory", "commandLine"):
        run.pop(k, None)
    return rep


def b64tree(files: dict) -> dict:
    out = {}
    for k, v in files.items():
        if isinstance(v, tuple):
            out[k] = {"link": v[1]}
        else:
            b = v.encode("utf-8") if isinstance(v, str) else v
            out[k] = base64.b64encode(b).decode()
    return out


def unb64tree(d: dict) -> dict:
    out = {}
    for k, v in d.items():
        out[k] = ("link", v["link"]) if isinstance(v, dict) else base64.b64decode(v)
    return out


# ------------------------------------------------------------------------------------------------
# Known findings, replay files, evidence, verdict
# ------------------------------------------------------------------------------------------------
def load_known(prop: str):
    entries = []
    if KNOWN_FINDINGS_FILE.exists():
        entries.extend(json.loads(KNOWN_FINDINGS_FILE.read_text()).get("findings", []))
    # per-property files findings/Cxx.json (a list of entries in the same format), committed like known_findings.json
    for f in sorted((VERIF / "findings").glob("*.json")) if (VERIF / "findings").is_dir() else []:
        entries.extend(json.loads(f.read_text()))
    return [e for e in entries if e.get("property") == prop]


def write_replay(ctx: Ctx, kind: str, payload: dict) -> Path:
    d = VERIF / "replays"
    d.mkdir(exist_ok=True)
    body = {"property": ctx.prop, "tier": ctx.tier, "seed": ctx.seed, "kind": kind, **payload}
    h = hashlib.sha1(json.dumps(body, sort_keys=True, default=str).encode()).hexdigest()[:10]
    f = d / f"{ctx.prop}-{kind}-{h}.json"
    f.write_text(json.dumps(body, indent=1, sort_keys=True, default=str))
    return f


def finish(ctx: Ctx, extra_trusted=None, assumptions=None, explanation="") -> int:
    """Apply the decision procedure of DESIGN.md §2.3, write evidence, print verdict lines, return exit status."""
    prop = ctx.prop
    b = ctx.build or {}
    a = ctx.audit or {}
    known = load_known(prop)
    known_classes = {e["class"]: e for e in known if e.get("status") == "known"}
    lines, rc = [], 0

    # tie (a): translator
    for u in b.get("unrecognised", []):
        if prop in u.get("props", []) or "*" in u.get("props", []):
            ctx.tie_broken.append(f"translator: fragment {u['fragment']} ({u.get('file', '?')}) unrecognised: {u['why']}")
    # proofs
    thms = a.get("theorems", [])
    discharged = sum(1 for t in thms if t in a.get("assumptions", {}))
    if not b.get("make_ok", False):
        mine = [f for f in b.get("failed", [])]
        if not vo_ok(f"Properties/{prop}.v"):
            ctx.tie_broken.append("proof: Properties/%s.v no longer checks (%s)" % (
                prop, "; ".join(f"{f['file']}:{f['line']}: {f['error'][:120]}" for f in mine) or "make failed"))
    # unconditional: a stale Properties/Cxx.vo left behind by a failed make does not load against the regenerated
    # tables (inconsistent assumptions), which the audit's coqc run reports
    if not a.get("ok", False) and not any(t.startswith("proof:") for t in ctx.tie_broken):
        ctx.tie_broken.append("proof: audit of Properties/%s.vo failed: %s" % (prop, a.get("error", "?")[:300]))
    if b.get("gate"):
        ctx.tie_broken.append("gate: forbidden vernacular in the development: " + ", ".join(b["gate"][:5]))
    if a.get("axioms"):
        allowed = set(json.loads((VERIF / "allowed_axioms.json").read_text())) if (VERIF / "allowed_axioms.json").exists() else set()
        extra = [x for x in a["axioms"] if x not in allowed]
        if extra:
            ctx.tie_broken.append("axioms: theorems depend on undeclared assumptions: " + ", ".join(extra))
    chk = getattr(ctx, "coqchk", None)
    if chk is not None and not chk.get("ok"):
        ctx.tie_broken.append(f"coqchk: independent re-check of Properties/{prop}.vo failed or reports axioms: {chk}")
    # tie (b): correspondence
    for m in ctx.mismatches:
        ctx.tie_broken.append(f"correspondence: {m['correspondence']}: {m['what']}")

    unlisted = [v for v in ctx.violations if v["class"] not in known_classes]
    listed = [v for v in ctx.violations if v["class"] in known_classes]
    seen = set()
    for v in unlisted:
        if v["class"] in seen:
            continue
        seen.add(v["class"])
        f = write_replay(ctx, "input", {"class": v["class"], "what": v["what"], **v["replay"]})
        lines.append(f"VIOLATION property={prop} replay={f}")
        rc = 1
    if not unlisted and ctx.tie_broken:
        first_mismatch = ctx.mismatches[0]["replay"] if ctx.mismatches else {}
        f = write_replay(ctx, "obligation", {"no_longer_checks": ctx.tie_broken, "searched": {
            "evaluations": ctx.evaluations, "distinct_nontrivial": len(ctx.nontrivial)}, "mismatch": first_mismatch})
        lines.append(f"VIOLATION property={prop} replay={f} no-failing-input-found")
        rc = 1
    reproduced = {v["class"] for v in listed}
    for cls, e in sorted(known_classes.items()):
        lines.append(f"KNOWN-FINDING: property={prop} {e['what_fails']} [{cls}; "
                     f"{'reproduced this run' if cls in reproduced else 'not exercised this run'}]")

    wall = round(time.time() - ctx.t0, 2)
    cov = {
        "obligations": max(len(thms), 1),
        "discharged": discharged,
        "checker_cmd": "make -C /verif/coq (coqc 8.16.1, full .vo) ; coqc audit file with Print Assumptions per theorem",
        "trusted_base": COMMON_TRUSTED + (extra_trusted or []),
        "theorems": {t: (a.get("assumptions", {}).get(t)) for t in thms},
        "axioms": a.get("axioms", []),
        "tables": {k: v for k, v in (b.get("tables", {}).get("fragments", {})).items() if prop in v.get("props", [])},
        "tie_broken": ctx.tie_broken,
        "evaluations": ctx.evaluations,
        "distinct_nontrivial": len(ctx.nontrivial),
        "rule": explanation,
        "traces_validated_against_impl": ctx.evaluations,
        "cli_runs": ctx.cli_runs,
        "input_distribution": ctx.dist,
        "samples": ctx.samples[:6] or ["(no generated case this run)"],
        "known_findings_reproduced": sorted(reproduced),
        "notes": ctx.notes,
        "make_s": b.get("make_s"),
        "coqchk": getattr(ctx, "coqchk", None),
    }
    ev = {"property_id": prop, "tier": ctx.tier, "seed": ctx.seed, "level": "proof", "coverage": cov,
          "assumptions": assumptions or [], "wall_s": wall, "violations": len(unlisted) + (1 if (not unlisted and ctx.tie_broken) else 0)}
    (VERIF / "evidence").mkdir(exist_ok=True)
    (VERIF / "evidence" / f"{prop}.json").write_text(json.dumps(ev, indent=1, sort_keys=True, default=str) + "\n")
    for l in lines:
        print(l)
    print(f"[{prop}/{ctx.tier}] theorems {discharged}/{len(thms)} discharged; cases {ctx.evaluations} "
          f"({len(ctx.nontrivial)} distinct non-trivial); cli runs {ctx.cli_runs}; tie_broken={len(ctx.tie_broken)}; "
          f"violations={len(unlisted)}; {wall}s")
    return rc
