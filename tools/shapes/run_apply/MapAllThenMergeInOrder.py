# src/codemodder/codemods/base_codemod.py @ HEAD
class BaseCodemod:
    def _apply(
        self,
        context: CodemodExecutionContext,
        rules: list[str],
    ) -> None:
        if self.provider and (
            not (provider := context.providers.get_provider(self.provider))
            or not provider.is_available
        ):
            logger.warning(
                "provider %s is not available, skipping codemod", self.provider
            )
            return

        if isinstance(self.detector, SemgrepRuleDetector):
            if (
                context.semgrep_prefilter_results
                and self._internal_name
                not in context.semgrep_prefilter_results.all_rule_ids()
            ):
                logger.debug(
                    "no results from semgrep for %s, skipping analysis",
                    self.id,
                )
                return

        results: ResultSet | None = (
            # It seems like semgrep doesn't like our fully-specified id format so pass in short name instead.
            self.detector.apply(self._internal_name, context)
            if self.detector
            else None
        )

        if results is not None and not results:
            logger.debug("No results for %s", self.id)
            return

        if not (files_to_analyze := self.get_files_to_analyze(context, results)):
            logger.debug("No files matched for %s", self.id)
            return

        process_file = functools.partial(
            self._process_file, context=context, results=results, rules=rules
        )

        with ThreadPoolExecutor(max_workers=int(context.max_workers)) as executor:
            logger.debug("using executor with %s workers", context.max_workers)
            contexts = executor.map(process_file, files_to_analyze)
            executor.shutdown(wait=True)

        context.process_results(self.id, contexts)

    def apply(self, context: CodemodExecutionContext) -> None:
        """
        Apply the codemod with the given codemod execution context

        This method is responsible for orchestrating the application of the codemod to a given list of files.

        It will first apply the detector (if any) to the files to determine which files should be modified.

        It then applies the transformer pipeline to each file applicable file, potentially generating a change set.

        All results are then processed and reported to the context.

        Per-file processing can be parallelized based on the `max_workers` setting.

        :param context: The codemod execution context
        """
        self._apply(context, [self._internal_name])
