# src/codemodder/project_analysis/file_parsers/base_parser.py (pinned): BaseParser.find_file_locations
class BaseParser:
    def find_file_locations(self) -> List[Path]:
        return list(Path(self.parent_directory).rglob(self.file_type.value))
