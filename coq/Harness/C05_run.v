(** Checkers of the C05 correspondence: each takes one observed case of the real implementation. *)
From CM Require Import Harness.RunBase Base.Types_Glob Model.Glob Spec.GlobSpec Spec.GlobDefaults Generated.Tables.

Definition defaults : list str * list str := (default_included_paths, default_excluded_paths).
Definition strs_eqb : list str -> list str -> bool := list_eqb str_eqb.

(** fnmatch.fnmatch(name, pat) observed *)
Definition fn_case := (str * str * bool)%type.
Definition fn_model_ok (c : fn_case) : bool := let '(name, pat, obs) := c in Bool.eqb (fnmatch name pat) obs.

(** pathlib's Path(p).suffix observed *)
Definition suffix_case := (str * str)%type.
Definition suffix_model_ok (c : suffix_case) : bool := let '(p, obs) := c in str_eqb (suffix_of p) obs.

(** match_files(parent, [parent/r for r in rels], exc, inc) observed, as target-relative strings in the order returned *)
Definition mf_case := (list str * option (list str) * option (list str) * list str)%type.
Definition mf_model_ok (c : mf_case) : bool :=
  let '(rels, exc, inc, obs) := c in strs_eqb (match_files defaults rels exc inc) obs.
Definition mf_spec_ok (c : mf_case) : bool :=
  let '(rels, exc, inc, obs) := c in
  let inc' := or_default inc (fst pinned_defaults) in
  let exc' := or_default exc (snd pinned_defaults) in
  forallb (fun f => Bool.eqb (mem_str f obs) (selectedb inc' exc' f)) rels
  && forallb (fun f => mem_str f rels) obs.
(** the order / absence of repetitions of the result is compared by [mf_model_ok] only (ordering is C11's concern) *)

(** End to end, find-and-fix mode: a tree whose regular files all carry a trigger, the user's pattern lists, and the
    observed set of changed files (target-relative, sorted by the harness). *)
Definition node_of (n : N) : node :=
  match n with 0%N => NFile | 1%N => NDir | 2%N => NLinkFile | 3%N => NLinkDir | _ => NLinkBroken end.
Definition e2e_case := (list (str * N) * list str * list str * list str)%type.
Definition tree_of (l : list (str * N)) : tree := map (fun e => (fst e, node_of (snd e))) l.
Definition py_ext : list str := [[46; 112; 121]%N].
Definition e2e_model_ok (c : e2e_case) : bool :=
  let '(t, exc, inc, obs) := c in
  strs_eqb (ff_files_to_analyze ff_exclude_sentinel defaults py_ext (files_for_directory (tree_of t)) exc inc) obs.
Definition e2e_spec_ok (c : e2e_case) : bool :=
  let '(t, exc, inc, obs) := c in
  let inc' := or_default (or_none inc) (fst pinned_defaults) in
  let exc' := or_default (or_none (file_level exc)) (snd pinned_defaults) in
  forallb (fun e => Bool.eqb (mem_str (fst e) obs)
                             (is_regular (node_of (snd e)) && str_eqb (suffix_of (fst e)) [46; 112; 121]%N
                              && selectedb inc' exc' (fst e))) t
  && forallb (fun f => existsb (fun e => str_eqb (fst e) f) t) obs.
(** the same expectation under the pinned reading (`path_exclude or None`): used only to CLASSIFY a spec failure *)
Definition e2e_raw_sentinel_ok (c : e2e_case) : bool :=
  let '(t, exc, inc, obs) := c in
  strs_eqb (ff_files_to_analyze RawOrNone pinned_defaults py_ext (files_for_directory (tree_of t)) exc inc) obs.

(** End to end with a dependency-adding codemod: [obs_src] = changed files that are not manifests, [obs_man] = changed
    manifests (target-relative; a manifest written through a symlink shows up in the outside tree instead). *)
Definition dep_case := (list (str * N) * list str * list str * list str * list str)%type.
Definition is_manifest (p : str) : bool := mem_str (path_name p) manifest_names.
Definition dep_model_ok (c : dep_case) : bool :=
  let '(t, exc, inc, obs_src, obs_man) := c in
  let src := List.filter (fun p => negb (is_manifest p))
               (ff_files_to_analyze ff_exclude_sentinel defaults py_ext (files_for_directory (tree_of t)) exc inc) in
  let cands := manifest_candidates manifest_locations manifest_exclusion defaults (tree_of t) exc in
  let regular_cands := List.filter (fun p => existsb (fun e => str_eqb (fst e) p && is_regular (node_of (snd e))) t) cands in
  strs_eqb src obs_src
  && forallb (fun m => mem_str m cands) obs_man
  && (Nat.leb (length obs_man) 1)
  (* a dependency is added iff some source file was rewritten; the first store whose writer succeeds is written; when
     every candidate is a regular file of the tree the write is visible inside the tree *)
  && (match src, cands with
      | _ :: _, _ :: _ => if Nat.eqb (length regular_cands) (length cands) then Nat.eqb (length obs_man) 1 else true
      | _, _ => Nat.eqb (length obs_man) 0
      end).
(** the property text: the files changed are the selected source files - nothing else *)
Definition dep_spec_ok (c : dep_case) : bool :=
  let '(t, exc, inc, obs_src, obs_man) := c in
  e2e_spec_ok (t, exc, inc, obs_src) && match obs_man with [] => true | _ => false end.

(** End to end, SAST mode: [res] = files for which the tool reported a finding; registry default includes given. *)
Definition sast_case := (list (str * N) * list str * list str * list str * list str * list str)%type.
Definition sast_model_ok (c : sast_case) : bool :=
  let '(t, res, regdef, exc, inc, obs) := c in
  strs_eqb (sast_files_to_analyze defaults regdef py_ext (fun f => mem_str f res) (files_for_directory (tree_of t)) exc inc) obs.
Definition sast_spec_ok (c : sast_case) : bool :=
  let '(t, res, regdef, exc, inc, obs) := c in
  forallb (fun e => Bool.eqb (mem_str (fst e) obs)
                             (is_regular (node_of (snd e)) && str_eqb (suffix_of (fst e)) [46; 112; 121]%N
                              && mem_str (fst e) res && selectedb (included_paths inc regdef) exc (fst e))) t
  && forallb (fun f => existsb (fun e => str_eqb (fst e) f) t) obs.
