import argparse
import json
import sys

from codemodder import __version__
from codemodder.logging import OutputFormat, logger
from codemodder.registry import CodemodRegistry


class ArgumentParser(argparse.ArgumentParser):
    def error(self, message):
        """If there is an argument parsing error, print the `--help` message,
        log the error, and exit with status code `3`."""
        self.print_help(sys.stderr)
        logger.error("CLI error: %s", message)
        sys.exit(3)


def build_list_action(codemod_registry: CodemodRegistry):
    class ListAction(argparse.Action):
        """ """

        def _print_codemods(self):
            for codemod_id in sorted(codemod_registry.ids):
                print(codemod_id)

        def __call__(self, parser, *args, **kwargs):
            """
            Print codemod(s) metadata in the following format:

            pixee:python/secure-random
            pixee:python/url-sandbox
            ...

            and exit gracefully.
            """
            self._print_codemods()
            parser.exit()

    return ListAction


def build_describe_action(codemod_registry: CodemodRegistry):
    class DescribeAction(argparse.Action):
        def _print_codemods(self, args: argparse.Namespace):
            # TODO: this doesn't currently honor the include/exclude args
            # This is because of the way arguments are parsed: at the time this
            # action is called, the codemod arguments haven't necessarily been
            # parsed yet. Making this work will require a fairly significant
            # refactor of the argument parsing.
            results = codemod_registry.describe_codemods(
                args.codemod_include, args.codemod_exclude
            )
            print(json.dumps({"results": results}, indent=2))

        def __call__(self, parser, *args, **kwargs):
            parsed_args: argparse.Namespace = args[0]
            self._print_codemods(parsed_args)
            parser.exit()

    return DescribeAction


class CsvListAction(argparse.Action):
    """
    argparse Action to convert "a,b,c" into ["a", "b", "c"]
    """

    def __call__(self, parser, namespace, values, option_string=None):
        # Conversion to dict removes duplicates while preserving order
        items = list(dict.fromkeys(values.split(",")).keys())
        setattr(namespace, self.dest, items)


def positive_int(value: str) -> int:
    number = int(value)
    if number <= 0:
        raise argparse.ArgumentTypeError(f"invalid positive int value: {value!r}")
    return number


def parse_args(argv, codemod_registry: CodemodRegistry):
    """
    Parse CLI arguments according to:
    https://www.notion.so/pixee/Codemodder-CLI-Arguments
    """
    parser = ArgumentParser(description="Run codemods and change code.")

    parser.add_argument("directory", type=str, help="path to find files")
    parser.add_argument(
        "--output",
        type=str,
        help="name of output file to produce",
    )

    codemod_args_group = parser.add_mutually_exclusive_group()
    codemod_args_group.add_argument(
        "--codemod-exclude",
        action=CsvListAction,
        help="Comma-separated set of codemod ID(s) to exclude",
    )
    codemod_args_group.add_argument(
        "--codemod-include",
        action=CsvListAction,
        help="Comma-separated set of codemod ID(s) to include",
    )

    parser.add_argument("--version", action="version", version=__version__)
    parser.add_argument(
        "--list",
        action=build_list_action(codemod_registry),
        nargs=0,
        help="Print codemod names to stdout and exit",
    )
    parser.add_argument(
        "--describe",
        action=build_describe_action(codemod_registry),
        nargs=0,
        help="Print detailed codemod metadata to stdout exit",
    )
    parser.add_argument(
        "--output-format",
        type=str,
        help="the format for the data output file",
        default="codetf",
        choices=["codetf", "diff"],
    )
    parser.add_argument(
        "--dry-run",
        action=argparse.BooleanOptionalAction,
        help="do everything except make changes to files",
    )
    parser.add_argument(
        "--verbose",
        action=argparse.BooleanOptionalAction,
        help="print more to stdout",
    )
    parser.add_argument(
        "--log-format",
        type=OutputFormat,
        default=OutputFormat.HUMAN,
        choices=[OutputFormat.HUMAN, OutputFormat.JSON],
        help="the format for the log output",
    )
    parser.add_argument(
        "--project-name",
        help="optional descriptive name for the project used in log output",
    )
    parser.add_argument(
        "--path-exclude",
        action=CsvListAction,
        default=[],
        help="Comma-separated set of UNIX glob patterns to exclude",
    )
    parser.add_argument(
        "--path-include",
        action=CsvListAction,
        default=[],
        help="Comma-separated set of UNIX glob patterns to include",
    )
    parser.add_argument(
        "--max-workers",
        type=positive_int,
        default=1,
        help="maximum number of workers (threads) to use for processing files in parallel",
    )

    parser.add_argument(
        "--sarif",
        action=CsvListAction,
        help="Comma-separated set of path(s) to SARIF file(s) to feed to the codemods",
    )
    parser.add_argument(
        "--sonar-issues-json",
        action=CsvListAction,
        help="Comma-separated set of path(s) to Sonar issues JSON file(s) to feed to the codemods",
    )
    parser.add_argument(
        "--sonar-hotspots-json",
        action=CsvListAction,
        help="Comma-separated set of path(s) to Sonar hotspots JSON file(s) to feed to the codemods",
    )
    parser.add_argument(
        "--defectdojo-findings-json",
        action=CsvListAction,
        help="Comma-separated set of path(s) to DefectDojo's v2 Findings JSON file(s) to feed to the codemods",
    )
    parser.add_argument(
        "--contrast-vulnerabilities-xml",
        action=CsvListAction,
        help="Comma-separated set of path(s) to Contrast Security's vulnerabilities XML file(s) to feed to the codemods",
    )
    return parser.parse_args(argv)
