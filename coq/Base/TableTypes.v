(** Types of the values that tools/translate.py extracts from /repo into Generated/Tables.v. *)
From CM Require Export Base.Str.

(** result.py: which merge the [ResultSet] class implements. *)
Inductive rs_variant :=
| AsIsNoIor        (* __or__/list_dict_or index both operands; no __ior__ (dict.__ior__ = update) *)
| TotalOrWithIor.  (* __or__/list_dict_or use .get(k, default); __ior__ defined through __or__ *)
